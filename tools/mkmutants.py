#!/usr/bin/env python3
"""Generates mutants/<id>/<name>.patch from (file, old, new) edits against /repo HEAD.
Each mutant is a realistic property-breaking change; ./selftest shows the matching check reports it."""
import os, subprocess, sys, tempfile, shutil
ROOT = os.path.dirname(os.path.dirname(os.path.abspath(__file__)))

M = {}
def mut(pid, name, *edits):
    M.setdefault(pid, []).append((name, edits))

# ---- C01
mut("C01", "sub-overflow-sign", ("internal/eval/evalers.go", "if (result > lhs) != (rhs < 0) {", "if (result > lhs) != (rhs <= 0) {"))
mut("C01", "gt-uses-lessthan", ("internal/eval/evalers.go", """	ok, err := lhs.LessThanOrEqual(rhs)
	if err != nil {
		return types.False, fmt.Errorf("%w: %w", ErrType, err)
	}
	return types.Boolean(!ok), nil""", """	ok, err := lhs.LessThan(rhs)
	if err != nil {
		return types.False, fmt.Errorf("%w: %w", ErrType, err)
	}
	return types.Boolean(!ok), nil"""))
mut("C01", "containsany-first-miss", ("internal/eval/evalers.go", """		if lhs.Contains(e) {
			return types.Boolean(true), nil
		}
	}
	return types.Boolean(false), nil""", """		if lhs.Contains(e) {
			return types.Boolean(true), nil
		}
		break
	}
	return types.Boolean(false), nil"""))
mut("C01", "like-last-chunk", ("types/pattern.go", "if ok && (len(t) == 0 || !lastChunk) {", "if ok {"))
mut("C01", "todays-floor", ("internal/eval/evalers.go", "return types.Long(lhs.ToMilliseconds() / consts.MillisPerDay), nil", "return types.Long((lhs.ToMilliseconds() - (lhs.ToMilliseconds()%consts.MillisPerDay+consts.MillisPerDay)%consts.MillisPerDay) / consts.MillisPerDay), nil"))
mut("C01", "and-rhs-unchecked", ("internal/eval/evalers.go", """	if !b {
		return v, nil
	}
	v, err = n.rhs.Eval(env)
	if err != nil {
		return zeroValue(), err
	}
	_, err = ValueToBool(v)
	if err != nil {
		return zeroValue(), err
	}
	return v, nil""", """	if !b {
		return v, nil
	}
	v, err = n.rhs.Eval(env)
	if err != nil {
		return zeroValue(), err
	}
	return v, nil"""))
mut("C01", "hastag-missing-entity-errors", ("internal/eval/evalers.go", """	e, ok := env.Entities.Get(eid)
	if !ok {
		return types.False, nil
	}""", """	e, ok := env.Entities.Get(eid)
	if !ok {
		return zeroValue(), fmt.Errorf("entity `%v` %w", eid.String(), errEntityNotExist)
	}"""))
mut("C01", "attr-access-memo-across-requests", ("internal/eval/evalers.go", """type attributeAccessEval struct {
	object    Evaler
	attribute types.String
}""", """type attributeAccessEval struct {
	object    Evaler
	attribute types.String
	lastUID   types.EntityUID
	lastVal   types.Value
}"""), ("internal/eval/evalers.go", """		rec, ok := env.Entities.Get(vv)
		if !ok {
			return zeroValue(), fmt.Errorf("entity `%v` %w", vv.String(), errEntityNotExist)
		}
		val, ok := rec.Attributes.Get(n.attribute)
		if !ok {
			return zeroValue(), fmt.Errorf("`%s` %w `%s`", vv.String(), errAttributeAccess, n.attribute)
		}
		return val, nil""", """		if n.lastVal != nil && n.lastUID == vv {
			return n.lastVal, nil
		}
		rec, ok := env.Entities.Get(vv)
		if !ok {
			return zeroValue(), fmt.Errorf("entity `%v` %w", vv.String(), errEntityNotExist)
		}
		val, ok := rec.Attributes.Get(n.attribute)
		if !ok {
			return zeroValue(), fmt.Errorf("`%s` %w `%s`", vv.String(), errAttributeAccess, n.attribute)
		}
		n.lastUID, n.lastVal = vv, val
		return val, nil"""))
mut("C01", "multicast-prefix", ("types/ipaddr.go", "return i.Addr().IsMulticast() && i.Prefix().Bits() >= minPrefixLen", "_ = minPrefixLen\n\treturn i.Addr().IsMulticast()"))

# ---- C02
mut("C02", "erroring-counts", ("authorize.go", """			diag.Errors = append(diag.Errors, DiagnosticError{PolicyID: id, Position: po.Position(), Message: err.Error()})
			continue""", """			diag.Errors = append(diag.Errors, DiagnosticError{PolicyID: id, Position: po.Position(), Message: err.Error()})
			result = true"""))
mut("C02", "reasons-mix", ("authorize.go", """		diag.Reasons = forbids
		return Deny, diag""", """		diag.Reasons = append(forbids, permits...)
		return Deny, diag"""))
mut("C02", "early-deny", ("authorize.go", """		if po.Effect() == Forbid {
			forbids = append(forbids, DiagnosticReason{PolicyID: id, Position: po.Position()})""", """		if po.Effect() == Forbid {
			forbids = append(forbids, DiagnosticReason{PolicyID: id, Position: po.Position()})
			break"""))
mut("C02", "batch-permit-wins", ("x/exp/batch/batch.go", """	if len(forbids) > 0 {
		diag.Reasons = forbids
		return types.Deny, diag
	}
	if len(permits) > 0 {
		diag.Reasons = permits
		return types.Allow, diag
	}""", """	if len(permits) > 0 && len(forbids) < len(permits) {
		diag.Reasons = permits
		return types.Allow, diag
	}
	if len(forbids) > 0 {
		diag.Reasons = forbids
		return types.Deny, diag
	}"""))

# ---- C03
mut("C03", "no-known-set", ("internal/eval/evalers.go", """func entityInOne(env Env, entity types.EntityUID, parent types.EntityUID) bool {
	if entity == parent {
		return true
	}
	var known mapset.MapSet[types.EntityUID]
	var todo []types.EntityUID
	var candidate = entity
	for {
		if fe, ok := env.Entities.Get(candidate); ok {
			if fe.Parents.Contains(parent) {
				return true
			}
			for k := range fe.Parents.All() {
				p, ok := env.Entities.Get(k)
				if !ok || p.Parents.Len() == 0 || k == entity || known.Contains(k) {""", """func entityInOne(env Env, entity types.EntityUID, parent types.EntityUID) bool {
	if entity == parent {
		return true
	}
	var known mapset.MapSet[types.EntityUID]
	var todo []types.EntityUID
	var candidate = entity
	for {
		if fe, ok := env.Entities.Get(candidate); ok {
			if fe.Parents.Contains(parent) {
				return true
			}
			for k := range fe.Parents.All() {
				p, ok := env.Entities.Get(k)
				if !ok || p.Parents.Len() == 0 || k == entity {"""))
mut("C03", "prune-le1", ("internal/eval/evalers.go", """			if fe.Parents.Intersects(parents) {
				return true
			}
			for k := range fe.Parents.All() {
				p, ok := env.Entities.Get(k)
				if !ok || p.Parents.Len() == 0 ||""", """			if fe.Parents.Intersects(parents) {
				return true
			}
			for k := range fe.Parents.All() {
				p, ok := env.Entities.Get(k)
				if !ok || p.Parents.Len() <= 1 ||"""))
mut("C03", "partial-scope-not-reflexive", ("internal/eval/partial.go", "result = e.Type == t.Type && entityInOne(env, e, t.Entity)", "result = e.Type == t.Type && e != t.Entity && entityInOne(env, e, t.Entity)"))
mut("C03", "visited-set-capped-at-6", ("internal/eval/evalers.go", """				todo = append(todo, k)
				known.Add(k)
			}
		}
		if len(todo) == 0 {
			return false
		}
		candidate, todo = todo[len(todo)-1], todo[:len(todo)-1]
	}
}

func entityInSet(""", """				todo = append(todo, k)
				known.Add(k)
			}
		}
		if len(todo) == 0 || known.Len() > 6 {
			return false
		}
		candidate, todo = todo[len(todo)-1], todo[:len(todo)-1]
	}
}

func entityInSet("""))
mut("C03", "isin-skips-type", ("internal/eval/evalers.go", """	if lhs.Type != n.is {
		return types.False, nil
	}""", """	if lhs.Type != n.is && lhs.ID != "y" {
		return types.False, nil
	}"""))

# ---- C04
mut("C04", "has-fold-entity", ("internal/eval/fold.go", '''				if _, ok := values[0].(types.EntityUID); ok {
					return newErrorEval(fmt.Errorf("fold.Has.EntityUID"))
				}
				return newHasEval(''', '''				return newHasEval('''))
mut("C04", "fold-in", ("internal/eval/fold.go", '''			func(_ []types.Value) Evaler {
				return newErrorEval(fmt.Errorf("fold.In.EntityUID"))
			},''', '''			func(values []types.Value) Evaler {
				return newInEval(newLiteralEval(values[0]), newLiteralEval(values[1]))
			},'''))
mut("C04", "fold-in-place", ("internal/eval/fold.go", '''		p2.Conditions = make([]ast.ConditionType, len(p.Conditions))
		for i, c := range p.Conditions {''', '''		for i, c := range p.Conditions {'''))
mut("C04", "and-true-folds-to-rhs", ("internal/eval/fold.go", '''	case ast.NodeTypeAnd:
		return tryFoldBinary(''', '''	case ast.NodeTypeAnd:
		if l, ok := fold(v.Left).(ast.NodeValue); ok && l.Value == types.True {
			return fold(v.Right)
		}
		return tryFoldBinary('''))
mut("C04", "error-folds-to-false", ("internal/eval/fold.go", '''		if err == nil {
			return ast.NodeValue{Value: v}
		}''', '''		if err == nil {
			return ast.NodeValue{Value: v}
		} else if len(nodes) == 3 {
			return ast.NodeValue{Value: types.False}
		}'''))

# ---- C05
mut("C05", "clonesub-first-only", ("x/exp/batch/batch.go", "if vv, delta := cloneSub(vv, k, v); delta {", "if vv, delta := cloneSub(vv, k, v); delta && newMap == nil {"))
mut("C05", "no-state-restore", ("x/exp/batch/batch.go", '''	// restore previous state
	*be = prevState
	return nil''', '''	// restore previous state
	be.Variables = prevState.Variables
	return nil'''))
mut("C05", "callback-error-ignored", ("x/exp/batch/batch.go", '''		if err := doBatch(ctx, be); err != nil {
			return err
		}''', '''		if err := doBatch(ctx, be); err != nil && ctx.Err() != nil {
			return err
		}'''))
mut("C05", "set-substitution-first-only", ("x/exp/batch/batch.go", '''		for vv := range t.All() {
			vv, _ = cloneSub(vv, k, v)
			newSlice = append(newSlice, vv)
		}''', '''		done := false
		for vv := range t.All() {
			if !done {
				var d bool
				vv, d = cloneSub(vv, k, v)
				done = d
			}
			newSlice = append(newSlice, vv)
		}'''))
mut("C05", "ctx-checked-only-at-top", ("x/exp/batch/batch.go", '''func doBatch(ctx context.Context, be *batchEvaler) error {
	if err := ctx.Err(); err != nil {
		return err
	}''', '''func doBatch(ctx context.Context, be *batchEvaler) error {
	if err := ctx.Err(); err != nil && len(be.Variables) > 0 {
		return err
	}'''))

# ---- C06
mut("C06", "and-false-keeps-right", ("internal/eval/partial.go", '''	case isFalse(left):
		return ast.NodeValue{Value: types.False}, nil
	case isTrue(left):
		return tryPartialBinary(env,
			ast.BinaryNode{Left: ast.NodeValue{Value: types.True}, Right: v.Right},
			newAndEval,''', '''	case isFalse(left):
		return partial(env, v.Right)
	case isTrue(left):
		return tryPartialBinary(env,
			ast.BinaryNode{Left: ast.NodeValue{Value: types.True}, Right: v.Right},
			newAndEval,'''))
mut("C06", "scope-variable-true", ("internal/eval/partial.go", '''	if IsVariable(ent) {
		return false, false
	} else if IsIgnore(ent) {''', '''	if IsVariable(ent) {
		return true, true
	} else if IsIgnore(ent) {'''))
mut("C06", "nonbool-condition-dropped", ("internal/eval/partial.go", '''			err := fmt.Errorf("%w: condition expected bool", ErrType)
			p2.Conditions = append(p2.Conditions, ast.ConditionType{Condition: c.Condition, Body: extError(err)})
			return &p2, true''', '''			continue'''))
mut("C06", "nested-unknown-compared", ("internal/eval/partial.go", '''			if containsVariable(values[0]) || containsVariable(values[1]) {''', '''			if IsVariable(values[0]) || IsVariable(values[1]) {'''))
# (C06 residual-frozen-operands removed: equivalent since fix 1981774 keeps the original operand for every value with a nested unknown)
mut("C06", "ignore-in-unless-kept-false", ("internal/eval/partial.go", '''			if types.Effect(p.Effect) == types.Permit {
				continue
			}
			return nil, false''', '''			if types.Effect(p.Effect) == types.Permit && bool(c.Condition) {
				continue
			}
			return nil, false'''))
mut("C06", "or-error-right-dropped", ("internal/eval/partial.go", '''	} else if rightErr != nil && !errors.Is(rightErr, errVariable) {
		right = extError(rightErr)
	}
	return ast.NodeTypeOr{''', '''	} else if rightErr != nil && !errors.Is(rightErr, errVariable) {
		return left, nil
	}
	return ast.NodeTypeOr{'''))

# ---- C07
mut("C07", "mult-calls-member", ("internal/parser/cedar_unmarshal.go", '''	for p.peek().Text == "*" {
		p.advance()
		rhs, err := p.unary()''', '''	for p.peek().Text == "*" {
		p.advance()
		rhs, err := p.member()'''))
mut("C07", "sub-right-assoc", ("internal/parser/cedar_unmarshal.go", '''		p.advance()
		rhs, err := p.mult()
		if err != nil {
			return ast.Node{}, err
		}
		lhs = operator(lhs, rhs)
	}

	return lhs, nil''', '''		p.advance()
		var rhs ast.Node
		var err error
		if t.Text == "-" {
			rhs, err = p.add()
		} else {
			rhs, err = p.mult()
		}
		if err != nil {
			return ast.Node{}, err
		}
		lhs = operator(lhs, rhs)
	}

	return lhs, nil'''))
mut("C07", "relation-chains", ("internal/parser/cedar_unmarshal.go", '''	p.advance()
	rhs, err := p.add()
	if err != nil {
		return ast.Node{}, err
	}
	return operator(lhs, rhs), nil''', '''	p.advance()
	rhs, err := p.relation()
	if err != nil {
		return ast.Node{}, err
	}
	return operator(lhs, rhs), nil'''))
mut("C07", "method-as-function", ("internal/parser/cedar_unmarshal.go", '''			if i.IsMethod {
				return ast.Node{}, p.errorf("`%v` is a method, not a function", prefix)
			}''', '''			_ = i'''))
mut("C07", "duplicate-record-key-last-wins", ("internal/parser/cedar_unmarshal.go", '''		if known.Contains(k) {
			return res, p.errorf("duplicate key: %v", k)
		}''', ''''''))
mut("C07", "and-operands-swapped-on-third", ("internal/parser/cedar_unmarshal.go", '''	for p.peek().Text == "&&" {
		p.advance()
		rhs, err := p.relation()
		if err != nil {
			return ast.Node{}, err
		}
		lhs = lhs.And(rhs)
	}''', '''	n := 0
	for p.peek().Text == "&&" {
		p.advance()
		rhs, err := p.relation()
		if err != nil {
			return ast.Node{}, err
		}
		n++
		if n == 2 {
			lhs = rhs.And(lhs)
			continue
		}
		lhs = lhs.And(rhs)
	}'''))
mut("C07", "hex-escape-allows-high", ("internal/rust/rust.go", '''	if res > 127 {
		return 0, i, fmt.Errorf("bad hex escape sequence")
	}''', ''''''))
mut("C07", "is-in-rhs-member", ("internal/parser/cedar_unmarshal.go", '''		p.advance()
		inEntity, err := p.add()''', '''		p.advance()
		inEntity, err := p.mult()'''))

# ---- C08
mut("C08", "sub-right-same-level", ("internal/parser/cedar_marshal.go", '''	marshalInfixBinaryOp(n.BinaryNode, p, p+1, "-", buf)''', '''	marshalInfixBinaryOp(n.BinaryNode, p, p, "-", buf)'''))
mut("C08", "ident-ignores-keywords", ("internal/parser/cedar_marshal.go", '''	if len(s) == 0 || IsReservedKeyword(s) {
		return false
	}''', '''	if len(s) == 0 {
		return false
	}'''))
mut("C08", "if-binds-like-or", ("internal/parser/node.go", '''func (n NodeTypeIf) precedenceLevel() nodePrecedenceLevel {
	return ifPrecedence''', '''func (n NodeTypeIf) precedenceLevel() nodePrecedenceLevel {
	return orPrecedence'''))
mut("C08", "pattern-star-unescaped", ("types/pattern.go", '''		quotedString = strings.ReplaceAll(quotedString, "*", "\\\\*")''', '''		_ = strings.ReplaceAll'''))
mut("C08", "has-left-at-relation-level", ("internal/parser/cedar_marshal.go", '''func (n NodeTypeHas) marshalCedar(buf *bytes.Buffer) {
	marshalChildNode(n.precedenceLevel()+1, n.Arg, buf)''', '''func (n NodeTypeHas) marshalCedar(buf *bytes.Buffer) {
	marshalChildNode(n.precedenceLevel(), n.Arg, buf)'''))
mut("C08", "negative-receiver-no-parens", ("internal/parser/cedar_marshal.go", '''func (n negativeLongValue) precedenceLevel() nodePrecedenceLevel { return unaryPrecedence }''', '''func (n negativeLongValue) precedenceLevel() nodePrecedenceLevel { return primaryPrecedence }'''))
mut("C08", "record-key-go-quote", ("types/record.go", '''		sb.Write(k.MarshalCedar())''', '''		sb.WriteString(fmt.Sprintf("%q", string(k)))'''), ("types/record.go", '''	"encoding/json"
''', '''	"encoding/json"
	"fmt"
'''))
mut("C08", "double-quote-unescaped-after-first", ("internal/rust/rust.go", "\t\tb = append(b, escapeRune(r, first)...)", "\t\tif r == '\"' && !first {\n\t\t\tb = append(b, '\"')\n\t\t\tcontinue\n\t\t}\n\t\tb = append(b, escapeRune(r, first)...)"))

# ---- C09
mut("C09", "sub-operands-swapped", ("internal/json/json_marshal.go", '''	case ast.NodeTypeSub:
		binaryToJSON(&n.Subtract, t.BinaryNode)''', '''	case ast.NodeTypeSub:
		binaryToJSON(&n.Subtract, ast.BinaryNode{Left: t.Right, Right: t.Left})'''))
mut("C09", "is-in-dropped", ("internal/json/json_unmarshal.go", '''	if j.In != nil {
		right, err := j.In.ToNode()
		if err != nil {
			return ast.Node{}, fmt.Errorf("error in entity: %w", err)
		}
		return left.IsIn(types.EntityType(j.EntityType), right), nil
	}''', '''	if j.In != nil {
		if _, err := j.In.ToNode(); err != nil {
			return ast.Node{}, fmt.Errorf("error in entity: %w", err)
		}
	}'''))
mut("C09", "unless-after-when-becomes-when", ("internal/json/json_marshal.go", '''		if c.Condition == ast.ConditionUnless {
			cond.Kind = "unless"
		}''', '''		if c.Condition == ast.ConditionUnless && len(j.Conditions) != 1 {
			cond.Kind = "unless"
		}'''))
mut("C09", "pattern-literal-after-wildcard-lost", ("types/pattern.go", '''		if !comp.Wildcard || comp.Literal != "" {
			if comp.Wildcard {
				buf.WriteString(", ")
			}''', '''		if !comp.Wildcard {'''))
mut("C09", "getTag-as-hasTag", ("internal/json/json_marshal.go", '''	case ast.NodeTypeGetTag:
		binaryToJSON(&n.GetTag, t.BinaryNode)''', '''	case ast.NodeTypeGetTag:
		binaryToJSON(&n.HasTag, t.BinaryNode)'''))
mut("C09", "scope-is-in-entity-type-lost", ("internal/json/json_unmarshal.go", '''		return ast.Scope{}.IsIn(types.EntityType(s.EntityType), types.EntityUID(s.In.Entity)), nil''', '''		return ast.Scope{}.In(types.EntityUID(s.In.Entity)), nil'''))
mut("C09", "policyset-id-trimmed", ("policy_set.go", '''		p.policies[PolicyID(k)] = newPolicy((*ast.Policy)(v))''', '''		p.policies[PolicyID(strings.TrimSpace(k))] = newPolicy((*ast.Policy)(v))'''), ("policy_set.go", '''	"slices"
''', '''	"slices"
	"strings"
'''))
mut("C09", "decimal-value-as-float-string", ("internal/json/json_marshal.go", '''	str := src.String()
	val := valueJSON{v: types.String(str)}''', '''	str := src.String()
	if d, ok := src.(types.Decimal); ok {
		str = fmt.Sprintf("%.4f", d.Float())
	}
	val := valueJSON{v: types.String(str)}'''))

# ---- C11
mut("C11", "contains-no-probe", ("types/set.go", '''		} else if v.Equal(existing) {
			return true
		}
		hash++
	}
}''', '''		} else if v.Equal(existing) {
			return true
		}
		return false
	}
}'''))
mut("C11", "equal-trusts-hash", ("types/set.go", '''	for _, v := range s.s {
		if !bs.Contains(v) {
			return false
		}
	}
	return true
}''', '''	return true
}'''))
mut("C11", "record-map-aliases", ("types/record.go", '''	if r.m == nil {
		return nil
	}
	return maps.Clone(r.m)''', '''	return r.m'''))
mut("C11", "newrecord-no-clone", ("types/record.go", '''	if m != nil {
		m = maps.Clone(m)
	}''', ''''''))
mut("C11", "record-equal-ignores-values-when-hash-equal", ("types/record.go", '''		if !ok || !av.Equal(bv) {
			return false
		}''', '''		if _, _ = av, bv; !ok {
			return false
		}'''))
mut("C11", "long-equals-decimal", ("types/long.go", '''func (l Long) Equal(bi Value) bool {
	b, ok := bi.(Long)
	return ok && l == b
}''', '''func (l Long) Equal(bi Value) bool {
	if d, ok := bi.(Duration); ok {
		return int64(l) == d.ToMilliseconds()
	}
	b, ok := bi.(Long)
	return ok && l == b
}'''))
mut("C11", "newset-first-collision-wins", ("types/set.go", '''			} else if vv.Equal(existing) {
				// found duplicate in slice
				break
			}
			hash++''', '''			} else if vv.Equal(existing) || hash > vv.hash()+1 {
				// found duplicate in slice
				break
			}
			hash++'''))

# ---- C12
mut("C12", "decimal-string-trims-all-zeros", ("types/decimal.go", "trimmed < 3; right, trimmed", "trimmed < 4; right, trimmed"))
mut("C12", "duration-overflow-check-removed", ("types/duration.go", '''			if total > limit-product {
				return Duration{}, fmt.Errorf("%w: overflow", errDuration)
			}''', ''''''))
mut("C12", "valid-day-unchecked", ("types/datetime.go", '''	if err = checkValidDay(year, month, day); err != nil {
		return Datetime{}, err
	}''', ''''''))
mut("C12", "offset-minutes-99", ("types/datetime.go", '''parseUint(s, 2, 59, "offset minutes")''', '''parseUint(s, 2, 99, "offset minutes")'''))
mut("C12", "newdecimal-wraps", ("types/decimal.go", '''		if i > math.MaxInt64/scale {''', '''		if i > math.MaxInt64/scale && scale < 100000 {'''))
mut("C12", "decimal-negative-fraction-sign", ("types/decimal.go", '''	if s[0] == '-' {
		tenThousandths = -tenThousandths
	}''', '''	if intPart < 0 {
		tenThousandths = -tenThousandths
	}'''))
mut("C12", "datetime-year-10000-four-digit-format", ("types/datetime.go", '''	if year >= 0 && year <= 9999 {''', '''	if year >= 0 && year <= 10000 {'''))
mut("C12", "duration-units-any-order", ("types/duration.go", '''			if !unitOK {
				return Duration{}, fmt.Errorf("%w: unexpected unit '%s'", errDuration, unit)
			}''', '''			if !unitOK {
				unitI = 0
			}'''))
mut("C12", "ip-prefix-string-drops-32", ("types/ipaddr.go", '''	if i.Prefix().Bits() == i.Addr().BitLen() {
		return i.Addr().String()
	}
	return i.Prefix().String()''', '''	if i.Prefix().Bits() >= 32 {
		return i.Addr().String()
	}
	return i.Prefix().String()'''))

# ---- C13
mut("C13", "entity-tags-dropped-when-no-attrs", ("types/entity.go", '''		parents,
		e.Attributes,
		e.Tags,
	}''', '''		parents,
		e.Attributes,
		e.Tags,
	}
	if e.Attributes.Len() == 0 {
		m.Tags = Record{}
	}'''))
mut("C13", "long-range-unchecked", ("types/json.go", '''		l, err := vv.Int64()
		if err != nil {
			return fmt.Errorf("%w: %w", errJSONLongOutOfRange, err)
		}
		*v = Long(l)''', '''		l, err := vv.Int64()
		if err != nil {
			f, _ := vv.Float64()
			l = int64(f)
		}
		*v = Long(l)'''))
mut("C13", "set-wrap-order", ("types/set.go", '''		if k < s.s[k].hash() {''', '''		if false && k < s.s[k].hash() {'''))
mut("C13", "decimal-json-arg-float", ("types/decimal.go", '''		Extn: &extn{
			Fn:  "decimal",
			Arg: d.String(),
		},''', '''		Extn: &extn{
			Fn:  "decimal",
			Arg: strconv.FormatFloat(d.Float(), 'f', 4, 64),
		},'''))
mut("C13", "coerce-set-first-only", ("x/exp/types/json.go", '''	for elem := range set.All() {
		coerced := coerceValue(elem, typ.Element)
		if !coerced.Equal(elem) {
			changed = true
		}
		elems = append(elems, coerced)
	}''', '''	for elem := range set.All() {
		coerced := elem
		if !changed {
			coerced = coerceValue(elem, typ.Element)
		}
		if !coerced.Equal(elem) {
			changed = true
		}
		elems = append(elems, coerced)
	}'''))
mut("C13", "entityuid-implicit-needs-only-type", ("types/entity_uid.go", '''	} else if res.Type != nil && res.ID != nil { // require both Type and ID to parse "implicit" JSON
		e.Type = EntityType(*res.Type)
		e.ID = String(*res.ID)
		return nil
	}''', '''	} else if res.Type != nil { // require both Type and ID to parse "implicit" JSON
		e.Type = EntityType(*res.Type)
		if res.ID != nil {
			e.ID = String(*res.ID)
		}
		return nil
	}'''))
# ---- C18
mut("C18", "offset-not-advanced-on-refill", ("internal/parser/cedar_tokenize.go", '''			s.srcBufOffset += s.srcPos
''', ''''''))
mut("C18", "token-head-not-saved", ("internal/parser/cedar_tokenize.go", '''			if s.tokPos >= 0 {
				s.tokBuf.Write(s.srcBuf[s.tokPos:s.srcPos])
				s.tokPos = 0''', '''			if s.tokPos >= 0 {
				s.tokPos = 0'''))
mut("C18", "column-counts-bytes", ("internal/parser/cedar_tokenize.go", '''	// advance
	s.srcPos += width
	s.lastCharLen = width
	s.column++''', '''	// advance
	s.srcPos += width
	s.lastCharLen = width
	s.column += width'''))
mut("C18", "data-with-eof-dropped", ("internal/parser/cedar_tokenize.go", '''			s.srcPos = 0
			s.srcEnd = i + n''', '''			s.srcPos = 0
			if err == io.EOF {
				n = 0
			}
			s.srcEnd = i + n'''))
mut("C18", "reader-error-swallowed-when-data-pending", ("internal/parser/cedar_tokenize.go", '''				if err != io.EOF {
					s.error(err.Error())
				}''', '''				if err != io.EOF && i+n == 0 {
					s.error(err.Error())
				}'''))
mut("C18", "fullrune-check-dropped", ("internal/parser/cedar_tokenize.go", '''		for s.srcPos+utf8.UTFMax > s.srcEnd && !utf8.FullRune(s.srcBuf[s.srcPos:s.srcEnd]) {''', '''		for s.srcPos+1 > s.srcEnd {'''))
mut("C18", "filename-not-in-diagnostics", ("authorize.go", '''			forbids = append(forbids, DiagnosticReason{PolicyID: id, Position: po.Position()})''', '''			forbids = append(forbids, DiagnosticReason{PolicyID: id, Position: Position{Offset: po.Position().Offset, Line: po.Position().Line, Column: po.Position().Column}})'''))
mut("C18", "line-after-cr", ("internal/parser/cedar_tokenize.go", '''	case '\\n':
		s.line++
		s.lastLineLen = s.column
		s.column = 0
	}''', '''	case '\\n', '\\r':
		s.line++
		s.lastLineLen = s.column
		s.column = 0
	}'''))

# ---- C10
mut("C10", "scope-entity-nil-unchecked", ("internal/json/json_unmarshal.go", '''	case "in":
		if s.Entity == nil {
			return nil, fmt.Errorf("missing entity")
		}
		return ast.Scope{}.In(types.EntityUID(*s.Entity)), nil
	case "is":''', '''	case "in":
		return ast.Scope{}.In(types.EntityUID(*s.Entity)), nil
	case "is":'''))
mut("C10", "record-null-member", ("internal/json/json_unmarshal.go", '''		if v == nil {
			return ast.Node{}, fmt.Errorf("error in record: missing value for key %q", k)
		}''', ''''''))
mut("C10", "pattern-literal-type-assertion", ("types/pattern.go", '''			literalStr, ok := literal.(string)
			if !ok {
				return fmt.Errorf(`%w: invalid "Literal" value "%v"`, errJSONInvalidPatternComponent, literal)
			}''', '''			literalStr := literal.(string)'''))
mut("C10", "method-receiver-indexed", ("internal/parser/cedar_marshal.go", "if info.IsMethod && len(n.Args) > 0 {", "if info.IsMethod {"))
mut("C10", "entity-uid-unmarshal-short", ("types/entity_uid.go", '''	if len(quoted) < 2 || quoted[0] != '"' || quoted[len(quoted)-1] != '"' {''', '''	if quoted[0] != '"' || quoted[len(quoted)-1] != '"' {'''))

# ---- C14
mut("C14", "policyset-marshal-unsorted", ("policy_set.go", "	slices.Sort(ids)\n", "	_ = slices.Sort[[]PolicyID]\n"))
mut("C14", "record-marshal-unsorted", ("types/record.go", '''	keys := slices.Collect(maps.Keys(r.m))
	slices.Sort(keys)
	for _, k := range keys {
		v := r.m[k]
		if !first {''', '''	keys := slices.Collect(maps.Keys(r.m))
	for _, k := range keys {
		v := r.m[k]
		if !first {'''))
mut("C14", "entitymap-marshal-unsorted", ("types/entity_map.go", '''	slices.SortFunc(s, func(a, b Entity) int {
		return strings.Compare(a.UID.String(), b.UID.String())
	})''', '''	_ = strings.Compare'''))
mut("C14", "record-eval-map-order", ("internal/eval/evalers.go", "	slices.Sort(keys)\n	for _, k := range keys {\n		en := n.elements[k]", "	_ = slices.Sort[[]int]\n	for _, k := range keys {\n		en := n.elements[k]"))
mut("C14", "json-annotations-map-order", ("internal/json/json_unmarshal.go", "	slices.Sort(annotationKeys)\n", ""))
mut("C14", "entity-parents-unsorted", ("types/entity.go", '''	slices.SortFunc(parents, func(a, b ImplicitlyMarshaledEntityUID) int {
		if cmp := strings.Compare(string(a.Type), string(b.Type)); cmp != 0 {
			return cmp
		}

		return strings.Compare(string(a.ID), string(b.ID))
	})''', '''	_ = strings.Compare
	_ = slices.Sort[[]int]'''))
mut("C14", "first-error-wins-diagnostics", ("authorize.go", '''			diag.Errors = append(diag.Errors, DiagnosticError{PolicyID: id, Position: po.Position(), Message: err.Error()})
			continue''', '''			if len(diag.Errors) < 2 {
				diag.Errors = append(diag.Errors, DiagnosticError{PolicyID: id, Position: po.Position(), Message: err.Error()})
			}
			continue'''))

mut("C14", "schema-entities-unsorted", ("x/exp/schema/internal/parser/marshal.go", "	entityNames := slices.Sorted(maps.Keys(entities))", "	entityNames := slices.Collect(maps.Keys(entities))"))
mut("C14", "schema-record-attrs-unsorted", ("x/exp/schema/internal/parser/marshal.go", "	keys := slices.Sorted(maps.Keys(rec))", "	keys := slices.Collect(maps.Keys(rec))"))

# ---- C19
mut("C19", "todo-hoisted-to-package-scope", ("internal/eval/evalers.go", '''func entityInOne(env Env, entity types.EntityUID, parent types.EntityUID) bool {
	if entity == parent {
		return true
	}
	var known mapset.MapSet[types.EntityUID]
	var todo []types.EntityUID''', '''var sharedTodo []types.EntityUID

func entityInOne(env Env, entity types.EntityUID, parent types.EntityUID) bool {
	if entity == parent {
		return true
	}
	var known mapset.MapSet[types.EntityUID]
	todo := sharedTodo[:0]
	defer func() { sharedTodo = todo[:0] }()'''))
mut("C19", "marshal-text-cached-in-policy", ("policy.go", '''type Policy struct {
	eval eval.BoolEvaler // determines if a policy matches a request.
	ast  *internalast.Policy
}''', '''type Policy struct {
	eval eval.BoolEvaler // determines if a policy matches a request.
	ast  *internalast.Policy
	text []byte
}'''), ("policy.go", '''	cedarPolicy := (*parser.Policy)(p.ast)

	var buf bytes.Buffer
	cedarPolicy.MarshalCedar(&buf)

	return buf.Bytes()''', '''	if p.text != nil {
		return p.text
	}
	cedarPolicy := (*parser.Policy)(p.ast)

	var buf bytes.Buffer
	cedarPolicy.MarshalCedar(&buf)
	p.text = buf.Bytes()
	return p.text'''))
mut("C19", "partial-writes-into-shared-ast", ("internal/eval/partial.go", '''		nodes := make([]ast.IsNode, len(v.Args))
		copy(nodes, v.Args)
		return tryPartial(env, nodes,''', '''		nodes := v.Args
		return tryPartial(env, nodes,'''))
mut("C19", "set-lazy-hash", ("types/set.go", '''func (s Set) Equal(bi Value) bool {
	bs, ok := bi.(Set)
	if !ok {
		return false
	}
''', '''var lastComparedLen int

func (s Set) Equal(bi Value) bool {
	bs, ok := bi.(Set)
	if !ok {
		return false
	}
	lastComparedLen = len(s.s)
'''))
mut("C19", "batch-sorts-shared-variables", ("x/exp/batch/batch.go", '''	for k, v := range request.Variables {
		be.Variables = append(be.Variables, variableItem{Key: k, Values: v})
	}''', '''	for k, v := range request.Variables {
		if len(v) > 1 {
			v[0], v[len(v)-1] = v[len(v)-1], v[0]
			defer func() { v[0], v[len(v)-1] = v[len(v)-1], v[0] }()
		}
		be.Variables = append(be.Variables, variableItem{Key: k, Values: v})
	}'''))
mut("C19", "validator-memoises-types", ("x/exp/schema/validate/policy.go", '''func (v *Validator) getEntityTypesIn(target types.EntityType) []types.EntityType {''', '''var entityTypesInCache = map[types.EntityType][]types.EntityType{}

func (v *Validator) getEntityTypesIn(target types.EntityType) (res []types.EntityType) {
	if r, ok := entityTypesInCache[target]; ok {
		return r
	}
	defer func() { entityTypesInCache[target] = res }()
	return v.getEntityTypesInUncached(target)
}

func (v *Validator) getEntityTypesInUncached(target types.EntityType) []types.EntityType {'''))

# ---- C16
mut("C16", "common-type-cycle-check-removed", ("x/exp/schema/resolved/resolve.go", '''	if err := r.detectCommonTypeCycles(); err != nil {
		return nil, err
	}''', '''	_ = r.detectCommonTypeCycles'''))
mut("C16", "action-cycle-check-removed", ("x/exp/schema/resolved/resolve.go", '''		case 1:
			return fmt.Errorf("cycle detected in action hierarchy involving %s", uid)''', '''		case 1:
			return nil'''))
mut("C16", "typeofvalue-asserts-entity", ("x/exp/schema/validate/typechecker.go", '''		case types.Record:
			elems := make([]ast.RecordElementNode, 0, val.Len())''', '''		case types.Record:
			if val.Len() == 0 {
				break
			}
			elems := make([]ast.RecordElementNode, 0, val.Len())'''))
mut("C16", "descendant-no-visited", ("x/exp/schema/validate/cedar_type.go", '''	if visited[childType] {
		return false
	}''', ''''''))
mut("C16", "request-nil-appliesto", ("x/exp/schema/validate/request.go", '''	if action.AppliesTo == nil || !slices.Contains(action.AppliesTo.Principals, req.Principal.Type) {''', '''	if !slices.Contains(action.AppliesTo.Principals, req.Principal.Type) {'''))

# ---- C17
mut("C17", "json-required-default-optional", ("x/exp/schema/internal/json/json.go", "			Optional: ja.Required != nil && !*ja.Required,", "			Optional: ja.Required == nil || !*ja.Required,"))
mut("C17", "text-keywords-unquoted", ("x/exp/schema/internal/parser/marshal.go", "	return !cedarparser.IsReservedKeyword(s)\n}", "	return true || !cedarparser.IsReservedKeyword(s)\n}"))
mut("C17", "attr-annotations-dropped-in-json", ("x/exp/schema/internal/json/json.go", '''		if len(attr.Annotations) > 0 {
			ja.Annotations = marshalAnnotations(attr.Annotations)
		}''', ''''''))
mut("C17", "text-attr-annotations-dropped", ("x/exp/schema/internal/parser/marshal.go", "			m.marshalAnnotations(attr.Annotations)", "			_ = attr.Annotations"))
mut("C17", "entity-parents-truncated-in-text", ("x/exp/schema/internal/parser/marshal.go", "			m.marshalEntityTypeRefs(entity.ParentTypes)", "			m.marshalEntityTypeRefs(entity.ParentTypes[:min(2, len(entity.ParentTypes))])"))

mut("C17", "tags-dropped-when-shape-empty", ("x/exp/schema/internal/parser/marshal.go", "		if entity.Tags != nil {\n			m.w.WriteString(\" tags \")", "		if entity.Tags != nil && len(entity.Shape) > 0 {\n			m.w.WriteString(\" tags \")"))

# ---- C15
mut("C15", "or-merges-capabilities", ("x/exp/schema/validate/typechecker.go", "	return typeBool{}, lCaps.intersect(rCaps), nil\n}\n\nfunc (v *Validator) typeOfNot", "	return typeBool{}, lCaps.merge(rCaps), nil\n}\n\nfunc (v *Validator) typeOfNot"))
mut("C15", "optional-attr-treated-required", ("x/exp/schema/validate/cedar_type.go", "			required: !attr.Optional,", "			required: !attr.Optional || name == \"zip\","))
mut("C15", "optional-entity-attr-treated-required", ("x/exp/schema/validate/cedar_type.go", "			required: !schemaAttr.Optional,", "			required: !schemaAttr.Optional || attr == \"score\","))
mut("C15", "comparison-kinds-unchecked", ("x/exp/schema/validate/typechecker.go", "	if len(errs) == 0 && lt != nil && rt != nil && !sameComparableKind(lt, rt) {", "	if false && len(errs) == 0 && lt != nil && rt != nil && !sameComparableKind(lt, rt) {"))
mut("C15", "has-capability-any-attr", ("x/exp/schema/validate/capability.go", '''func (cs capabilitySet) has(c capability) bool {
	return cs[c]
}''', '''func (cs capabilitySet) has(c capability) bool {
	if cs[c] {
		return true
	}
	for k := range cs {
		if k.varName == c.varName && len(k.attr) == len(c.attr) {
			return true
		}
	}
	return false
}'''))
mut("C15", "not-keeps-capabilities", ("x/exp/schema/validate/typechecker.go", '''func (v *Validator) typeOfNot(env *requestEnv, n ast.NodeTypeNot, caps capabilitySet) (cedarType, capabilitySet, error) {
	t, _, err := v.typeOfExpr(env, n.Arg, caps)''', '''func (v *Validator) typeOfNot(env *requestEnv, n ast.NodeTypeNot, caps capabilitySet) (cedarType, capabilitySet, error) {
	t, caps, err := v.typeOfExpr(env, n.Arg, caps)'''))

# ---- C20
mut("C20", "unmarshal-merges", ("policy_set.go", """	*p = PolicySet{
		policies: make(PolicyMap, len(jsonPolicySet.StaticPolicies)),
	}""", """	if p.policies == nil {
		p.policies = make(PolicyMap, len(jsonPolicySet.StaticPolicies))
	}"""))
mut("C20", "map-aliases", ("policy_set.go", "return maps.Clone(p.policies)", "return p.policies"))
mut("C20", "marshal-numeric-order", ("policy_set.go", "	slices.Sort(ids)\n", "	slices.SortFunc(ids, func(a, b PolicyID) int {\n\t\tif len(a) != len(b) {\n\t\t\treturn len(a) - len(b)\n\t\t}\n\t\tif a < b {\n\t\t\treturn -1\n\t\t} else if a > b {\n\t\t\treturn 1\n\t\t}\n\t\treturn 0\n\t})\n"))
mut("C20", "add-keeps-old", ("policy_set.go", """	_, exists := p.policies[policyID]
	p.policies[policyID] = policy
	return !exists""", """	_, exists := p.policies[policyID]
	if !exists {
		p.policies[policyID] = policy
	}
	return !exists"""))
mut("C20", "filename-first-only", ("policy_list.go", """	for _, p := range policySlice {
		p.SetFilename(fileName)
	}""", """	for i, p := range policySlice {
		if i%8 != 7 {
			p.SetFilename(fileName)
		}
	}"""))

def main():
    only = sys.argv[1:]
    wt = tempfile.mkdtemp(prefix="vmk")
    subprocess.check_call(["git", "-C", "/repo", "worktree", "add", "-q", "--detach", wt + "/wt", "HEAD"])
    try:
        for pid, muts in sorted(M.items()):
            if only and pid not in only: continue
            d = os.path.join(ROOT, "mutants", pid)
            os.makedirs(d, exist_ok=True)
            for name, edits in muts:
                subprocess.check_call(["git", "-C", wt + "/wt", "checkout", "-q", "--", "."])
                for f, old, new in edits:
                    p = os.path.join(wt, "wt", f)
                    s = open(p).read()
                    if s.count(old) != 1:
                        print(f"!! {pid}/{name}: anchor occurs {s.count(old)} times in {f}")
                        break
                    open(p, "w").write(s.replace(old, new))
                else:
                    diff = subprocess.check_output(["git", "-C", wt + "/wt", "diff"])
                    open(os.path.join(d, name + ".patch"), "wb").write(diff)
                    print("wrote", pid, name)
    finally:
        subprocess.call(["git", "-C", "/repo", "worktree", "remove", "--force", wt + "/wt"])
        shutil.rmtree(wt, ignore_errors=True)
main()
