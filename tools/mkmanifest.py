#!/usr/bin/env python3
"""Regenerates /verif/MANIFEST.json from the table below (kept valid at all times)."""
import json, os, sys
ROOT = os.path.dirname(os.path.dirname(os.path.abspath(__file__)))
ALL = ["C%02d" % i for i in range(1, 21)]

CHECKS = {
 "C01": dict(
  text="bounded-exhaustive enumeration of operator x boundary-operand tables (every operator form with every operand tuple of an 80-value typed boundary universe + the four variables, 6 environments), all depth-2 parent/child/position pairings and depth-3 short-circuit forms, each evaluated on the real code through both observation points (x/exp/eval.Eval and cedar.Authorize of a one-policy set) and compared with a reference evaluator written from the specification",
  note="bounded: trees of depth <=2 (3 for short-circuit forms) over the stated universe; trusted base = reference semantics (DESIGN App. A); oracle abstains on IPv4-mapped IPv6 and non-canonical IP spellings; only error occurrence compared",
  tech="bounded-exhaustive small-scope enumeration of expression trees against a reference interpreter (explicit enumeration, no sampling)",
  ref="DESIGN.md §5 C01"),
 "C02": dict(
  text="bounded-exhaustive enumeration of every policy sequence of length <=6 (quick) / <=8 (thorough) over the 6 effect x outcome classes plus every ordered pair of 48 (effect, realisation) atoms, parsed from one generated document; decision, reason set and error set with ids and source positions compared with the decision table on cedar.Authorize (PolicySet, PolicyMap, a harness PolicyIterator in every yield order), PolicySet.IsAuthorized and batch.Authorize",
  note="bounded: <=8 policies, one store and request (varied elsewhere); outcome class of each realisation declared by hand from the language semantics; positions computed from the construction of the document",
  tech="bounded-exhaustive enumeration of policy multisets x iteration orders against a decision-table model",
  ref="DESIGN.md §5 C02"),
 "C03": dict(
  text="bounded-exhaustive enumeration of all parent graphs over <=4 named nodes (self-loops, cycles, diamonds) x every subset of nodes present in the store x every ordered pair and every target set incl. a never-present entity, on the three copies of the hierarchy logic (evaluator `in`/`is..in`, compiled scope in cedar.Authorize, partial-evaluation scope), compared with Floyd-Warshall reachability; termination decided by bounding EntityGetter.Get calls per evaluation",
  note="bounded: <=4 nodes (84 278 canonical stores, 47 M comparisons); larger random graphs are sampling and not done",
  tech="bounded-exhaustive enumeration of entity graphs against a reachability model, with a step-bounded environment callback as non-termination detector",
  ref="DESIGN.md §5 C03"),
 "C20": dict(
  text="explicit-state BFS over all container operation histories up to the stated depth from 14 initial states, every transition executed on the real PolicySet and compared with a Go-map model and the authorization decision table",
  note="bounded: ids {a, policy1, policy10, policy2}+loaded ids, 5 policy kinds, depth 4 (quick) / 6 (thorough); model = plain Go map",
  tech="explicit-state BFS over operation histories with path replay on the implementation and a reference map model",
  ref="DESIGN.md §5 C20"),
}
NOT_YET = "check not built yet in this session (work in progress; see DESIGN.md §5 for the planned bounded-exhaustive check)"

def main():
    checks = []
    for pid in ALL:
        if pid not in CHECKS: continue
        c = CHECKS[pid]
        checks.append({
            "property_id": pid,
            "quick_cmd": f"./check {pid} quick",
            "thorough_cmd": f"./check {pid} thorough",
            "evidence_file": f"evidence/{pid}.json",
            "replay_cmd_template": f"./check {pid} --replay {{path}}",
            "engine": "mc",
            "level_claimed": {"category": "model_checking", "text": c["text"], "design_ref": c["ref"]},
            "level_note": c["note"],
            "technique": c["tech"],
        })
    m = {
        "version": 1,
        "setup_cmd": "./setup.sh",
        "hooks": {
            "guard": "verif",
            "enable": "no hook is committed to /repo: instrumentation (map-iteration ownership, scheduling points, globals digest) is generated from the current /repo tree into a `go build -overlay` with files tagged //go:build verif; checks build with -tags verif -overlay <generated>",
            "baseline_off_cmd": "cd /repo && GOFLAGS=-mod=readonly GOPROXY=off go test -vet=off -count=1 -timeout 25m ./...",
            "source_commits": [],
            "add_only": True,
        },
        "engines": [{"name": "mc", "path": "mc/", "serves_properties": sorted(CHECKS), "kind_free_text": "hand-written explicit-state / bounded-exhaustive / deviation-bounded explorers in Go, run on the real code against reference models (mc/core, mc/refsem)"}],
        "checks": checks,
        "not_applicable": [{"property_id": p, "reason": NOT_YET} for p in ALL if p not in CHECKS],
        "notes": "known findings: known_findings.json; replay artefacts: replays/<id>/ (git-ignored, rewritten by the checks)",
    }
    json.dump(m, open(os.path.join(ROOT, "MANIFEST.json"), "w"), indent=1)
    print("manifest:", len(checks), "checks")

main()
