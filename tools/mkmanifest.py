#!/usr/bin/env python3
"""Regenerates /verif/MANIFEST.json from the table below (kept valid at all times)."""
import json, os, sys
ROOT = os.path.dirname(os.path.dirname(os.path.abspath(__file__)))
ALL = ["C%02d" % i for i in range(1, 21)]

CHECKS = {
 "C01": dict(
  text="bounded-exhaustive enumeration of operator x boundary-operand tables (every operator form with every operand tuple of an 80-value typed boundary universe + the four variables, 6 environments), all depth-2 parent/child/position pairings and depth-3 short-circuit forms, each evaluated on the real code through both observation points (x/exp/eval.Eval and cedar.Authorize of a one-policy set) and compared with a reference evaluator written from the specification",
  note="bounded: trees of depth <=2 (3 for short-circuit forms) over the stated universe; trusted base = reference semantics (DESIGN App. A); oracle abstains on IPv4-mapped IPv6 and non-canonical IP spellings; only error occurrence compared",
  tech="bounded-exhaustive small-scope enumeration of expression trees against a reference interpreter (explicit enumeration, no sampling)",
  ref="DESIGN.md §5 C01"),
 "C02": dict(
  text="bounded-exhaustive enumeration of every policy sequence of length <=6 (quick) / <=8 (thorough) over the 6 effect x outcome classes plus every ordered pair of 48 (effect, realisation) atoms, parsed from one generated document; decision, reason set and error set with ids and source positions compared with the decision table on cedar.Authorize (PolicySet, PolicyMap, a harness PolicyIterator in every yield order), PolicySet.IsAuthorized and batch.Authorize",
  note="bounded: <=8 policies, one store and request (varied elsewhere); outcome class of each realisation declared by hand from the language semantics; positions computed from the construction of the document",
  tech="bounded-exhaustive enumeration of policy multisets x iteration orders against a decision-table model",
  ref="DESIGN.md §5 C02"),
 "C03": dict(
  text="bounded-exhaustive enumeration of all parent graphs over <=4 named nodes (self-loops, cycles, diamonds) x every subset of nodes present in the store x every ordered pair and every target set incl. a never-present entity, on the three copies of the hierarchy logic (evaluator `in`/`is..in`, compiled scope in cedar.Authorize, partial-evaluation scope), compared with Floyd-Warshall reachability; termination decided by bounding EntityGetter.Get calls per evaluation",
  note="bounded: <=4 nodes (84 278 canonical stores, 47 M comparisons); larger random graphs are sampling and not done",
  tech="bounded-exhaustive enumeration of entity graphs against a reachability model, with a step-bounded environment callback as non-termination detector",
  ref="DESIGN.md §5 C03"),
 "C04": dict(
  text="differential bounded-exhaustive enumeration: every operator form over 37 leaves (constants of every type, erroring constant sub-expressions, entity literals present in some stores only, variables), all depth-2 pairings and depth-3 short-circuit forms, in 4 clause placements; each policy classified satisfied/unsatisfied/erroring through the folded path (cedar.Authorize) and the unfolded path (eval.Eval(PolicyToNode(AST))) in 6 environments; AST (DeepEqual), Cedar text and JSON compared before/after compilation",
  note="bounded: depth <=2 (3 for short-circuit forms); the unfolded evaluator is the reference (its own conformance is C01)",
  tech="bounded-exhaustive differential enumeration (folded vs unfolded evaluation) over small-scope policies x environments",
  ref="DESIGN.md §5 C04"),
 "C05": dict(
  text="bounded-exhaustive enumeration of policy sets x request templates (variables in any of the four parts, same variable at several keys / inside sets and nested records, two variables) x every value list of length 0..2 (3 in thorough) over 3-value universes, and for every run every position k at which the callback fails or the context is cancelled; callbacks compared with the Cartesian product as a multiset, Result.Request with the reference substitution, decision and reasons with cedar.Authorize on the concrete request",
  note="bounded: policy sets of <=1 policy with all value lists + all pairs with two value-list patterns (quick), <=3 policies (thorough); 10 context shapes; cedar.Authorize is the reference",
  tech="bounded-exhaustive enumeration of templates x value lists x fault positions (deviation bound 1: one injected callback error / cancellation per run) against brute-force authorization",
  ref="DESIGN.md §5 C05"),
 "C06": dict(
  text="bounded-exhaustive enumeration of policies (scope-form pairs; every operator form over 14 leaves in 4 policy shapes; depth-2 and depth-3 structural parents) x 19 partial environments (unknown principal/action/resource/context, unknowns nested in context records and sets, same unknown twice, ignored parts) x every completion from universes hitting both branches; kept => residual satisfied iff original, dropped => original never satisfied, ignored (permit) => original satisfied implies kept and residual satisfied",
  note="bounded: depth <=2 (+ depth-3 if-value forms), <=4 unknowns, completion universes of 2-7 values; satisfaction judged by x/exp/eval.Eval (conformance is C01); forbid under ignore not constrained by the property",
  tech="bounded-exhaustive enumeration of policies x partial environments x completions with a soundness oracle (original vs residual under each completion)",
  ref="DESIGN.md §5 C06"),
 "C07": dict(
  text="bounded-exhaustive enumeration of policy ASTs rendered by a reference printer written from the documented grammar: every operator form, every (parent, operand position, child) pairing (depth 2), depth 3 over one or more operators per grammar level, all scope forms x annotations x condition lists, each in fully parenthesised and minimal-parenthesis mode x 4 layouts; parse(render(T)) must equal T by reflect.DeepEqual on Policy.AST(); plus a literal/escape table with expected values and a generated rejection table (all chained relation pairs, reserved words in every identifier position, duplicates, every extension function/method misuse, malformed heads)",
  note="bounded: depth <=3 over the stated alphabets; Negate(non-negative literal) and extension/set/record VALUES are outside the text-expressible domain; >4 stacked unary operators, trailing commas and /* */ comments not asserted either way",
  tech="bounded-exhaustive enumeration of ASTs x renderings against a reference printer (grammar-directed), with generated negative tables",
  ref="DESIGN.md §5 C07"),
 "C08": dict(
  text="bounded-exhaustive enumeration: every operator form over every value of the 80-value boundary universe in ast.Value position (negative longs, extension values, sets, records with keyword/empty/control/non-ASCII keys) from builder and JSON-decoded sources, all depth-2 pairings, all scope/annotation heads, and every Unicode scalar value (quick: U+0000-2FFF and table boundaries; thorough: all 1 112 064) in every string position; MarshalCedar output must parse, keep effect/annotations/scope, evaluate identically in 6 environments and be a byte fixpoint; PolicyList / PolicySet (>=11 policies, lexicographic order) / Encoder->Decoder keep content and order",
  note="bounded: depth <=2; meaning compared with x/exp/eval.Eval (conformance is C01); unknown extension names and receiver-less method calls are not expressible in text",
  tech="bounded-exhaustive enumeration of policies and of the whole Unicode scalar range through marshal -> parse -> evaluate / re-marshal, differential oracle",
  ref="DESIGN.md §5 C08"),
 "C09": dict(
  text="bounded-exhaustive enumeration: every operator form (all JSON node shapes, extension calls, extension-typed literals, is..in, records with escape-needing keys) over every value of the boundary universe, all depth-2 pairings, every like pattern of <=4 components over {Wildcard, a, *, backslash, non-ASCII}, all scope/annotation/condition heads, every policy set of <=3 policies over ids needing JSON escapes; decode(encode(p)) equals p under exactly the normal form the property allows; text->JSON->text and JSON->text->JSON commute; all encodings authorize identically in 6 environments",
  note="bounded: depth <=2; normal form = annotations and record-literal entries by key, Value(decimal|ip) == emitted constructor call, nil == empty; unknown extension names rejected by design",
  tech="bounded-exhaustive enumeration of policy ASTs through both codecs with a canonical-form comparison and a differential authorization oracle",
  ref="DESIGN.md §5 C09"),
 "C11": dict(
  text="bounded-exhaustive enumeration of sets built from every sequence of length <=5 (quick) / <=6 (thorough) over a 17-value universe constructed to collide in the internal hash, all pairs of sets from sequences of length <=2 / <=3, all pairs of 125 small records and of a 52-value closure (every type, nested sets/records, IP prefixes), each compared with a sorted duplicate-free reference model (Len, Contains for every universe member, Slice/All/Iterate, Equal both ways, ==, contains*, Cedar-text and JSON forms); explicit-state BFS (depth 5 / 7) over constructor-input / accessor-output mutation histories with the invariant that no created value's fingerprint changes",
  note="bounded: universe of 17 colliding values, sequence length <=6, history depth <=7; reference equality is structural and type-distinguishing",
  tech="bounded-exhaustive enumeration against a reference set/record model + explicit-state BFS over mutation histories with an immutability invariant",
  ref="DESIGN.md §5 C11"),
 "C12": dict(
  text="bounded-exhaustive enumeration of boundary grids of every scalar type (longs/decimals at +-2^k+-{0,1}, +-10^k+-{0,1}, limits; every decimal with |v|<2.0; datetimes at every day boundary +-1 ms of 18 (thorough 36) years incl. year 0, leap centuries, the expanded-year switch and both limits; durations at every unit boundary; every IP prefix length on 12 addresses), 1.47 M independently rendered datetime literals judged by a reference calendar, all 32 duration unit subsets and unit orderings, every string within edit distance 1 of 67 valid literals, NewDecimal at the multiples where i*10^e wraps past 2^64, NewDecimalFromFloat at +-2^63/10^4 neighbours / NaN / Inf, every Unicode scalar in entity ids",
  note="bounded grids as stated; reference recognisers follow the documented syntaxes; NewDecimalFromFloat only required to be within one float ulp; IPv6 zone ids / leading zeros / embedded IPv4: oracle abstains",
  tech="bounded-exhaustive enumeration of literals and values against reference recognisers / big-int arithmetic (grids + edit-distance-1 neighbourhoods)",
  ref="DESIGN.md §5 C12"),
 "C13": dict(
  text="bounded-exhaustive enumeration of values to depth 2 over a 35-leaf universe (limits of every scalar and extension type, JSON-escape strings) with record keys incl. __entity / __extn / type / id / fn / arg, every Unicode scalar value (quick: BMP + astral samples; thorough: all) as string value, record key, entity id and type, 384 entities (every parent subset x attrs x tags), entity maps, requests, decisions, diagnostics: decode(encode(x)) equal with the same type and byte-stable on a second round trip; a schema-typed entity document with 14 spelling slots in every combination of <=2 deviations (explicit escape / implicit object / bare string) decodes to equal entities under UnmarshalJSONWithSchema; typed decoders accept all three spellings; non-long numbers rejected",
  note="bounded as stated; the {fn,arg} object under schema coercion may be rejected (not among the documented coercions) but must be equal when accepted; records colliding with the __entity/__extn escapes are a recorded format-level finding",
  tech="bounded-exhaustive enumeration of data x spellings through encode/decode with a reference-value comparison",
  ref="DESIGN.md §5 C13"),
 "C18": dict(
  text="deviation-bounded exploration (stateless DFS with prefix replay over the reader's answers: full request, 1, 2, 3, len-1, 0 bytes, data together with io.EOF) with <=2 (quick) / <=4 (thorough) deviations per run on 742 documents built with known offsets (14 token kinds straddling the 1024-byte buffer edge at every alignment in 3 padding styles, multi-byte characters, CR/LF mixes, comments) and 7 invalid documents; every uniform chunk size 1..1030; a reader failure at every byte offset (error alone / with data, then error again / EOF); oracle: whole-slice parse (ASTs, positions, error text) and positions computed from the construction of the document, incl. Diagnostic positions",
  note="bounded: <=4 deviations per schedule, documents <=6 KB; a reader never returns 0 bytes twice in a row",
  tech="deviation-bounded exhaustive exploration of environment (io.Reader) answers + exhaustive fault positions, against a whole-input reference parse",
  ref="DESIGN.md §5 C18"),
 "C10": dict(
  text="three bounded-exhaustive families, no random fuzzing: (1) every token sequence of <=3 (quick) / <=4 (thorough) tokens over 44-token / 32-token alphabets of the policy and schema languages in several syntactic contexts, every 3-byte string over 21 structural bytes into all 27 decoders; (2) every document within 1 (quick) / 2 (thorough) deviations (replace by each of 10 literals, delete, duplicate, wrap, at every JSON tree position) of 24 seed documents covering every policy JSON node shape, scope form, policy set, value, entity, entity map, request, diagnostic and schema construct, plus token deletion / duplication / swap, truncation at every byte and splicing of invalid UTF-8 / NUL / quote / comment opener at every offset of text seeds; (3) nesting depth 2^k (k<=12 quick, <=22 thorough) for 18 recursive constructs in isolated worker processes; every accepted value is passed to every encoder, the authorizer, the batch authorizer and the partial evaluator",
  note="bounded families as stated, not all byte strings; a fatal error is reported only if it recurs 3 times in a fresh process with the default stack limit; hangs are bounded by the family budget (reported as not exhaustive, never as a verdict)",
  tech="bounded-exhaustive enumeration of token strings and of deviation-bounded neighbourhoods of valid documents (E2) with a crash-isolating subprocess runner for the depth sweep",
  ref="DESIGN.md §5 C10"),
 "C14": dict(
  text="the library is rebuilt from the current tree with every map iteration (93 for-range sites and 16 maps.Keys/Values/All calls found by the type checker) routed through a runtime that asks the explorer for the iteration order; for 9 workloads (authorize / batch-authorize policies that fail in two record fields at once; marshal; decode-then-re-encode of policy, policy-set, entity and schema documents) every execution with <=1 (quick) / <=2 (thorough) deviating iteration orders is run (all n! orders for n<=4 keys, else reversal / rotations / adjacent transpositions) and decision, reason set, error set with messages and every produced byte string must equal the canonical execution's; plus every insertion order of <=4 policies and rotations of the entity insertion order",
  note="bounded: <=2 deviating map iterations per execution; other sources of nondeterminism are absent (source scan in C19); the same choice sequence is re-run and must reproduce its observations",
  tech="deviation-bounded stateless exploration of map-iteration orders on an instrumented build (go build -overlay generated from the current tree)",
  ref="DESIGN.md §5 C14"),
 "C19": dict(
  text="stateless exploration of interleavings of 2 (thorough: 3) virtual threads running 8 read-only operations (Authorize, batch.Authorize, MarshalCedar, MarshalJSON, inspect, value operations, validate, PartialPolicy) on the same policy set, entity map, request, values, ASTs and batch request under a cooperative scheduler with preemption bound 2 at harness seams (quick) and bound 1 at every function entry of the library (thorough); per-thread oracle = the operation's solo result; invariant = deep digest (unexported fields, pointers, spare slice capacity) of all shared inputs and of every package-level variable of every library package, evaluated at every function entry of each operation's own run, at every context switch and at the end; baseline taken before any operation has run (first-use caches show); plus a free-running pass of the same bodies under the race detector",
  note="bounded: 2-3 threads, 1-2 operations each, <=2 preemptions; the race-detector pass is supporting evidence (sampling), the deciding step is the bounded exploration with the digest invariant; hardware memory-model effects are out of reach",
  tech="stateless model checking of thread interleavings (cooperative scheduler, preemption-bounded DFS with prefix replay) with a shared-state digest invariant, on an instrumented build",
  ref="DESIGN.md §5 C19"),
 "C16": dict(
  text="bounded-exhaustive enumeration over a 3-name universe, one dimension at a time: all 512 entity parent-type digraphs (self-loops, cycles), all 2197 assignments of bodies {Long, Tj, Set<Tj>, {a: Tj}, NS::Tj} to three common types (every cycle), all 512 action-group digraphs, 15 type references in every type position, 7 entity-type references in parent / appliesTo position, shadowing of every declaration kind; every schema is resolved and both encoders run; every schema that resolves is run through a battery of ~200 policies (every scope form and in / is / is-in between every pair of types, set / record / extension literals, unknown and receiver-less extension calls), entities and requests in strict and permissive mode; all cases run in isolated worker processes so that a fatal stack overflow is attributed to its case",
  note="bounded: 3 names, one dimension at a time; nil types inside a programmatically built schema AST are outside the domain; a fatal error is reported only if it recurs 3 times in a fresh process with the default stack limit",
  tech="bounded-exhaustive enumeration of schema graphs with a crash-isolating subprocess runner; oracle = returns (no panic, no fatal error)",
  ref="DESIGN.md §5 C16"),
 "C17": dict(
  text="deviation-bounded enumeration of schema ASTs: a base schema using every construct with 16 feature slots (names needing quotes for attributes and actions, annotations with / without value on namespaces, entities, attributes, actions, enums and common types, empty / missing shapes, every appliesTo form, optional attributes, 15 attribute types incl. nested records, nested sets, entity / extension / common / built-in type references, enums with 0-3 values, action parents unqualified / qualified / cross-namespace, placement at top level / namespace / nested namespace, tags, parent lists, common-type chains); every configuration with <=3 (quick) / <=4 (thorough) slots deviating from the base; Resolve(parse(render(S))) equals Resolve(S) for text and JSON in a canonical form, second rendering byte-identical, text->JSON and JSON->text commute with Resolve, resolution errors preserved",
  note="bounded: <=4 simultaneous deviations from one base schema; Resolve is the reference for what a schema means; canonical form = maps sorted, parent / appliesTo lists as sets, nil == empty",
  tech="deviation-bounded exhaustive enumeration of schema ASTs through both codecs with a canonical resolved-schema comparison",
  ref="DESIGN.md §5 C17"),
 "C15": dict(
  text="bounded-exhaustive enumeration of policies over a schema with a required and an optional attribute of every type (incl. decimal, ipaddr, datetime, duration, sets, nested records, entity references), tags on two entity types, a two-level hierarchy, an action applying to two principal and two resource types, an action group and optional context members: every unary / binary operator form over 47 (quick: 32 for binary) leaves (variables, existing / optional / missing attribute paths, literals and extension values) in 6 scope combinations, 15 has-guard forms x 17 guarded paths x 17 used paths x 10 uses, 6 tag-guard forms; every policy accepted by the validator in strict or permissive mode is evaluated on 1000+ conforming environments (every action / principal type / resource type; optional attributes and tags present and absent; entities present and absent; 4 contexts) and must not fail with a type, arity, unknown-function, missing-attribute or missing-tag error",
  note="bounded: one schema, condition depth <=3; environments are built from the schema AND accepted by validate.Entities / validate.Request; error classes recognised by the library's error texts; overflow, absent entities and extension literal errors are allowed",
  tech="bounded-exhaustive enumeration of (accepted policy, conforming environment) pairs with an error-class oracle",
  ref="DESIGN.md §5 C15"),
 "C20": dict(
  text="explicit-state BFS over all container operation histories up to the stated depth from 14 initial states, every transition executed on the real PolicySet and compared with a Go-map model and the authorization decision table",
  note="bounded: ids {a, policy1, policy10, policy2}+loaded ids, 5 policy kinds, depth 4 (quick) / 6 (thorough); model = plain Go map",
  tech="explicit-state BFS over operation histories with path replay on the implementation and a reference map model",
  ref="DESIGN.md §5 C20"),
}
NOT_YET = "check not built yet in this session (work in progress; see DESIGN.md §5 for the planned bounded-exhaustive check)"

# families added after the selftest and the three rounds of independently seeded changes (DESIGN.md §0.6, §0.7)
EXTRA = {
 "C01": "every like pattern <=5 components over {*,a,b} x strings <=7 and over {*,a,é,😀} x strings <=5; sets/records of 0..257 members; 18 more ip spellings; mid-range and extreme long arithmetic; one compiled policy set answering every environment forwards and backwards (state kept between requests)",
 "C02": "every list of 1..3 when/unless clauses over 6 bodies (alone and against an opponent); 0..33 policies of each class; the batch seam compares the error set too; one policy set answering a second request; single-use and order-shifting PolicyIterators; the streaming Decoder as a seam; container histories (every id replaced after the set answered a request, add+remove of further policies)",
 "C03": "node ids shared across entity types; parametric larger shapes (chains <=12 with every back edge and an absent node, fans <=20, layered diamonds <=6); huge hierarchies (chains, cycles, fans, ladders of 255..8193 nodes, thorough 100000) against breadth-first search; degenerate uids (zero uid, empty type / id, NUL id) at every position of a chain",
 "C04": "lists of 1..3 when/unless clauses; set/record literals of 1..200 operands with one non-constant operand; arithmetic shapes of 2..3 operators with request-dependent extreme operands; every extension function with 0..3 arguments under six consumers",
 "C05": "19 policies incl. if-then-else / || / has / literals from request parts; templates with 2..5 variables, value lists of 9..40, three levels of nesting; every set-of-entities operator (in, is-in, containsAny/All, ==, isEmpty) on the context set that holds the variable; an undecided, possibly failing if-condition over decided branches",
 "C06": "26 partial environments (unknowns nested three levels; unknown + ignored parts together); lists of 1..3 clauses; record / set literals with a sibling member that may fail; an operand that fails whenever the context is known (short-circuit soundness); undecided conditions over decided branches; if with 14 boolean-typed guards that fail under some completion over 10^2 branches folding to constants",
 "C07": "six layouts incl. empty and adjacent line comments; duplicate keys spelled through escapes; zero-padded integer spellings; every nesting construct at depths 9..130 (thorough 300); used receivers and the other text entry points; padding slid across the buffer edges; decode inputs overwritten after the call",
 "C08": "arithmetic trees of 2..3 operators over extreme longs; literals of 1000..9000 characters; every Unicode scalar in the quick tier; every nesting construct at depths 9..130 incl. prefix-operator chains in 12 mixtures of - and !; returned bytes owned by the caller; an Encoder over a writer that fails during one call",
 "C09": "hand-written JSON like-patterns the encoder never writes; decoding into populated cedar.Policy / ast.Policy receivers; every policy JSON in six other spellings (indent, member order, escaped names, escaped solidus, all-\\u strings); policy sets of 0..2049 policies (thorough 8193); deep chains; encodings handed out earlier unchanged by later calls; records that look like implicit entity / extension spellings as value literals; decode inputs overwritten after the call; a like without a pattern member and a programmatic pattern without components",
 "C10": "every Unicode scalar through decoders then all encoders; stall detector (a non-returning case is confirmed in fresh subprocesses and reported as hang / stack-overflow); amplification sweep: ten work-amplifying shapes (like patterns with n wildcards over 2n near misses, wide sets/records, hierarchy ladders) at n=4..64 (thorough 256) with a 30 s stall threshold; nine extension-literal templates with every field and pair of fields at, below and above its range through every decoder; escaped library panics are violations",
 "C11": "containers of 0..257 members in three insertion orders; internal/mapset and EntityUIDSet against a Go-map model; degenerate initial states (empty, nil, single) of the immutability BFS; decoding into used receivers; a by-value copy of a decoded value is unchanged by a later decode into the variable; returned bytes owned by the caller; every value decoder reads a private buffer that is overwritten afterwards",
 "C12": "every year in [-820,820] (thorough +-10500, every zone offset to the minute) x month ends; durations with every unit at its own maximum +-1; all scalars through String/Set/Record renderings; zero-padded duration quantities; decimal spellings; Go conversions (Duration.Duration, Datetime.Time) at the extremes; IPv4-mapped / compatible / NAT64 and 18 more ip spellings; every check runs in a non-UTC local time zone",
 "C13": "extension- and entity-typed tags of attribute-less entities; decoding into used receivers; member names of the escapes spelled with \\uXXXX; every value / entity JSON and every typed extension form in six other spellings; entities of 0..129 attributes, tags, parents; calendar / unit grids through JSON; earlier copies unchanged by a later decode; decode inputs overwritten after the call; receivers on which a decode has just failed",
 "C14": "workloads: multi-parent hierarchies, evaluator errors over sets, batch with colliding set members; names that differ only in letter case in every keyed collection (policies, entities, schema); batch request error messages; failed decodes leave the same state on every run; every ordered pair of 12 encoders with the first result held uncopied across the later calls",
 "C15": "entity-type unions; guards across when/unless clauses; action-in guards over sets mixing literals and non-literals; every &&/|| tree and if-then-else of up to four has-guards over three optional attributes; capability keys that collide textually; entity-in guards; sets of entities (empty and non-empty) in the stores; == / != guards typed as singleton booleans over 15 x 15 operand pairs",
 "C16": "common types across two namespaces; C15's whole policy space + 3-element sets over union types through Validator.Policy (totality); stall detector; common types over {top, A, A::B} with qualified references; bodies with two references in mixed spellings (parallel edges in the cycle check); attribute names that are empty / dotted / variable-like and an entity type Action with attributes; unions of entity types whose tags are records, entities and sets",
 "C17": "bare Action:: parents from inside a namespace; declared-but-empty namespaces; attribute types nested 20 deep; decoding into a populated Schema; used receivers in two prior-use states (decoded; every accessor called, resolved last); every schema JSON in six other spellings; schemas of 0..130 declarations; returned bytes owned; decode inputs overwritten after the call; receivers on which a decode has just failed",
 "C18": "single tokens / comments / whitespace runs of 1000..3100 bytes spanning several refills; 980 documents with an invalid or unusual byte in every lexical context and placement; three reader error kinds; three more Decode calls after the first error (chunking-invariant)",
 "C19": "shared schema with an action group and a 3-entry action list (spare slice capacity is part of the digest); a second fixture with 70-member literal sets, a 70-key record literal and 73 policies (digest after the first run and at the seams; race pass); callers overwrite what accessors hand out; empty values by every constructor",
 "C20": "an All() sequence kept across later operations; kept encodings; re-decoding into a held policy; long histories (21 periods, thorough every ordered pair of operations, repeated 1100 times, observed after every step); every Unicode scalar as a policy id",
}

def main():
    checks = []
    for pid in ALL:
        if pid not in CHECKS: continue
        c = CHECKS[pid]
        checks.append({
            "property_id": pid,
            "quick_cmd": f"./check {pid} quick",
            "thorough_cmd": f"./check {pid} thorough",
            "evidence_file": f"evidence/{pid}.json",
            "replay_cmd_template": f"./check {pid} --replay {{path}}",
            "engine": "mc",
            "level_claimed": {"category": "model_checking", "text": c["text"] + (" Added after the seeded-change rounds: " + EXTRA[pid] + "." if pid in EXTRA else ""), "design_ref": c["ref"]},
            "level_note": c["note"],
            "technique": c["tech"],
        })
    m = {
        "version": 1,
        "setup_cmd": "./setup.sh",
        "hooks": {
            "guard": "verif",
            "enable": "no hook is committed to /repo: instrumentation (map-iteration ownership, scheduling points, globals digest) is generated from the current /repo tree into a `go build -overlay` with files tagged //go:build verif; checks build with -tags verif -overlay <generated>",
            "baseline_off_cmd": "cd /repo && GOFLAGS=-mod=readonly GOPROXY=off go test -vet=off -count=1 -timeout 25m ./...",
            "source_commits": [],
            "add_only": True,
        },
        "engines": [{"name": "mc", "path": "mc/", "serves_properties": sorted(CHECKS), "kind_free_text": "hand-written explicit-state / bounded-exhaustive / deviation-bounded explorers in Go, run on the real code against reference models (mc/core, mc/refsem)"}],
        "checks": checks,
        "not_applicable": [{"property_id": p, "reason": NOT_YET} for p in ALL if p not in CHECKS],
        "notes": "known findings: known_findings.json; replay artefacts: replays/<id>/ (git-ignored, rewritten by the checks)",
    }
    json.dump(m, open(os.path.join(ROOT, "MANIFEST.json"), "w"), indent=1)
    print("manifest:", len(checks), "checks")

main()
