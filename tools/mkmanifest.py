#!/usr/bin/env python3
"""Regenerates /verif/MANIFEST.json from the table below (kept valid at all times)."""
import json, os, sys
ROOT = os.path.dirname(os.path.dirname(os.path.abspath(__file__)))
ALL = ["C%02d" % i for i in range(1, 21)]

CHECKS = {
 "C01": dict(
  text="bounded-exhaustive enumeration of operator x boundary-operand tables (every operator form with every operand tuple of an 80-value typed boundary universe + the four variables, 6 environments), all depth-2 parent/child/position pairings and depth-3 short-circuit forms, each evaluated on the real code through both observation points (x/exp/eval.Eval and cedar.Authorize of a one-policy set) and compared with a reference evaluator written from the specification",
  note="bounded: trees of depth <=2 (3 for short-circuit forms) over the stated universe; trusted base = reference semantics (DESIGN App. A); oracle abstains on IPv4-mapped IPv6 and non-canonical IP spellings; only error occurrence compared",
  tech="bounded-exhaustive small-scope enumeration of expression trees against a reference interpreter (explicit enumeration, no sampling)",
  ref="DESIGN.md §5 C01"),
 "C20": dict(
  text="explicit-state BFS over all container operation histories up to the stated depth from 14 initial states, every transition executed on the real PolicySet and compared with a Go-map model and the authorization decision table",
  note="bounded: ids {a, policy1, policy10, policy2}+loaded ids, 5 policy kinds, depth 4 (quick) / 6 (thorough); model = plain Go map",
  tech="explicit-state BFS over operation histories with path replay on the implementation and a reference map model",
  ref="DESIGN.md §5 C20"),
}
NOT_YET = "check not built yet in this session (work in progress; see DESIGN.md §5 for the planned bounded-exhaustive check)"

def main():
    checks = []
    for pid in ALL:
        if pid not in CHECKS: continue
        c = CHECKS[pid]
        checks.append({
            "property_id": pid,
            "quick_cmd": f"./check {pid} quick",
            "thorough_cmd": f"./check {pid} thorough",
            "evidence_file": f"evidence/{pid}.json",
            "replay_cmd_template": f"./check {pid} --replay {{path}}",
            "engine": "mc",
            "level_claimed": {"category": "model_checking", "text": c["text"], "design_ref": c["ref"]},
            "level_note": c["note"],
            "technique": c["tech"],
        })
    m = {
        "version": 1,
        "setup_cmd": "./setup.sh",
        "hooks": {
            "guard": "verif",
            "enable": "no hook is committed to /repo: instrumentation (map-iteration ownership, scheduling points, globals digest) is generated from the current /repo tree into a `go build -overlay` with files tagged //go:build verif; checks build with -tags verif -overlay <generated>",
            "baseline_off_cmd": "cd /repo && GOFLAGS=-mod=readonly GOPROXY=off go test -vet=off -count=1 -timeout 25m ./...",
            "source_commits": [],
            "add_only": True,
        },
        "engines": [{"name": "mc", "path": "mc/", "serves_properties": sorted(CHECKS), "kind_free_text": "hand-written explicit-state / bounded-exhaustive / deviation-bounded explorers in Go, run on the real code against reference models (mc/core, mc/refsem)"}],
        "checks": checks,
        "not_applicable": [{"property_id": p, "reason": NOT_YET} for p in ALL if p not in CHECKS],
        "notes": "known findings: known_findings.json; replay artefacts: replays/<id>/ (git-ignored, rewritten by the checks)",
    }
    json.dump(m, open(os.path.join(ROOT, "MANIFEST.json"), "w"), indent=1)
    print("manifest:", len(checks), "checks")

main()
