#!/bin/sh
# seedverify.sh <id> [<dir> [<dest-name>]] : my own confirmation of a seeded change produced by a sub-agent.
#   <dir> (default /tmp/seed/<id>) holds patch.diff, demo/demo_test.go, meta.json.
# Uses a fresh scratch worktree of /repo HEAD (removed on exit): applies the patch, builds, runs the
# whole pinned suite, runs the demo with the change (must fail) and without it (must pass).
# On success copies patch.diff, demo/, meta.json to /verif/seeded/<id>/ and writes verify.log there.
set -u
id="$1"; dir="${2:-/tmp/seed/$id}"; dest="${3:-$id}"
root="$(cd "$(dirname "$0")/.." && pwd)"
export GOFLAGS=-mod=readonly GOPROXY=off GOSUMDB=off GOTOOLCHAIN=local
wt="$(mktemp -d /tmp/vseed.XXXXXX)"; rmdir "$wt"
git -C /repo worktree add --detach "$wt" HEAD >/dev/null 2>&1 || { echo "worktree failed"; exit 2; }
trap 'git -C /repo worktree remove --force "$wt" >/dev/null 2>&1; rm -rf "$wt"' EXIT
log="$dir/verify.log"; : > "$log"
say() { echo "$*" | tee -a "$log"; }
pkg="$(python3 -c "import json,sys;print(json.load(open('$dir/meta.json')).get('demo_package','.').split()[0])")"
case "$pkg" in .|./|"(repository") pkg=. ;; esac
git -C "$wt" apply "$dir/patch.diff" || { say "RESULT $id patch-does-not-apply"; exit 1; }
if git -C "$wt" status --short | grep -q '_test.go'; then say "RESULT $id touches-test-files"; exit 1; fi
( cd "$wt" && go build ./... ) >>"$log" 2>&1 || { say "RESULT $id does-not-build"; exit 1; }
say "build ok"
( cd "$wt" && go test -vet=off -count=1 -timeout 40m ./... ) > "$dir/suite.log" 2>&1
if grep -qv '^ok\|no test files' "$dir/suite.log"; then say "suite: NOT all ok"; grep -v '^ok\|no test files' "$dir/suite.log" | head -20 | tee -a "$log"; say "RESULT $id suite-fails"; exit 1; fi
say "suite ok ($(grep -c '^ok' "$dir/suite.log") packages)"
race=""; grep -q -- '-race' "$dir/meta.json" && race="-race"
cp "$dir/demo/demo_test.go" "$wt/$pkg/zz_seed_demo_test.go"
( cd "$wt" && go test -vet=off -count=1 $race -run TestSeedDemo "./$pkg" ) > "$dir/demo_with.log" 2>&1; w=$?
git -C "$wt" apply -R "$dir/patch.diff"
( cd "$wt" && go test -vet=off -count=1 $race -run TestSeedDemo "./$pkg" ) > "$dir/demo_without.log" 2>&1; wo=$?
say "demo with change: exit $w (want != 0); without: exit $wo (want 0)"
if [ "$w" -ne 0 ] && [ "$wo" -eq 0 ] && grep -q '^ok' "$dir/demo_without.log"; then
  mkdir -p "$root/seeded/$dest/demo"
  cp "$dir/patch.diff" "$dir/meta.json" "$root/seeded/$dest/"; cp "$dir/demo/"* "$root/seeded/$dest/demo/"
  say "RESULT $id confirmed"; cp "$log" "$root/seeded/$dest/verify.log"; exit 0
fi
say "RESULT $id demo-not-discriminating"; tail -5 "$dir/demo_with.log" "$dir/demo_without.log" | tee -a "$log"; exit 1
