#!/bin/sh
# seedrun.sh <dir-under-seeded> [<check-id> ...] [-- tier]: apply /verif/seeded/<dir>/patch.diff to /repo, run the quick checks named
# (default: the property in meta.json), undo. Evidence/replays of these runs go to a scratch dir.
set -u
root="$(cd "$(dirname "$0")/.." && pwd)"
d="$1"; shift
ids="$*"; [ -n "$ids" ] || ids="$(python3 -c "import json;print(json.load(open('$root/seeded/$d/meta.json'))['property'])")"
[ -z "$(git -C /repo status --porcelain)" ] || { echo "/repo not clean"; exit 2; }
out="$(mktemp -d /tmp/vseedout.XXXXXX)"
trap 'git -C /repo checkout -- . ; rm -rf "$out"' EXIT
git -C /repo apply "$root/seeded/$d/patch.diff" || exit 2
for id in $ids; do
  VERIF_OUT="$out" timeout 1500 "$root/check" "$id" "${TIER:-quick}" > "$out/$id.log" 2>&1; rc=$?
  echo "SEEDED $d check=$id exit=$rc $(grep -c '^VIOLATION' "$out/$id.log") violation line(s)"
  grep '^VIOLATION\|^SUMMARY' "$out/$id.log" | head -5
done
