#!/bin/sh
# Runs a check that needs the instrumented (overlay) build: regenerates the overlay from the
# current repository tree into a scratch directory, builds cmd/mcx with it, runs it.
# usage: overlay.sh <id> <args...>
set -u
ROOT="${VERIF_ROOT:?}"
ID="$1"; shift
REPO="${VERIF_REPO:-/repo}"
TMP=$(mktemp -d /tmp/vov.XXXXXX)
trap 'rm -rf "$TMP"' EXIT
cd "$ROOT/mc" || exit 2
MODFLAG=""
if [ "$REPO" != "/repo" ]; then
  sed "s|=> /repo|=> $REPO|" "$ROOT/mc/go.mod" > "$TMP/go.mod"
  cat "$REPO/go.sum" "$ROOT/mc/go.sum.tools" > "$TMP/go.sum"
  MODFLAG="-modfile=$TMP/go.mod"
else
  cat /repo/go.sum "$ROOT/mc/go.sum.tools" > "$ROOT/mc/go.sum"
fi
go build $MODFLAG -o "$TMP/instr" ./cmd/instr || { echo "HARNESS-ERROR property=$ID instrumenter build failed"; exit 2; }
if [ -n "$MODFLAG" ]; then
  ( GOFLAGS="$GOFLAGS $MODFLAG" "$TMP/instr" "$TMP/ov" ) > "$TMP/instr.log" 2>&1 || { cat "$TMP/instr.log"; echo "HARNESS-ERROR property=$ID instrumentation failed"; exit 2; }
else
  "$TMP/instr" "$TMP/ov" > "$TMP/instr.log" 2>&1 || { cat "$TMP/instr.log"; echo "HARNESS-ERROR property=$ID instrumentation failed"; exit 2; }
fi
cat "$TMP/instr.log" >&2
go build $MODFLAG -tags verif -overlay "$TMP/ov/overlay.json" -o "$TMP/mcx" ./cmd/mcx || { echo "HARNESS-ERROR property=$ID instrumented build failed"; exit 2; }
if [ "$ID" = "C19" ]; then
  go build $MODFLAG -race -tags verif -overlay "$TMP/ov/overlay.json" -o "$TMP/mcx-race" ./cmd/mcx || { echo "HARNESS-ERROR property=$ID race build failed"; exit 2; }
  export VERIF_RACE_BIN="$TMP/mcx-race"
fi
VERIF_INSTR_JSON="$TMP/ov/instr.json" "$TMP/mcx" "$ID" "$@"
