#!/bin/sh
# Offline setup: pre-build the harness (warms GOCACHE).
set -e
cd "$(dirname "$0")"
export GOFLAGS=-mod=mod GOPROXY=off GOSUMDB=off GOTOOLCHAIN=local
mkdir -p bin evidence
cat /repo/go.sum mc/go.sum.tools > mc/go.sum
( cd mc && go build -o ../bin/mc ./cmd/mc && go build -o ../bin/instr ./cmd/instr )
# warm the build cache of the instrumented (overlay) and race builds
VERIF_ROOT="$(pwd)" VERIF_WARM=1 ./checks/overlay.sh C19 quick >/dev/null 2>&1 || true
echo setup ok
