#!/bin/sh
# Offline setup: pre-build the harness (warms GOCACHE).
set -e
cd "$(dirname "$0")"
export GOFLAGS=-mod=mod GOPROXY=off GOSUMDB=off GOTOOLCHAIN=local
mkdir -p bin evidence
cp /repo/go.sum mc/go.sum
( cd mc && go build -o ../bin/mc ./cmd/mc )
echo setup ok
