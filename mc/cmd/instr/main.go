// Command instr generates a `go build -overlay` that puts the library's sources of
// nondeterminism and its shared state under the explorers' control (engine E5):
//
//   - every `for .. range m` over a map and every maps.Keys/Values/All call iterates in
//     the order chosen through verifrt.Keys (default: sorted; alternatives: chosen by E2);
//   - every function of the library calls verifrt.Point at entry (a scheduling point);
//   - every package registers the addresses of its package-level variables (shared-state digest).
//
// The overlay is generated from the CURRENT working tree of the repository and never
// touches it. Usage: instr <outdir>   (run from the harness module directory).
package main

import (
	"bytes"
	"encoding/json"
	"fmt"
	"go/ast"
	"go/format"
	"go/token"
	"go/types"
	"os"
	"path/filepath"
	"sort"
	"strconv"
	"strings"

	"golang.org/x/tools/go/ast/astutil"
	"golang.org/x/tools/go/packages"
)

const modPath = "github.com/cedar-policy/cedar-go"
const rtPath = modPath + "/internal/verifrt"

func fatal(format string, a ...any) {
	fmt.Fprintf(os.Stderr, "instr: "+format+"\n", a...)
	os.Exit(2)
}

func main() {
	if len(os.Args) < 2 {
		fatal("usage: instr <outdir>")
	}
	out := os.Args[1]
	os.MkdirAll(out, 0o755)
	cfg := &packages.Config{Mode: packages.NeedName | packages.NeedFiles | packages.NeedCompiledGoFiles | packages.NeedSyntax | packages.NeedTypes | packages.NeedTypesInfo | packages.NeedImports | packages.NeedModule}
	pkgs, err := packages.Load(cfg, modPath+"/...")
	if err != nil {
		fatal("load: %v", err)
	}
	overlay := map[string]string{}
	var repoRoot string
	stats := struct{ ranges, mapsCalls, skipped, points, globals, files int }{}
	var skippedSites []string
	for _, p := range pkgs {
		if strings.HasPrefix(p.PkgPath, modPath+"/verif") || strings.HasSuffix(p.PkgPath, "/internal/testutil") || strings.HasSuffix(p.PkgPath, "/internal/testvalidate") {
			continue
		}
		if len(p.Errors) > 0 {
			fatal("package %s has errors: %v", p.PkgPath, p.Errors)
		}
		if p.Module != nil && repoRoot == "" && p.Module.Path == modPath {
			repoRoot = p.Module.Dir
		}
		rel := strings.TrimPrefix(strings.TrimPrefix(p.PkgPath, modPath), "/")
		short := rel
		if short == "" {
			short = "cedar"
		}
		for fi, f := range p.Syntax {
			fname := p.CompiledGoFiles[fi]
			changed := false
			counter := 0
			usesRT := false
			site := func(pos token.Pos) string {
				ps := p.Fset.Position(pos)
				return fmt.Sprintf("%s/%s:%d", short, filepath.Base(ps.Filename), ps.Line)
			}
			rtCall := func(fn string, args ...ast.Expr) *ast.CallExpr {
				usesRT = true
				return &ast.CallExpr{Fun: &ast.SelectorExpr{X: ast.NewIdent("verifrt"), Sel: ast.NewIdent(fn)}, Args: args}
			}
			lit := func(s string) ast.Expr { return &ast.BasicLit{Kind: token.STRING, Value: strconv.Quote(s)} }
			// maps.Keys / Values / All
			astutil.Apply(f, func(c *astutil.Cursor) bool {
				call, ok := c.Node().(*ast.CallExpr)
				if !ok || len(call.Args) != 1 {
					return true
				}
				sel, ok := call.Fun.(*ast.SelectorExpr)
				if !ok {
					return true
				}
				id, ok := sel.X.(*ast.Ident)
				if !ok {
					return true
				}
				pn, ok := p.TypesInfo.Uses[id].(*types.PkgName)
				if !ok || pn.Imported().Path() != "maps" {
					return true
				}
				var fn string
				switch sel.Sel.Name {
				case "Keys":
					fn = "MapsKeys"
				case "Values":
					fn = "MapsValues"
				case "All":
					fn = "MapsAll"
				default:
					return true
				}
				c.Replace(rtCall(fn, call.Args[0], lit(site(call.Pos()))))
				stats.mapsCalls++
				changed = true
				return true
			}, nil)
			// for .. range <map>
			ast.Inspect(f, func(n ast.Node) bool {
				rs, ok := n.(*ast.RangeStmt)
				if !ok {
					return true
				}
				tv, ok := p.TypesInfo.Types[rs.X]
				if !ok {
					return true
				}
				if _, isMap := tv.Type.Underlying().(*types.Map); !isMap {
					return true
				}
				if !pure(rs.X) {
					stats.skipped++
					skippedSites = append(skippedSites, site(rs.Pos()))
					return true
				}
				counter++
				kv := ast.NewIdent(fmt.Sprintf("vrtK%d", counter))
				okv := ast.NewIdent(fmt.Sprintf("vrtOK%d", counter))
				blank := func(e ast.Expr) bool {
					if e == nil {
						return true
					}
					id, ok := e.(*ast.Ident)
					return ok && id.Name == "_"
				}
				tok := rs.Tok
				if tok == token.ILLEGAL {
					tok = token.DEFINE
				}
				var pro []ast.Stmt
				valExpr := ast.Expr(ast.NewIdent("_"))
				valTok := token.ASSIGN
				if !blank(rs.Value) {
					valExpr = rs.Value
					valTok = tok
				}
				idx := &ast.IndexExpr{X: rs.X, Index: kv}
				if valTok == token.DEFINE {
					pro = append(pro, &ast.AssignStmt{Lhs: []ast.Expr{valExpr, okv}, Tok: token.DEFINE, Rhs: []ast.Expr{idx}})
				} else {
					// `v, ok = m[k]` needs ok declared
					pro = append(pro, &ast.DeclStmt{Decl: &ast.GenDecl{Tok: token.VAR, Specs: []ast.Spec{&ast.ValueSpec{Names: []*ast.Ident{okv}, Type: ast.NewIdent("bool")}}}})
					pro = append(pro, &ast.AssignStmt{Lhs: []ast.Expr{valExpr, okv}, Tok: token.ASSIGN, Rhs: []ast.Expr{idx}})
				}
				pro = append(pro, &ast.IfStmt{Cond: &ast.UnaryExpr{Op: token.NOT, X: okv}, Body: &ast.BlockStmt{List: []ast.Stmt{&ast.BranchStmt{Tok: token.CONTINUE}}}})
				if !blank(rs.Key) {
					pro = append(pro, &ast.AssignStmt{Lhs: []ast.Expr{rs.Key}, Tok: tok, Rhs: []ast.Expr{kv}})
					if tok == token.DEFINE {
						// the key may be unused by the body in the original only if it was blank, so this is fine
					}
				}
				rs.Body.List = append(pro, rs.Body.List...)
				rs.X = rtCall("Keys", rs.X, lit(site(rs.Pos())))
				rs.Key = ast.NewIdent("_")
				rs.Value = kv
				rs.Tok = token.DEFINE
				stats.ranges++
				changed = true
				return true
			})
			// scheduling points at function entry
			for _, d := range f.Decls {
				fd, ok := d.(*ast.FuncDecl)
				if !ok || fd.Body == nil || fd.Name.Name == "init" {
					continue
				}
				name := fd.Name.Name
				if fd.Recv != nil && len(fd.Recv.List) == 1 {
					name = recvName(fd.Recv.List[0].Type) + "." + name
				}
				fd.Body.List = append([]ast.Stmt{&ast.ExprStmt{X: rtCall("Point", lit(short+"."+name))}}, fd.Body.List...)
				stats.points++
				changed = true
			}
			if !changed {
				continue
			}
			if usesRT {
				astutil.AddImport(p.Fset, f, rtPath)
			}
			// drop the maps import if nothing uses it any more
			if imp := importName(f, "maps"); imp != "" && !usesPkg(f, imp) {
				astutil.DeleteImport(p.Fset, f, "maps")
			}
			var buf bytes.Buffer
			if err := format.Node(&buf, p.Fset, f); err != nil {
				fatal("print %s: %v", fname, err)
			}
			dst := filepath.Join(out, "src", short, filepath.Base(fname))
			os.MkdirAll(filepath.Dir(dst), 0o755)
			if err := os.WriteFile(dst, buf.Bytes(), 0o644); err != nil {
				fatal("%v", err)
			}
			overlay[fname] = dst
			stats.files++
		}
		// globals registration
		var names []string
		scope := p.Types.Scope()
		for _, n := range scope.Names() {
			if v, ok := scope.Lookup(n).(*types.Var); ok && n != "_" && !v.IsField() {
				names = append(names, n)
			}
		}
		if len(names) > 0 && len(p.CompiledGoFiles) > 0 {
			sort.Strings(names)
			var sb strings.Builder
			fmt.Fprintf(&sb, "// Code generated by verif instr. DO NOT EDIT.\n\npackage %s\n\nimport %q\n\nfunc init() {\n\tverifrt.RegisterGlobals(%q", p.Name, rtPath, short)
			for _, n := range names {
				fmt.Fprintf(&sb, ",\n\t\t%q, &%s", n, n)
			}
			sb.WriteString(")\n}\n")
			dir := filepath.Dir(p.CompiledGoFiles[0])
			dst := filepath.Join(out, "src", short, "verif_globals_gen.go")
			os.MkdirAll(filepath.Dir(dst), 0o755)
			os.WriteFile(dst, []byte(sb.String()), 0o644)
			overlay[filepath.Join(dir, "verif_globals_gen.go")] = dst
			stats.globals += len(names)
		}
	}
	if repoRoot == "" {
		fatal("repository module not found")
	}
	// the runtime package, added virtually to the repository
	rtSrc, err := os.ReadFile("verifrt/verifrt.go.txt")
	if err != nil {
		fatal("%v", err)
	}
	dst := filepath.Join(out, "src", "internal_verifrt", "verifrt.go")
	os.MkdirAll(filepath.Dir(dst), 0o755)
	os.WriteFile(dst, rtSrc, 0o644)
	overlay[filepath.Join(repoRoot, "internal", "verifrt", "verifrt.go")] = dst
	b, _ := json.MarshalIndent(map[string]any{"Replace": overlay}, "", " ")
	if err := os.WriteFile(filepath.Join(out, "overlay.json"), b, 0o644); err != nil {
		fatal("%v", err)
	}
	sum, _ := json.Marshal(map[string]any{"map_range_sites": stats.ranges, "maps_calls": stats.mapsCalls, "unowned_map_range_sites": skippedSites, "function_entry_points": stats.points, "package_level_variables": stats.globals, "files": stats.files})
	os.WriteFile(filepath.Join(out, "instr.json"), sum, 0o644)
	fmt.Printf("instr: %d files, %d map ranges + %d maps.* calls owned, %d unowned %v, %d entry points, %d package-level variables\n", stats.files, stats.ranges, stats.mapsCalls, stats.skipped, skippedSites, stats.points, stats.globals)
}

// pure: the expression can be evaluated repeatedly (identifiers, selectors, derefs, indexes of such).
func pure(e ast.Expr) bool {
	switch t := e.(type) {
	case *ast.Ident:
		return true
	case *ast.SelectorExpr:
		return pure(t.X)
	case *ast.StarExpr:
		return pure(t.X)
	case *ast.ParenExpr:
		return pure(t.X)
	case *ast.IndexExpr:
		return pure(t.X) && pure(t.Index)
	case *ast.BasicLit:
		return true
	}
	return false
}

func recvName(e ast.Expr) string {
	switch t := e.(type) {
	case *ast.StarExpr:
		return recvName(t.X)
	case *ast.Ident:
		return t.Name
	case *ast.IndexExpr:
		return recvName(t.X)
	case *ast.IndexListExpr:
		return recvName(t.X)
	}
	return "?"
}

func importName(f *ast.File, path string) string {
	for _, im := range f.Imports {
		if p, _ := strconv.Unquote(im.Path.Value); p == path {
			if im.Name != nil {
				return im.Name.Name
			}
			return filepath.Base(path)
		}
	}
	return ""
}

func usesPkg(f *ast.File, name string) bool {
	used := false
	ast.Inspect(f, func(n ast.Node) bool {
		if sel, ok := n.(*ast.SelectorExpr); ok {
			if id, ok := sel.X.(*ast.Ident); ok && id.Name == name && id.Obj == nil {
				used = true
			}
		}
		return !used
	})
	return used
}
