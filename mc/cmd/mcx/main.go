//go:build verif

// Command mcx runs the checks that need the instrumented (overlay) build of the repository.
package main

import (
	"fmt"
	"os"
	"runtime/debug"

	"github.com/cedar-policy/cedar-go/verif/c14"
	"github.com/cedar-policy/cedar-go/verif/c19"
	"github.com/cedar-policy/cedar-go/verif/core"
)

var registry = map[string]func() *core.Check{
	"C14": c14.Check,
	"C19": c19.Check,
}

func main() {
	debug.SetGCPercent(400)
	if len(os.Args) < 2 {
		fmt.Fprintln(os.Stderr, "usage: mcx <id> quick|thorough | mcx <id> --replay <file>")
		os.Exit(2)
	}
	mk, ok := registry[os.Args[1]]
	if !ok {
		fmt.Fprintf(os.Stderr, "unknown check %s\n", os.Args[1])
		os.Exit(2)
	}
	c := mk()
	for _, a := range os.Args[2:] {
		if a == "--race-pass" {
			os.Exit(c19.RacePass())
		}
	}
	for _, a := range os.Args[2:] {
		if a == "--shard" {
			core.ChildMain(c, os.Args[2:])
		}
	}
	os.Exit(core.Main(c, os.Args[2:]))
}
