// Command mc runs one model-checking check: mc <id> quick|thorough | mc <id> --replay <file>.
package main

import (
	"fmt"
	"os"
	"runtime/debug"
	"time"

	"github.com/cedar-policy/cedar-go/verif/c01"
	"github.com/cedar-policy/cedar-go/verif/c02"
	"github.com/cedar-policy/cedar-go/verif/c03"
	"github.com/cedar-policy/cedar-go/verif/c04"
	"github.com/cedar-policy/cedar-go/verif/c05"
	"github.com/cedar-policy/cedar-go/verif/c06"
	"github.com/cedar-policy/cedar-go/verif/c07"
	"github.com/cedar-policy/cedar-go/verif/c08"
	"github.com/cedar-policy/cedar-go/verif/c09"
	"github.com/cedar-policy/cedar-go/verif/c10"
	"github.com/cedar-policy/cedar-go/verif/c11"
	"github.com/cedar-policy/cedar-go/verif/c12"
	"github.com/cedar-policy/cedar-go/verif/c13"
	"github.com/cedar-policy/cedar-go/verif/c15"
	"github.com/cedar-policy/cedar-go/verif/c16"
	"github.com/cedar-policy/cedar-go/verif/c17"
	"github.com/cedar-policy/cedar-go/verif/c18"
	"github.com/cedar-policy/cedar-go/verif/c20"
	"github.com/cedar-policy/cedar-go/verif/core"
	"github.com/cedar-policy/cedar-go/verif/oracle"
)

var registry = map[string]func() *core.Check{
	"C01": c01.Check,
	"C02": c02.Check,
	"C03": c03.Check,
	"C04": c04.Check,
	"C05": c05.Check,
	"C06": c06.Check,
	"C07": c07.Check,
	"C08": c08.Check,
	"C09": c09.Check,
	"C11": c11.Check,
	"C12": c12.Check,
	"C13": c13.Check,
	"C18": c18.Check,
	"C10": c10.Check,
	"C16": c16.Check,
	"C17": c17.Check,
	"C15": c15.Check,
	"C20": c20.Check,
}

func main() {
	debug.SetGCPercent(400)
	// the process-local time zone is part of the environment the harness owns: nothing the
	// library computes or prints may depend on it, so every check runs in a zone that is not
	// UTC (the reference model does its own calendar arithmetic and never consults it)
	time.Local = time.FixedZone("verif", 5*3600+30*60)
	if len(os.Args) < 2 {
		fmt.Fprintln(os.Stderr, "usage: mc <id> quick|thorough | mc <id> --replay <file>")
		os.Exit(2)
	}
	if os.Args[1] == "oracle" {
		os.Exit(oracle.Main())
	}
	mk, ok := registry[os.Args[1]]
	if !ok {
		fmt.Fprintf(os.Stderr, "unknown check %s\n", os.Args[1])
		os.Exit(2)
	}
	c := mk()
	for _, a := range os.Args[2:] {
		if a == "--shard" {
			core.ChildMain(c, os.Args[2:])
		}
	}
	os.Exit(core.Main(c, os.Args[2:]))
}
