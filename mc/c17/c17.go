// Package c17: schema codecs round-trip and preserve the resolved schema (E1 + E2).
package c17

import (
	"bytes"
	"fmt"
	"sort"
	"strings"
	"time"

	"github.com/cedar-policy/cedar-go/types"
	"github.com/cedar-policy/cedar-go/verif/core"
	"github.com/cedar-policy/cedar-go/x/exp/schema"
	sast "github.com/cedar-policy/cedar-go/x/exp/schema/ast"
	"github.com/cedar-policy/cedar-go/x/exp/schema/resolved"
)

// feature slots -------------------------------------------------------------------

type slot struct {
	name string
	n    int
}

var slots = []slot{
	{"attr-name", 8}, {"action-name", 5}, {"entity-annotations", 4}, {"attr-annotations", 3}, {"shape", 3}, {"appliesTo", 7}, {"optional", 2},
	{"attr-type", 17}, {"enum", 4}, {"action-parents", 5}, {"placement", 3}, {"tags", 5}, {"entity-parents", 5}, {"common-type", 5}, {"ns-annotations", 3}, {"action-annotations", 3}, {"empty-namespace", 4},
}

var attrNames = []types.String{"a", "if", "k k", "q\"uote\\", "", "é", "entity", "in"}
var actionNames = []types.String{"view", "edit it", "in", "", "é\n\""}

func attrType(k int) sast.IsType {
	switch k {
	case 0:
		return sast.Long()
	case 1:
		return sast.String()
	case 2:
		return sast.Bool()
	case 3:
		return sast.Set(sast.Long())
	case 4:
		return sast.Set(sast.Set(sast.String()))
	case 5:
		return sast.RecordType{"x": sast.Attribute{Type: sast.Long()}}
	case 6:
		return sast.RecordType{"x": sast.Attribute{Type: sast.RecordType{"y": sast.Attribute{Type: sast.Bool(), Annotations: sast.Annotations{"n": "1"}}}, Optional: true}, "z": sast.Attribute{Type: sast.Set(sast.EntityType("G"))}}
	case 7:
		return sast.EntityType("G")
	case 8:
		return sast.Decimal()
	case 9:
		return sast.IPAddr()
	case 10:
		return sast.Datetime()
	case 11:
		return sast.Duration()
	case 12:
		return sast.Type("T")
	case 13:
		return sast.RecordType{}
	case 15:
		// records nested 20 deep (indentation / recursion depth of the renderers)
		var t sast.IsType = sast.Long()
		for d := 0; d < 20; d++ {
			t = sast.RecordType{"n": sast.Attribute{Type: t, Optional: d%2 == 1}}
		}
		return t
	case 16:
		var t sast.IsType = sast.String()
		for d := 0; d < 20; d++ {
			t = sast.Set(t)
		}
		return t
	}
	return sast.Type("G") // an entity type referenced through a TypeRef
}

// build constructs the schema for a configuration (one choice per slot).
func build(c []int) *sast.Schema {
	ann := func(k int) sast.Annotations {
		switch k {
		case 1:
			return sast.Annotations{"doc": "x \"q\"\n"}
		case 2:
			return sast.Annotations{"doc": ""}
		case 3:
			return sast.Annotations{"a": "1", "if": "2"}
		}
		return nil
	}
	attr := sast.Attribute{Type: attrType(c[7]), Optional: c[6] == 1, Annotations: ann(c[3])}
	var shape sast.RecordType
	switch c[4] {
	case 0:
		shape = sast.RecordType{attrNames[c[0]]: attr, "other": sast.Attribute{Type: sast.String()}}
	case 1:
		shape = sast.RecordType{}
	}
	var tags sast.IsType
	switch c[11] {
	case 1:
		tags = sast.String()
	case 2:
		tags = sast.Set(sast.Long())
	case 3:
		tags = sast.Type("T")
	case 4:
		tags = sast.RecordType{"t": sast.Attribute{Type: sast.Long(), Optional: true}}
	}
	var parents []sast.EntityTypeRef
	switch c[12] {
	case 1:
		parents = []sast.EntityTypeRef{"G"}
	case 2:
		parents = []sast.EntityTypeRef{"G", "H"}
	case 3:
		parents = []sast.EntityTypeRef{"H", "G", "U"}
	case 4:
		parents = []sast.EntityTypeRef{}
	}
	ents := sast.Entities{"U": sast.Entity{Annotations: ann(c[2]), ParentTypes: parents, Shape: shape, Tags: tags}, "G": sast.Entity{}, "H": sast.Entity{ParentTypes: []sast.EntityTypeRef{"G"}}}
	enums := sast.Enums{}
	switch c[8] {
	case 1:
		enums["Color"] = sast.Enum{Values: []types.String{"red"}}
	case 2:
		enums["Color"] = sast.Enum{Values: []types.String{"red", "gr\"een", ""}, Annotations: ann(1)}
	case 3:
		enums["Color"] = sast.Enum{}
	}
	var applies *sast.AppliesTo
	switch c[5] {
	case 0:
		applies = &sast.AppliesTo{Principals: []sast.EntityTypeRef{"U", "G"}, Resources: []sast.EntityTypeRef{"H", "G"}, Context: sast.RecordType{"ok": sast.Attribute{Type: sast.Bool()}, attrNames[c[0]]: attr}}
	case 1:
		applies = &sast.AppliesTo{Principals: []sast.EntityTypeRef{}, Resources: []sast.EntityTypeRef{}}
	case 3:
		applies = &sast.AppliesTo{Principals: []sast.EntityTypeRef{"U"}, Resources: []sast.EntityTypeRef{"G"}}
	case 4:
		applies = &sast.AppliesTo{Principals: []sast.EntityTypeRef{"U"}, Resources: []sast.EntityTypeRef{"G"}, Context: sast.Type("Ctx")}
	case 5:
		// the context named by a QUALIFIED reference to a common type of another namespace
		applies = &sast.AppliesTo{Principals: []sast.EntityTypeRef{"U"}, Resources: []sast.EntityTypeRef{"G"}, Context: sast.Type("Shared::Sub::SCtx")}
	case 6:
		// several principal and resource types, entity types of another namespace among them
		applies = &sast.AppliesTo{Principals: []sast.EntityTypeRef{"U", "G", "Shared::Sub::SE"}, Resources: []sast.EntityTypeRef{"Shared::Sub::SE", "G"}, Context: sast.RecordType{"q": sast.Attribute{Type: sast.EntityType("Shared::Sub::SE"), Optional: true}}}
	}
	var aparents []sast.ParentRef
	switch c[9] {
	case 1:
		aparents = []sast.ParentRef{sast.ParentRefFromID("all")}
	case 2:
		aparents = []sast.ParentRef{sast.NewParentRef("Action", "all")}
	case 3:
		aparents = []sast.ParentRef{sast.ParentRefFromID("all"), sast.NewParentRef("Other::Action", "o x")}
	case 4:
		// the bare type `Action` names the EMPTY namespace's action group, also from inside a namespace
		aparents = []sast.ParentRef{sast.NewParentRef("Action", "top")}
	}
	actions := sast.Actions{actionNames[c[1]]: sast.Action{Annotations: ann(c[15]), Parents: aparents, AppliesTo: applies}, "all": sast.Action{}}
	ctypes := sast.CommonTypes{"T": sast.CommonType{Type: sast.Long()}, "Ctx": sast.CommonType{Type: sast.RecordType{"c": sast.Attribute{Type: sast.Type("T"), Optional: true}}}}
	switch c[13] {
	case 1:
		ctypes["T"] = sast.CommonType{Type: sast.Set(sast.EntityType("G")), Annotations: ann(1)}
	case 2:
		ctypes["T"] = sast.CommonType{Type: sast.RecordType{"if": sast.Attribute{Type: sast.String()}, "": sast.Attribute{Type: sast.Decimal(), Optional: true}}}
	case 3:
		ctypes["T2"] = sast.CommonType{Type: sast.Type("T")}
		ctypes["T"] = sast.CommonType{Type: sast.Type("Ctx2")}
		ctypes["Ctx2"] = sast.CommonType{Type: sast.Bool()}
	case 4:
		ctypes["T"] = sast.CommonType{Type: sast.Type("__cedar::String")}
	}
	other := sast.Namespace{Actions: sast.Actions{"o x": sast.Action{}}}
	s := &sast.Schema{}
	nsAnn := ann(c[14])
	switch c[10] {
	case 0: // everything at top level
		s.Entities, s.Enums, s.Actions, s.CommonTypes = ents, enums, actions, ctypes
		if c[9] == 2 {
			// qualified parent of a top-level action is Action::"all"
		}
	case 1:
		s.Namespaces = sast.Namespaces{"NS": sast.Namespace{Annotations: nsAnn, Entities: ents, Enums: enums, Actions: actions, CommonTypes: ctypes}}
		if c[9] == 2 {
			a := actions[actionNames[c[1]]]
			a.Parents = []sast.ParentRef{sast.NewParentRef("NS::Action", "all")}
			actions[actionNames[c[1]]] = a
		}
	case 2:
		s.Namespaces = sast.Namespaces{"NS::Sub": sast.Namespace{Annotations: nsAnn, Entities: ents, Enums: enums, Actions: actions, CommonTypes: ctypes}}
		if c[9] == 2 {
			a := actions[actionNames[c[1]]]
			a.Parents = []sast.ParentRef{sast.NewParentRef("NS::Sub::Action", "all")}
			actions[actionNames[c[1]]] = a
		}
	}
	if c[9] == 4 {
		if s.Actions == nil {
			s.Actions = sast.Actions{}
		}
		s.Actions["top"] = sast.Action{}
	}
	if c[16] > 0 {
		// a declared namespace with no declarations in it (plain, annotated, nested name)
		if s.Namespaces == nil {
			s.Namespaces = sast.Namespaces{}
		}
		switch c[16] {
		case 1:
			s.Namespaces["Zz"] = sast.Namespace{}
		case 2:
			s.Namespaces["Zz"] = sast.Namespace{Annotations: ann(2)}
		case 3:
			s.Namespaces["Zz::Sub"] = sast.Namespace{Annotations: ann(1)}
		}
	}
	if c[9] == 3 {
		if s.Namespaces == nil {
			s.Namespaces = sast.Namespaces{}
		}
		s.Namespaces["Other"] = other
	}
	if c[5] >= 5 {
		if s.Namespaces == nil {
			s.Namespaces = sast.Namespaces{}
		}
		s.Namespaces["Shared::Sub"] = sast.Namespace{
			CommonTypes: sast.CommonTypes{"SCtx": sast.CommonType{Type: sast.RecordType{"c": sast.Attribute{Type: sast.Long(), Optional: true}}}},
			Entities:    sast.Entities{"SE": sast.Entity{}},
		}
	}
	return s
}

// canonical form of a resolved schema: sorted maps, parent / appliesTo lists as sets, nil == empty
func canonType(t resolved.IsType) string {
	switch v := t.(type) {
	case nil:
		return "none"
	case resolved.StringType:
		return "String"
	case resolved.LongType:
		return "Long"
	case resolved.BoolType:
		return "Bool"
	case resolved.ExtensionType:
		return "ext:" + string(v)
	case resolved.SetType:
		return "Set<" + canonType(v.Element) + ">"
	case resolved.EntityType:
		return "entity:" + string(v)
	case resolved.RecordType:
		return canonRecord(v)
	}
	return fmt.Sprintf("?%T", t)
}

func canonAnn(a resolved.Annotations) string {
	var ks []string
	for k, v := range a {
		ks = append(ks, fmt.Sprintf("@%s(%q)", k, v))
	}
	sort.Strings(ks)
	return strings.Join(ks, "")
}

func canonRecord(r resolved.RecordType) string {
	var ks []string
	for k, a := range r {
		opt := ""
		if a.Optional {
			opt = "?"
		}
		ks = append(ks, fmt.Sprintf("%s%q%s:%s", canonAnn(a.Annotations), k, opt, canonType(a.Type)))
	}
	sort.Strings(ks)
	return "{" + strings.Join(ks, ",") + "}"
}

func sortedET(l []types.EntityType) string {
	var s []string
	for _, e := range l {
		s = append(s, string(e))
	}
	sort.Strings(s)
	return "[" + strings.Join(s, ",") + "]"
}

func Canon(r *resolved.Schema) string {
	var out []string
	for n, ns := range r.Namespaces {
		out = append(out, fmt.Sprintf("namespace %s %s", n, canonAnn(ns.Annotations)))
	}
	for n, e := range r.Entities {
		out = append(out, fmt.Sprintf("entity %s %s in %s shape %s tags %s", n, canonAnn(e.Annotations), sortedET(e.ParentTypes), canonRecord(e.Shape), canonType(e.Tags)))
	}
	for n, e := range r.Enums {
		out = append(out, fmt.Sprintf("enum %s %s %v", n, canonAnn(e.Annotations), e.Values))
	}
	for u, a := range r.Actions {
		var ps []string
		for p := range a.Entity.Parents.All() {
			ps = append(ps, p.String())
		}
		sort.Strings(ps)
		ap := "none"
		if a.AppliesTo != nil {
			ap = fmt.Sprintf("principals %s resources %s context %s", sortedET(a.AppliesTo.Principals), sortedET(a.AppliesTo.Resources), canonRecord(a.AppliesTo.Context))
		}
		out = append(out, fmt.Sprintf("action %s %s in %v appliesTo %s", u, canonAnn(a.Annotations), ps, ap))
	}
	sort.Strings(out)
	return strings.Join(out, "\n")
}

func resolveCanon(s *schema.Schema) (string, error) {
	r, err := s.Resolve()
	if err != nil {
		return "", err
	}
	return Canon(r), nil
}

func describe(c []int) string {
	var parts []string
	for i, k := range c {
		if k != 0 {
			parts = append(parts, fmt.Sprintf("%s=%d", slots[i].name, k))
		}
	}
	if len(parts) == 0 {
		return "base"
	}
	return strings.Join(parts, ",")
}

// usedSchema: a schema value that already holds declarations of every kind (a reused decode target).
// usedSchemas: receivers that already hold other declarations, in three prior-use states: one
// that has only been decoded, and one on which every accessor has been called (rendered,
// converted, AST taken, resolved last), so that anything those calls cache is populated.
func usedSchemas() []*schema.Schema {
	const old = `@old("x") namespace Old { type OldT = Long; entity OldE in [OldE] { a: OldT } tags String; entity OldEnum enum ["x"]; action oldAct appliesTo { principal: OldE, resource: OldE, context: { c: Bool } }; }
entity TopOld; action topOld;`
	var a, b schema.Schema
	_ = a.UnmarshalCedar([]byte(old))
	_ = b.UnmarshalCedar([]byte(old))
	_, _ = b.MarshalCedar()
	_, _ = b.MarshalJSON()
	_ = b.AST()
	_, _ = b.Resolve()
	// ... and one on which a decode of each kind has just failed half way
	var c schema.Schema
	_ = c.UnmarshalCedar([]byte(old))
	_, _ = c.Resolve()
	_ = c.UnmarshalCedar([]byte(old + " entity Broken { a: "))
	_ = c.UnmarshalJSON([]byte(`{"Old2": {"entityTypes": {"X": {}}, "actions": {"a": {"appliesTo": 5}}}}`))
	return []*schema.Schema{&a, &b, &c}
}

func checkConfig(t *core.T, c []int) {
	desc := describe(c)
	var ast0 *sast.Schema
	if t.Protect("build", desc, func() { ast0 = build(c) }) {
		return
	}
	// degenerate declarations with a recorded finding get a signature of their own class
	class := desc
	switch {
	case c[5] == 1:
		class = "appliesTo-with-empty-principal-and-resource-lists"
	case c[8] == 3:
		class = "enum-without-values"
	}
	checkAST(t, desc, class, ast0)
}

// checkAST runs every round trip of the property on one schema AST.
func checkAST(t *core.T, desc, class string, ast0 *sast.Schema) {
	s0 := schema.NewSchemaFromAST(ast0)
	want, werr := resolveCanon(s0)
	if werr == nil {
		t.Nontrivial()
	}
	sig := func(kind string) string { return kind + ":" + class }
	// --- Cedar text
	var text []byte
	var err error
	if t.Protect(sig("MarshalCedar"), desc, func() { text, err = s0.MarshalCedar() }) {
		return
	}
	if err != nil {
		t.Fail(sig("MarshalCedar-error"), desc, "renders", err.Error())
		return
	}
	in := func() string { return desc + "\n" + string(text) }
	var s1 schema.Schema
	if t.Protect(sig("UnmarshalCedar"), in(), func() { err = core.Scribbled(text, s1.UnmarshalCedar) }) {
		return
	}
	if err != nil {
		if werr == nil {
			t.Fail(sig("text-rendering-does-not-parse"), in(), "parses", err.Error())
		}
	} else {
		got, gerr := resolveCanon(&s1)
		switch {
		case (gerr == nil) != (werr == nil):
			t.Fail(sig("text-roundtrip-changes-resolvability"), in(), fmt.Sprint(werr), fmt.Sprint(gerr))
		case gerr == nil && got != want:
			t.Fail(sig("text-roundtrip-changes-resolved-schema"), in(), want, got)
		}
		// decoding replaces a schema value that already holds declarations
		for k, sUsed := range usedSchemas() {
			if err := sUsed.UnmarshalCedar(text); err != nil {
				t.Fail(sig(fmt.Sprintf("text-into-used-receiver:%d", k)), in(), "parses", err.Error())
			} else if g, e := resolveCanon(sUsed); (e == nil) != (gerr == nil) || g != got {
				t.Fail(sig(fmt.Sprintf("text-into-used-receiver:%d", k)), in(), got, g+fmt.Sprint(e))
			} else if t3, e := sUsed.MarshalCedar(); e != nil || !bytes.Equal(t3, text) {
				t.Fail(sig(fmt.Sprintf("text-into-used-receiver-renders-differently:%d", k)), in(), string(text), string(t3)+fmt.Sprint(e))
			}
		}
		text2, err := s1.MarshalCedar()
		if err != nil || !bytes.Equal(text, text2) {
			t.Fail(sig("text-second-rendering-differs"), in(), string(text), string(text2)+fmt.Sprint(err))
		}
	}
	// --- JSON
	var js []byte
	if t.Protect(sig("MarshalJSON"), desc, func() { js, err = s0.MarshalJSON() }) {
		return
	}
	if err != nil {
		t.Fail(sig("MarshalJSON-error"), desc, "encodes", err.Error())
		return
	}
	jin := func() string { return desc + "\n" + string(js) }
	var s2 schema.Schema
	if t.Protect(sig("UnmarshalJSON"), jin(), func() { err = core.Scribbled(js, s2.UnmarshalJSON) }) {
		return
	}
	if err != nil {
		if werr == nil {
			t.Fail(sig("json-encoding-does-not-decode"), jin(), "decodes", err.Error())
		}
		return
	}
	got, gerr := resolveCanon(&s2)
	switch {
	case (gerr == nil) != (werr == nil):
		t.Fail(sig("json-roundtrip-changes-resolvability"), jin(), fmt.Sprint(werr), fmt.Sprint(gerr))
	case gerr == nil && got != want:
		t.Fail(sig("json-roundtrip-changes-resolved-schema"), jin(), want, got)
	}
	for k, jUsed := range usedSchemas() {
		if err := jUsed.UnmarshalJSON(js); err != nil {
			t.Fail(sig(fmt.Sprintf("json-into-used-receiver:%d", k)), jin(), "decodes", err.Error())
		} else if g, e := resolveCanon(jUsed); (e == nil) != (gerr == nil) || g != got {
			t.Fail(sig(fmt.Sprintf("json-into-used-receiver:%d", k)), jin(), got, g+fmt.Sprint(e))
		} else if j3, e := jUsed.MarshalJSON(); e != nil || !bytes.Equal(j3, js) {
			t.Fail(sig(fmt.Sprintf("json-into-used-receiver-encodes-differently:%d", k)), jin(), string(js), string(j3)+fmt.Sprint(e))
		}
	}
	js2, err := s2.MarshalJSON()
	if err != nil || !bytes.Equal(js, js2) {
		t.Fail(sig("json-second-encoding-differs"), jin(), string(js), string(js2)+fmt.Sprint(err))
	}
	// the same JSON document in other spellings (indented, members reversed, escaped member names)
	if alts, err := core.JSONSpellings(js); err != nil {
		t.Fail("harness-json-spelling", jin(), "valid JSON", err.Error())
	} else {
		for k, a := range alts {
			var sa schema.Schema
			if err := sa.UnmarshalJSON([]byte(a)); err != nil {
				t.Fail(sig(fmt.Sprintf("json-spelling-rejected:%d", k)), a, "decodes like "+string(js), err.Error())
			} else if g, e := resolveCanon(&sa); (e == nil) != (gerr == nil) || g != got {
				t.Fail(sig(fmt.Sprintf("json-spelling-decodes-differently:%d", k)), a, got, g+fmt.Sprint(e))
			}
		}
	}
	// --- conversions commute with resolution: text -> JSON and JSON -> text
	if werr == nil {
		if jt, err := s1.MarshalJSON(); err == nil {
			var s3 schema.Schema
			if err := s3.UnmarshalJSON(jt); err != nil {
				t.Fail(sig("text-to-json-does-not-decode"), in()+"\n"+string(jt), "decodes", err.Error())
			} else if g, e := resolveCanon(&s3); e != nil || g != want {
				t.Fail(sig("text-to-json-changes-resolved-schema"), in()+"\n"+string(jt), want, g+fmt.Sprint(e))
			}
		}
		if tj, err := s2.MarshalCedar(); err == nil {
			var s4 schema.Schema
			if err := s4.UnmarshalCedar(tj); err != nil {
				t.Fail(sig("json-to-text-does-not-parse"), jin()+"\n"+string(tj), "parses", err.Error())
			} else if g, e := resolveCanon(&s4); e != nil || g != want {
				t.Fail(sig("json-to-text-changes-resolved-schema"), jin()+"\n"+string(tj), want, g+fmt.Sprint(e))
			}
		}
	}
	// what MarshalCedar / MarshalJSON hand out belongs to the caller
	keepT, keepJ := string(text), string(js)
	for k := range text {
		text[k] = '#'
	}
	for k := range js {
		js[k] = '#'
	}
	if t2, _ := s0.MarshalCedar(); string(t2) != keepT {
		t.Fail(sig("returned-bytes-alias-internal-state:MarshalCedar"), desc, keepT, string(t2))
	}
	if j2, _ := s0.MarshalJSON(); string(j2) != keepJ {
		t.Fail(sig("returned-bytes-alias-internal-state:MarshalJSON"), desc, keepJ, string(j2))
	}
	text = []byte(keepT)
	t.AddStates(1)
	t.AddTrans(6)
	t.SampleF(func() string { return desc + ": " + keepT })
}

// sizes: n declarations of every kind, named x0..x(n-1) (ten and more names sort differently
// as text and as numbers), for n across the usual thresholds.
func sizedSchemas() *core.Family {
	sizes := []int{0, 1, 2, 9, 10, 11, 12, 16, 17, 33, 64, 65, 130}
	return &core.Family{
		Name: "schema-sizes",
		Desc: fmt.Sprintf("schemas with n entity types (each listing all earlier ones as parents), n attributes, n common types, n actions in one group, n enum values and n namespaces, for n in %v: every round trip of the property", sizes),
		N:    int64(len(sizes)),
		Run: func(t *core.T, i int64) {
			n := sizes[i]
			ents, acts, cts := sast.Entities{}, sast.Actions{}, sast.CommonTypes{}
			shape := sast.RecordType{}
			var parents []sast.EntityTypeRef
			var enumVals []types.String
			nss := sast.Namespaces{}
			for k := 0; k < n; k++ {
				nm := fmt.Sprintf("x%d", k)
				shape[types.String(nm)] = sast.Attribute{Type: sast.Type(types.Path("T" + nm)), Optional: k%2 == 1}
				cts[types.Ident("T"+nm)] = sast.CommonType{Type: sast.Long()}
				ents[types.Ident("E"+nm)] = sast.Entity{ParentTypes: append([]sast.EntityTypeRef{}, parents...)}
				parents = append(parents, sast.EntityTypeRef("E"+nm))
				acts[types.String(nm)] = sast.Action{Parents: []sast.ParentRef{sast.ParentRefFromID("grp")}, AppliesTo: &sast.AppliesTo{Principals: []sast.EntityTypeRef{"Big"}, Resources: []sast.EntityTypeRef{"Big"}}}
				enumVals = append(enumVals, types.String(nm))
				nss[types.Path("N"+nm)] = sast.Namespace{Entities: sast.Entities{"Q": sast.Entity{}}}
			}
			ents["Big"] = sast.Entity{ParentTypes: parents, Shape: shape, Tags: sast.Set(sast.String())}
			acts["grp"] = sast.Action{}
			s := &sast.Schema{Entities: ents, Actions: acts, CommonTypes: cts, Namespaces: nss}
			if n > 0 {
				s.Enums = sast.Enums{"Color": sast.Enum{Values: enumVals}}
			}
			checkAST(t, fmt.Sprintf("sizes n=%d", n), fmt.Sprintf("sizes n=%d", n), s)
			t.Sample(fmt.Sprintf("n=%d", n))
		},
	}
}

func Check() *core.Check {
	return &core.Check{
		ID:        "C17",
		HangAfter: 120 * time.Second, // cases take at most seconds (max_case_s in the evidence); see core.Family.HangAfter
		Title:     "Schema codecs round-trip and preserve the resolved schema",
		Rule: "bounded deviation enumeration: a base schema using every construct, with 17 feature slots (names needing quotes for attributes and actions, annotations with / without value on namespaces, entities, attributes, actions and common types, empty / missing shapes, all appliesTo forms (incl. a context named by a qualified common-type reference into a nested namespace, principal / resource types of another namespace), optional attributes, 17 attribute types incl. nested records, records and sets nested 20 deep, sets, entity and extension references, common and built-in type references, enums with 0-3 values, action parents unqualified / qualified / cross-namespace / bare `Action::` naming the empty namespace from inside a namespace, placement at top level / in a namespace / in a nested namespace, tags, parent lists, common-type chains, a declared but empty namespace (plain / annotated / nested name)); every configuration with at most the stated number of slots deviating from the base; oracle: Resolve(parse(render(S))) equals Resolve(S) for text and JSON (canonical form: maps sorted, parent / appliesTo lists as sets, nil == empty), second rendering byte-identical, decoding into a schema value that already holds declarations gives the same result, text->JSON and JSON->text commute with Resolve, resolution errors preserved; " +
			"a configuration is non-trivial if the schema resolves",
		Assumptions: []string{"Resolve itself is the reference for what a schema means"},
		Families: func(tier string) []*core.Family {
			base := make([]int, len(slots))
			// all configurations with exactly k deviating slots
			var gen func(k, from int, cur []int, out *[][]int)
			gen = func(k, from int, cur []int, out *[][]int) {
				if k == 0 {
					*out = append(*out, append([]int{}, cur...))
					return
				}
				for i := from; i < len(slots); i++ {
					for a := 1; a < slots[i].n; a++ {
						cur[i] = a
						gen(k-1, i+1, cur, out)
					}
					cur[i] = 0
				}
			}
			maxK := 3
			if tier == "thorough" {
				maxK = 4
			}
			var fams []*core.Family
			for k := 0; k <= maxK; k++ {
				var cfgs [][]int
				gen(k, 0, append([]int{}, base...), &cfgs)
				fams = append(fams, &core.Family{Name: fmt.Sprintf("%d-deviations", k), Desc: fmt.Sprintf("every configuration with exactly %d of %d slots changed to each of its alternatives (%d schemas)", k, len(slots), len(cfgs)), N: int64(len(cfgs)),
					Run: func(t *core.T, i int64) { checkConfig(t, cfgs[i]) }})
			}
			return append(fams, sizedSchemas())
		},
	}
}
