// Package c05: batch authorization equals brute-force authorization of every substitution (E1 + E2).
package c05

import (
	"context"
	"errors"
	"fmt"
	"sort"
	"strings"

	cedar "github.com/cedar-policy/cedar-go"
	"github.com/cedar-policy/cedar-go/types"
	"github.com/cedar-policy/cedar-go/verif/core"
	"github.com/cedar-policy/cedar-go/verif/gen"
	"github.com/cedar-policy/cedar-go/x/exp/batch"
)

var entities = gen.Stores()[1].ToImpl()

func ent(t, id string) types.EntityUID {
	return types.NewEntityUID(types.EntityType(t), types.String(id))
}
func rec(kv ...any) types.Record {
	m := types.RecordMap{}
	for i := 0; i < len(kv); i += 2 {
		m[types.String(kv[i].(string))] = kv[i+1].(types.Value)
	}
	return types.NewRecord(m)
}
func set(v ...types.Value) types.Set { return types.NewSet(v...) }
func V(n string) types.Value         { return batch.Variable(types.String(n)) }

var policyTexts = []string{
	`permit(principal == U::"alice", action, resource);`,
	`permit(principal in G::"g2", action == Action::"view", resource);`,
	`forbid(principal, action, resource is G) when { context.a == 1 };`,
	`permit(principal, action, resource) when { context.r.b == 1 };`,
	`permit(principal, action, resource) when { context.s.contains(1) };`,
	`forbid(principal, action, resource) when { context == {a: 2} };`,
	`permit(principal, action, resource) when { principal in context.g };`,
	`permit(principal, action, resource) when { context.missing > 0 };`,
	`forbid(principal, action in [Action::"edit"], resource) unless { context has a };`,
	`permit(principal, action, resource == G::"g1") when { resource.a == "group" && context.a == 2 };`,
	`forbid(principal, action, resource) when { context.r.b == context.a && context.a == 2 };`,
	// if-then-else, ||, has, literals built from request parts: every partial-evaluation rule has a policy
	`permit(principal, action, resource) when { (if context.a == 1 then context.s else [3]).contains(1) };`,
	`permit(principal, action, resource) when { (if principal == U::"alice" then context.g else [resource]).contains(principal) };`,
	`forbid(principal, action, resource) when { (if context.a == 2 then context.r else {b: 0}).b == 1 };`,
	`permit(principal, action, resource) when { context.a == 2 || context.r.b == 2 };`,
	`permit(principal, action, resource) when { context has a && context.a == 2 };`,
	`permit(principal, action, resource) when { [context.a, 1].contains(2) || {k: context.a}.k == 2 };`,
	`forbid(principal, action, resource) when { context.s.containsAll([context.a]) && !context.s.containsAny([3, context.r.b]) };`,
	`permit(principal is U, action, resource) when { principal in [resource, G::"g2"] } unless { context.a == 1 } unless { context.r.b == 2 };`,
	// every operator that takes a set of entities, on the context set that holds the variable
	`permit(principal, action, resource) when { principal is U in context.g };`,
	`forbid(principal, action, resource) when { context.g.containsAny([principal, resource]) && resource is G in [principal, G::"g1"] };`,
	`permit(principal, action, resource) when { context.g.isEmpty() || context.g.containsAll([G::"g1"]) || context.g == [resource] };`,
	// an if whose condition depends on the variable (and fails for some of its values) while both branches are already decided, equal or not
	`permit(principal, action, resource) when { if context.a > 1 then principal == U::"alice" else resource == G::"g1" };`,
	`forbid(principal, action, resource) when { (if context.a then 1 else 1) == 1 || (if context.r.b < 2 then principal else principal) == U::"bob" };`,
}

var policies []*cedar.Policy
var policiesErr error

func initPolicies() {
	policies = nil
	for _, s := range policyTexts {
		var p cedar.Policy
		if err := p.UnmarshalCedar([]byte(s)); err != nil {
			policiesErr = fmt.Errorf("%s: %w", s, err)
			p = cedar.Policy{}
			_ = p.UnmarshalCedar([]byte("permit(principal,action,resource);"))
		}
		policies = append(policies, &p)
	}
}

// policy sets: all subsets of size <= k, smallest first
func subsets(n, k int) [][]int {
	out := [][]int{{}}
	for size := 1; size <= k; size++ {
		var rec func(start int, cur []int)
		rec = func(start int, cur []int) {
			if len(cur) == size {
				out = append(out, append([]int{}, cur...))
				return
			}
			for i := start; i < n; i++ {
				rec(i+1, append(cur, i))
			}
		}
		rec(0, nil)
	}
	return out
}

type ctxShape struct {
	name string
	v    types.Value
}

func base(over ...any) types.Record {
	m := types.RecordMap{"a": types.Long(1), "r": rec("b", types.Long(1)), "s": set(types.Long(1), types.Long(2)), "g": set(ent("G", "g1"))}
	for i := 0; i < len(over); i += 2 {
		m[types.String(over[i].(string))] = over[i+1].(types.Value)
	}
	return types.NewRecord(m)
}

var ctxShapes = []ctxShape{
	{"concrete", base()},
	{"context=c", V("c")},
	{"a=x", base("a", V("x"))},
	{"a=x,r.b=x", base("a", V("x"), "r", rec("b", V("x")))},
	{"r.b=x", base("r", rec("b", V("x")))},
	{"s=[x,2]", base("s", set(V("x"), types.Long(2)))},
	{"g=[x]-in-record-in-set", base("g", set(V("x")), "r", rec("b", set(rec("k", V("x")))))},
	{"a=x,r.b=y", base("a", V("x"), "r", rec("b", V("y")))},
	{"only a=x", rec("a", V("x"))},
	{"s=[x,{k:x},[x]]", base("s", set(V("x"), rec("k", V("x")), set(V("x"))))},
}

var parOpts = []string{"", "x", "y"} // concrete, Variable x, Variable y

type template struct {
	p, a, r, c types.Value
	desc       string
	vars       []string
	uni        map[string][]types.Value
}

var (
	uniPrincipal = []types.Value{ent("U", "alice"), ent("U", "bob"), ent("G", "g1")}
	uniAction    = []types.Value{ent("Action", "view"), ent("Action", "edit"), ent("Action", "other")}
	uniResource  = []types.Value{ent("G", "g1"), ent("G", "g2"), ent("U", "alice")}
	uniLeaf      = []types.Value{types.Long(1), types.Long(2), ent("G", "g1")}
	uniCtx       = []types.Value{base(), rec("a", types.Long(2)), rec()}
)

func findVars(v types.Value, into map[string]bool) {
	switch t := v.(type) {
	case types.EntityUID:
		if t.Type == "__cedar::variable" {
			into[string(t.ID)] = true
		}
	case types.Record:
		for _, e := range t.All() {
			findVars(e, into)
		}
	case types.Set:
		for e := range t.All() {
			findVars(e, into)
		}
	}
}

func mkTemplate(pi, ai, ri, ci int) template {
	t := template{uni: map[string][]types.Value{}}
	pick := func(opt string, concrete types.Value) types.Value {
		if opt == "" {
			return concrete
		}
		return V(opt)
	}
	t.p = pick(parOpts[pi], ent("U", "alice"))
	t.a = pick(parOpts[ai], ent("Action", "view"))
	t.r = pick(parOpts[ri], ent("G", "g1"))
	t.c = ctxShapes[ci].v
	t.desc = fmt.Sprintf("principal=%v action=%v resource=%v context:%s", t.p, t.a, t.r, ctxShapes[ci].name)
	found := map[string]bool{}
	for _, v := range []types.Value{t.p, t.a, t.r, t.c} {
		findVars(v, found)
	}
	for v := range found {
		t.vars = append(t.vars, v)
	}
	sort.Strings(t.vars)
	for _, v := range t.vars {
		switch {
		case parOpts[pi] == v:
			t.uni[v] = uniPrincipal
		case parOpts[ai] == v:
			t.uni[v] = uniAction
		case parOpts[ri] == v:
			t.uni[v] = uniResource
		case v == "c":
			t.uni[v] = uniCtx
		default:
			t.uni[v] = uniLeaf
		}
	}
	return t
}

func subst(x types.Value, name string, v types.Value) types.Value {
	switch t := x.(type) {
	case types.EntityUID:
		if t.Type == "__cedar::variable" && string(t.ID) == name {
			return v
		}
	case types.Record:
		m := types.RecordMap{}
		for k, e := range t.All() {
			m[k] = subst(e, name, v)
		}
		return types.NewRecord(m)
	case types.Set:
		var out []types.Value
		for e := range t.All() {
			out = append(out, subst(e, name, v))
		}
		return types.NewSet(out...)
	}
	return x
}

// value lists: every list of length 0..maxLen over a 3-value universe
func lists(maxLen int) [][]int {
	out := [][]int{{}}
	prev := [][]int{{}}
	for l := 1; l <= maxLen; l++ {
		var next [][]int
		for _, p := range prev {
			for v := 0; v < 3; v++ {
				next = append(next, append(append([]int{}, p...), v))
			}
		}
		out = append(out, next...)
		prev = next
	}
	return out
}

func valuesKey(vals batch.Values) string {
	var parts []string
	for k, v := range vals {
		parts = append(parts, string(k)+"="+v.String())
	}
	sort.Strings(parts)
	return strings.Join(parts, ",")
}

func hasVariable(v types.Value) bool {
	m := map[string]bool{}
	findVars(v, m)
	if len(m) > 0 {
		return true
	}
	// also any leftover marker types
	switch t := v.(type) {
	case types.EntityUID:
		return strings.HasPrefix(string(t.Type), "__cedar::")
	case types.Record:
		for _, e := range t.All() {
			if hasVariable(e) {
				return true
			}
		}
	case types.Set:
		for e := range t.All() {
			if hasVariable(e) {
				return true
			}
		}
	}
	return false
}

type sentinel struct{}

func (sentinel) Error() string { return "harness callback failure" }

func reasonsKey(d cedar.Diagnostic) string {
	var ids []string
	for _, r := range d.Reasons {
		ids = append(ids, string(r.PolicyID))
	}
	sort.Strings(ids)
	return strings.Join(ids, ",")
}

// runOne checks one batch call (policy set, template, value lists), including
// every fault position.
func runOne(t *core.T, ps *cedar.PolicySet, psDesc string, tp template, vl map[string][]types.Value, withFaults bool) (callbacks int) {
	vars := batch.Variables{}
	var vlDesc []string
	for _, name := range tp.vars {
		vars[types.String(name)] = vl[name]
		vlDesc = append(vlDesc, fmt.Sprintf("%s=%v", name, vl[name]))
	}
	in := func() string {
		return fmt.Sprintf("policies {%s}; %s; values %s", psDesc, tp.desc, strings.Join(vlDesc, " "))
	}
	req := batch.Request{Principal: tp.p, Action: tp.a, Resource: tp.r, Context: tp.c, Variables: vars}
	// expected Cartesian product (multiset of value assignments)
	want := map[string]int{}
	total := 1
	for _, name := range tp.vars {
		total *= len(vl[name])
	}
	for i := 0; i < total; i++ {
		x := i
		vals := batch.Values{}
		for _, name := range tp.vars {
			l := vl[name]
			vals[types.String(name)] = l[x%len(l)]
			x /= len(l)
		}
		want[valuesKey(vals)]++
	}
	got := map[string]int{}
	n := 0
	var err error
	cb := func(r batch.Result) error {
		n++
		key := valuesKey(r.Values)
		got[key]++
		// fully substituted request = template with Values applied by the reference substitution
		p, a, rs, c := tp.p, tp.a, tp.r, tp.c
		for k, v := range r.Values {
			p, a, rs, c = subst(p, string(k), v), subst(a, string(k), v), subst(rs, string(k), v), subst(c, string(k), v)
		}
		wantReq := cedar.Request{Principal: p.(types.EntityUID), Action: a.(types.EntityUID), Resource: rs.(types.EntityUID), Context: c.(types.Record)}
		if hasVariable(r.Request.Principal) || hasVariable(r.Request.Action) || hasVariable(r.Request.Resource) || hasVariable(r.Request.Context) {
			t.Fail("request-not-substituted:"+ctxName(tp), in()+" ; callback values {"+key+"}", "no variable left in Result.Request", fmt.Sprintf("%v %v %v %v", r.Request.Principal, r.Request.Action, r.Request.Resource, r.Request.Context))
		} else if !r.Request.Equal(wantReq) {
			t.Fail("request-wrong:"+ctxName(tp), in()+" ; callback values {"+key+"}", fmt.Sprintf("%v", wantReq), fmt.Sprintf("%v", r.Request))
		}
		dec, diag := cedar.Authorize(ps, entities, wantReq)
		if dec != r.Decision || reasonsKey(diag) != reasonsKey(r.Diagnostic) {
			t.Fail(fmt.Sprintf("decision-differs:%s:want-allow=%v", ctxName(tp), bool(dec)), in()+" ; callback values {"+key+"}",
				fmt.Sprintf("Authorize: %v reasons [%s]", dec, reasonsKey(diag)), fmt.Sprintf("batch: %v reasons [%s]", r.Decision, reasonsKey(r.Diagnostic)))
		}
		return nil
	}
	if t.Protect("batch", in(), func() { err = batch.Authorize(context.Background(), ps, entities, req, cb) }) {
		return 0
	}
	if err != nil {
		t.Fail("unexpected-error:"+ctxName(tp), in(), "nil error", err.Error())
		return n
	}
	if fmt.Sprint(sortedCounts(got)) != fmt.Sprint(sortedCounts(want)) {
		t.Fail("callbacks-not-the-product:"+ctxName(tp), in(), fmt.Sprint(sortedCounts(want)), fmt.Sprint(sortedCounts(got)))
	}
	if !withFaults {
		return n
	}
	N := n
	for k := 1; k <= N; k++ {
		// the callback fails at its k-th call
		calls := 0
		var e2 error
		t.Protect("batch-fault", in(), func() {
			e2 = batch.Authorize(context.Background(), ps, entities, req, func(batch.Result) error {
				calls++
				if calls == k {
					return sentinel{}
				}
				return nil
			})
		})
		if calls != k || !errors.Is(e2, sentinel{}) {
			t.Fail("callback-error-not-honoured", in()+fmt.Sprintf(" ; callback fails at call %d of %d", k, N), fmt.Sprintf("%d callbacks, error is the callback's", k), fmt.Sprintf("%d callbacks, err=%v", calls, e2))
		}
		// the context is cancelled inside the k-th call
		ctx, cancel := context.WithCancel(context.Background())
		calls = 0
		t.Protect("batch-cancel", in(), func() {
			e2 = batch.Authorize(ctx, ps, entities, req, func(batch.Result) error {
				calls++
				if calls == k {
					cancel()
				}
				return nil
			})
		})
		cancel()
		if calls != k || !errors.Is(e2, context.Canceled) {
			t.Fail("cancellation-not-honoured", in()+fmt.Sprintf(" ; context cancelled inside call %d of %d", k, N), fmt.Sprintf("%d callbacks, context.Canceled", k), fmt.Sprintf("%d callbacks, err=%v", calls, e2))
		}
	}
	return n
}

func ctxName(tp template) string {
	i := strings.Index(tp.desc, "context:")
	return tp.desc[i+8:]
}

func sortedCounts(m map[string]int) []string {
	var out []string
	for k, v := range m {
		out = append(out, fmt.Sprintf("%dx{%s}", v, k))
	}
	sort.Strings(out)
	return out
}

func mainFamily(setSize, maxList int) *core.Family {
	subs := subsets(len(policies), setSize)
	nT := 27 * len(ctxShapes)
	ls := lists(maxList)
	return &core.Family{
		Name: "templates-x-policysets",
		Desc: fmt.Sprintf("%d policy sets (all subsets of size<=%d of %d policies) x %d request templates (principal/action/resource in {concrete, x, y} x %d context shapes) x every value list of length 0..%d over a 3-value universe per variable x every fault position (callback error / cancellation at call k)", len(subs), setSize, len(policies), nT, len(ctxShapes), maxList),
		N:    int64(len(subs) * nT),
		Run: func(t *core.T, i int64) {
			sub := subs[int(i)/nT]
			ti := int(i) % nT
			tp := mkTemplate(ti%3, ti/3%3, ti/9%3, ti/27)
			ps := cedar.NewPolicySet()
			var names []string
			for _, pi := range sub {
				ps.Add(cedar.PolicyID(fmt.Sprintf("p%d", pi)), policies[pi])
				names = append(names, fmt.Sprintf("p%d", pi))
			}
			psDesc := strings.Join(names, ",")
			// all combinations of value lists for the template's variables
			nv := len(tp.vars)
			combos := 1
			for j := 0; j < nv; j++ {
				combos *= len(ls)
			}
			cbs := 0
			for cidx := 0; cidx < combos; cidx++ {
				x := cidx
				vl := map[string][]types.Value{}
				for _, name := range tp.vars {
					l := ls[x%len(ls)]
					x /= len(ls)
					vs := make([]types.Value, len(l))
					for j, u := range l {
						vs[j] = tp.uni[name][u]
					}
					vl[name] = vs
				}
				cbs += runOne(t, ps, psDesc, tp, vl, true)
				t.AddStates(1)
			}
			t.AddTrans(int64(cbs))
			if cbs > 0 && nv > 0 {
				t.Nontrivial()
			}
			t.SampleF(func() string {
				return fmt.Sprintf("policies {%s}; %s; %d value-list combinations, %d callbacks", psDesc, tp.desc, combos, cbs)
			})
		},
	}
}

// manyVariables: templates with three to five variables (one per request part plus nested
// ones, the same variable in several parts), and value lists long enough to cross the
// thresholds at which slices and maps grow (12 and 40 values, with duplicates), against
// every policy alone and the whole policy set.
func manyVariables() *core.Family {
	type tv struct {
		tp template
		vl map[string][]types.Value
	}
	long := func(u []types.Value, n int) []types.Value {
		out := make([]types.Value, n)
		for i := range out {
			out[i] = u[(i*7+i/3)%len(u)]
		}
		return out
	}
	mk := func(desc string, p, a, r, c types.Value, uni map[string][]types.Value) template {
		t := template{p: p, a: a, r: r, c: c, desc: desc, uni: uni}
		for v := range uni {
			t.vars = append(t.vars, v)
		}
		sort.Strings(t.vars)
		return t
	}
	A, R, P := ent("Action", "view"), ent("G", "g1"), ent("U", "alice")
	var cases []tv
	t1 := mk("p,act,res,context.a=x (4 variables)", V("p"), V("act"), V("res"), base("a", V("x")), map[string][]types.Value{"p": uniPrincipal, "act": uniAction, "res": uniResource, "x": uniLeaf})
	cases = append(cases, tv{t1, map[string][]types.Value{"p": uniPrincipal[:2], "act": uniAction[:2], "res": uniResource[:2], "x": uniLeaf[:2]}})
	cases = append(cases, tv{t1, map[string][]types.Value{"p": long(uniPrincipal, 12), "act": uniAction[:1], "res": uniResource[:1], "x": uniLeaf[:1]}})
	cases = append(cases, tv{t1, map[string][]types.Value{"p": uniPrincipal[:1], "act": uniAction[:1], "res": uniResource[:1], "x": long(uniLeaf, 40)}})
	t2 := mk("principal=resource=x, context.a=x, context.s=[y,z] (3 variables, one in three parts)", V("x"), A, V("x"), base("a", V("x"), "s", set(V("y"), V("z"))), map[string][]types.Value{"x": uniResource, "y": uniLeaf, "z": uniLeaf})
	cases = append(cases, tv{t2, map[string][]types.Value{"x": uniResource, "y": uniLeaf, "z": uniLeaf[:2]}})
	t3 := mk("five variables: p,act,res,context.a=x,context.r.b=y,context.g=[p]", V("p"), V("act"), V("res"), base("a", V("x"), "r", rec("b", V("y")), "g", set(V("p"))), map[string][]types.Value{"p": uniPrincipal, "act": uniAction, "res": uniResource, "x": uniLeaf, "y": uniLeaf})
	cases = append(cases, tv{t3, map[string][]types.Value{"p": uniPrincipal[:2], "act": uniAction[:2], "res": uniResource[:2], "x": uniLeaf[:2], "y": uniLeaf[:2]}})
	cases = append(cases, tv{t3, map[string][]types.Value{"p": uniPrincipal, "act": uniAction[:1], "res": uniResource[:1], "x": uniLeaf, "y": uniLeaf}})
	t4 := mk("whole context = c, principal = p, three levels of nesting in another variable", V("p"), A, R, V("c"), map[string][]types.Value{"p": uniPrincipal, "c": uniCtx})
	cases = append(cases, tv{t4, map[string][]types.Value{"p": long(uniPrincipal, 9), "c": long(uniCtx, 17)}})
	t5 := mk("context.s=[[{k:[x]}]], context.r.b={deep:{deeper:y}}", P, A, R, base("s", set(set(rec("k", set(V("x"))))), "r", rec("b", rec("deep", rec("deeper", V("y"))))), map[string][]types.Value{"x": uniLeaf, "y": uniLeaf})
	cases = append(cases, tv{t5, map[string][]types.Value{"x": uniLeaf, "y": uniLeaf}})
	nps := len(policies) + 1
	return &core.Family{
		Name: "many-variables-long-lists",
		Desc: fmt.Sprintf("%d template / value-list cases with 2..5 variables (one per request part, nested three levels deep, one variable in three parts, value lists of 9..40 values with duplicates) x (%d single policies + the whole set), with a fault at every callback position", len(cases), len(policies)),
		N:    int64(len(cases) * nps),
		Run: func(t *core.T, i int64) {
			c := cases[int(i)/nps]
			k := int(i) % nps
			ps := cedar.NewPolicySet()
			desc := "all"
			if k < len(policies) {
				ps.Add(cedar.PolicyID(fmt.Sprintf("p%d", k)), policies[k])
				desc = fmt.Sprintf("p%d", k)
			} else {
				for pi, p := range policies {
					ps.Add(cedar.PolicyID(fmt.Sprintf("p%d", pi)), p)
				}
			}
			cbs := runOne(t, ps, desc, c.tp, c.vl, true)
			t.AddStates(1)
			t.AddTrans(int64(cbs))
			if cbs > 0 {
				t.Nontrivial()
			}
			t.Sample(fmt.Sprintf("policies {%s}; %s; %d callbacks", desc, c.tp.desc, cbs))
		},
	}
}

// documented errors: unbound / unused variables, missing parts, ill-typed values.
func errorFamily() *core.Family {
	type c struct {
		name string
		req  batch.Request
		want string
	}
	A, R := ent("Action", "view"), ent("G", "g1")
	cases := []c{
		{"unbound", batch.Request{Principal: V("x"), Action: A, Resource: R, Context: base()}, "error"},
		{"unused", batch.Request{Principal: ent("U", "alice"), Action: A, Resource: R, Context: base(), Variables: batch.Variables{"x": {types.Long(1)}}}, "error"},
		{"missing-principal", batch.Request{Action: A, Resource: R, Context: base()}, "error"},
		{"missing-context", batch.Request{Principal: ent("U", "alice"), Action: A, Resource: R}, "error"},
		{"ill-typed-principal", batch.Request{Principal: V("x"), Action: A, Resource: R, Context: base(), Variables: batch.Variables{"x": {types.Long(1)}}}, "error"},
		{"ill-typed-context", batch.Request{Principal: ent("U", "alice"), Action: A, Resource: R, Context: V("c"), Variables: batch.Variables{"c": {types.Long(1)}}}, "error"},
		{"empty-list", batch.Request{Principal: V("x"), Action: A, Resource: R, Context: base(), Variables: batch.Variables{"x": {}}}, "nothing"},
		{"empty-list-of-two", batch.Request{Principal: V("x"), Action: A, Resource: R, Context: base("a", V("y")), Variables: batch.Variables{"x": {ent("U", "alice")}, "y": {}}}, "nothing"},
		{"unbound-nested", batch.Request{Principal: ent("U", "alice"), Action: A, Resource: R, Context: base("s", set(rec("k", V("z"))))}, "error"},
	}
	return &core.Family{
		Name: "documented-errors",
		Desc: fmt.Sprintf("%d requests with unbound / unused variables, missing parts, ill-typed values, empty value lists", len(cases)),
		N:    int64(len(cases)),
		Run: func(t *core.T, i int64) {
			cs := cases[i]
			ps := cedar.NewPolicySet()
			ps.Add("p0", policies[0])
			n := 0
			var err error
			if t.Protect("batch-errors:"+cs.name, cs.name, func() {
				err = batch.Authorize(context.Background(), ps, entities, cs.req, func(batch.Result) error { n++; return nil })
			}) {
				return
			}
			if cs.want == "error" && (err == nil || n != 0) {
				t.Fail("documented-error-missing:"+cs.name, cs.name, "an error and no callback", fmt.Sprintf("err=%v callbacks=%d", err, n))
			}
			if cs.want == "nothing" && (err != nil || n != 0) {
				t.Fail("empty-list:"+cs.name, cs.name, "nil error and no callback", fmt.Sprintf("err=%v callbacks=%d", err, n))
			}
			t.Nontrivial()
			t.Sample(cs.name)
		},
	}
}

func Check() *core.Check {
	return &core.Check{
		ID:    "C05",
		Title: "Batch authorization equals brute-force authorization of every substitution",
		Rule: "bounded-exhaustive: policy sets x request templates (variables in any of the four parts, the same variable twice, variables nested in records and sets, two variables) x every value list up to the stated length, and for each run every position k at which the callback fails or the context is cancelled; oracle: callbacks = Cartesian product as a multiset, Result.Request = template with Values applied by the reference substitution, decision and reason set = cedar.Authorize on that request; " +
			"a case is non-trivial if the template has at least one variable and produced at least one callback",
		Assumptions: []string{"cedar.Authorize on the concrete request is the reference (its conformance is C01/C02)", "Ignore() parts are judged by C06's weaker oracle, not by brute-force equality"},
		Families: func(tier string) []*core.Family {
			initPolicies()
			if policiesErr != nil {
				e := policiesErr
				return []*core.Family{{Name: "setup", Desc: "harness policies parse", N: 1, Run: func(t *core.T, i int64) {
					t.Fail("harness-policy-does-not-parse", e.Error(), "parses", e.Error())
				}}}
			}
			if tier == "thorough" {
				return []*core.Family{errorFamily(), manyVariables(), mainFamily(3, 2), deepLists()}
			}
			return []*core.Family{errorFamily(), manyVariables(), mainFamily(1, 2), pairSets()}
		},
	}
}

// pairSets: policy sets of size 2 with value lists of length <=1 and 2 (no faults) — quick-tier complement.
func pairSets() *core.Family {
	subs := subsets(len(policies), 2)[1+len(policies):]
	nT := 27 * len(ctxShapes)
	ls := [][]int{{0, 1}, {2, 0, 1}}
	return &core.Family{
		Name: "pairs-of-policies",
		Desc: fmt.Sprintf("%d policy pairs x %d templates x value lists {[v0,v1],[v2,v0,v1]} per variable (interaction of two policies through the partially evaluated set)", len(subs), nT),
		N:    int64(len(subs) * nT),
		Run: func(t *core.T, i int64) {
			sub := subs[int(i)/nT]
			ti := int(i) % nT
			tp := mkTemplate(ti%3, ti/3%3, ti/9%3, ti/27)
			ps := cedar.NewPolicySet()
			var names []string
			for _, pi := range sub {
				ps.Add(cedar.PolicyID(fmt.Sprintf("p%d", pi)), policies[pi])
				names = append(names, fmt.Sprintf("p%d", pi))
			}
			cbs := 0
			for li := range ls {
				vl := map[string][]types.Value{}
				for vi, name := range tp.vars {
					l := ls[(li+vi)%len(ls)]
					for _, u := range l {
						vl[name] = append(vl[name], tp.uni[name][u])
					}
				}
				cbs += runOne(t, ps, strings.Join(names, ","), tp, vl, li == 0)
				t.AddStates(1)
			}
			t.AddTrans(int64(cbs))
			if cbs > 0 && len(tp.vars) > 0 {
				t.Nontrivial()
			}
			t.SampleF(func() string { return strings.Join(names, ",") + "; " + tp.desc })
		},
	}
}

// deepLists: value lists of length 3 (incl. duplicates) for single policies.
func deepLists() *core.Family {
	nT := 27 * len(ctxShapes)
	ls := lists(3)[13:]
	return &core.Family{
		Name: "lists-of-length-3",
		Desc: fmt.Sprintf("%d single policies x %d templates x every value list of length 3 over a 3-value universe for the first variable ([v0,v1] for the others)", len(policies), nT),
		N:    int64(len(policies) * nT),
		Run: func(t *core.T, i int64) {
			pi := int(i) / nT
			ti := int(i) % nT
			tp := mkTemplate(ti%3, ti/3%3, ti/9%3, ti/27)
			ps := cedar.NewPolicySet()
			ps.Add(cedar.PolicyID(fmt.Sprintf("p%d", pi)), policies[pi])
			cbs := 0
			for _, l := range ls {
				vl := map[string][]types.Value{}
				for vi, name := range tp.vars {
					if vi == 0 {
						for _, u := range l {
							vl[name] = append(vl[name], tp.uni[name][u])
						}
					} else {
						vl[name] = []types.Value{tp.uni[name][0], tp.uni[name][1]}
					}
				}
				cbs += runOne(t, ps, fmt.Sprintf("p%d", pi), tp, vl, false)
				t.AddStates(1)
				if len(tp.vars) == 0 {
					break
				}
			}
			t.AddTrans(int64(cbs))
			if cbs > 0 && len(tp.vars) > 0 {
				t.Nontrivial()
			}
			t.SampleF(func() string { return fmt.Sprintf("p%d; %s", pi, tp.desc) })
		},
	}
}
