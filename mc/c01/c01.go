// Package c01: expression evaluation follows the Cedar semantics (E1 + E6).
package c01

import (
	"fmt"
	"time"

	cedar "github.com/cedar-policy/cedar-go"
	publicast "github.com/cedar-policy/cedar-go/ast"
	"github.com/cedar-policy/cedar-go/types"
	"github.com/cedar-policy/cedar-go/verif/core"
	"github.com/cedar-policy/cedar-go/verif/gen"
	. "github.com/cedar-policy/cedar-go/verif/refsem"
	xast "github.com/cedar-policy/cedar-go/x/exp/ast"
	"github.com/cedar-policy/cedar-go/x/exp/eval"
)

type implEnv struct {
	env  eval.Env
	ents types.EntityMap
	req  cedar.Request
}

var refEnvs []*Env
var implEnvs []implEnv

func init() {
	refEnvs = gen.Envs()
	for _, e := range refEnvs {
		em := e.Store.ToImpl()
		implEnvs = append(implEnvs, implEnv{
			env:  eval.Env{Entities: em, Principal: e.Principal.ToImpl(), Action: e.Action.ToImpl(), Resource: e.Resource.ToImpl(), Context: e.Context.ToImpl()},
			ents: em,
			req:  cedar.Request{Principal: e.Principal.ToImpl().(types.EntityUID), Action: e.Action.ToImpl().(types.EntityUID), Resource: e.Resource.ToImpl().(types.EntityUID), Context: e.Context.ToImpl().(types.Record)},
		})
	}
}

func kindOf(e *Expr, env *Env) string {
	v, ec := Eval(e, env)
	if ec != OK {
		return ec.String()
	}
	return v.K.String()
}

// CheckExpr evaluates e on the implementation (both observation points) and on
// the reference, in environment k, and reports disagreements. opName is the
// operator under test (for the signature). Returns whether the case is
// non-trivial (reference result is a value, not an error).
func CheckExpr(t *core.T, opName string, e *Expr, k int) bool {
	renv := refEnvs[k]
	ienv := implEnvs[k]
	want, wec := Eval(e, renv)
	if wec == Abstain {
		return false
	}
	node := e.ToAST()
	input := func() string { return fmt.Sprintf("%s  [env %d]", e.String(), k) }
	sigOperands := func() string {
		s := ""
		for i, a := range e.Args {
			if i > 0 {
				s += ","
			}
			s += kindOf(a, renv)
		}
		return s
	}
	// observation point 1: x/exp/eval.Eval (unfolded)
	var got types.Value
	var err error
	if t.Protect("eval:"+opName, input(), func() { got, err = eval.Eval(node.AsIsNode(), ienv.env) }) {
		return false
	}
	if wec != OK {
		if err == nil {
			t.Fail(fmt.Sprintf("eval:%s(%s):missing-error:%s", opName, sigOperands(), wec), input(), "error ("+wec.String()+")", fmt.Sprintf("value %v", got))
		}
	} else {
		if err != nil {
			t.Fail(fmt.Sprintf("eval:%s(%s):spurious-error", opName, sigOperands()), input(), want.Key(), "error: "+err.Error())
		} else {
			gv, cerr := FromImpl(got)
			if cerr != nil {
				t.Fail(fmt.Sprintf("eval:%s(%s):malformed-value", opName, sigOperands()), input(), want.Key(), cerr.Error())
			} else if !gv.Equal(want) {
				t.Fail(fmt.Sprintf("eval:%s(%s):wrong-value", opName, sigOperands()), input(), want.Key(), gv.Key())
			}
		}
	}
	// observation point 2: cedar.Authorize on `permit(principal,action,resource) when { e }` (folded, compiled)
	var dec cedar.Decision
	var diag cedar.Diagnostic
	if t.Protect("authorize:"+opName, input(), func() {
		pol := cedar.NewPolicyFromAST((*publicast.Policy)(xast.Permit().When(node)))
		ps := cedar.NewPolicySet()
		ps.Add("p", pol)
		dec, diag = cedar.Authorize(ps, ienv.ents, ienv.req)
	}) {
		return false
	}
	wantAllow := wec == OK && want.K == KBool && want.B
	wantErr := wec != OK || want.K != KBool
	if bool(dec) != wantAllow || (len(diag.Errors) == 1) != wantErr || len(diag.Errors) > 1 {
		t.Fail(fmt.Sprintf("authorize:%s(%s):allow=%v,error=%v", opName, sigOperands(), wantAllow, wantErr), input(),
			fmt.Sprintf("allow=%v errors=%v (reference: %s)", wantAllow, wantErr, resStr(want, wec)),
			fmt.Sprintf("allow=%v errors=%v", bool(dec), diag.Errors))
	}
	return wec == OK
}

// seqFamily: one policy set compiled once per expression answers every environment in
// turn, forwards and then backwards (state an evaluator node, a folded tree or the set keeps
// from an earlier request must not show in a later answer). Oracle: the reference, per call.
func seqFamily(name string, specs []gen.OpSpec, leaves []*Expr, arity int) *core.Family {
	nl := len(leaves)
	ne := len(refEnvs)
	per := pow(nl, arity)
	return &core.Family{
		Name: name,
		Desc: fmt.Sprintf("%d operator forms x %d leaves^%d: one compiled policy set answers all %d environments forwards then backwards (%d calls per set)", len(specs), nl, arity, ne, 2*ne),
		N:    int64(len(specs)) * per,
		Run: func(t *core.T, i int64) {
			spec := specs[i/per]
			r := i % per
			args := make([]*Expr, arity)
			for j := arity - 1; j >= 0; j-- {
				args[j] = leaves[r%int64(nl)]
				r /= int64(nl)
			}
			e := spec.Build(args)
			node := e.ToAST()
			var ps *cedar.PolicySet
			if t.Protect("seq-compile:"+spec.Name, e.String(), func() {
				ps = cedar.NewPolicySet()
				ps.Add("p", cedar.NewPolicyFromAST((*publicast.Policy)(xast.Permit().When(node))))
			}) {
				return
			}
			for step := 0; step < 2*ne; step++ {
				k := step
				if step >= ne {
					k = 2*ne - 1 - step
				}
				want, wec := Eval(e, refEnvs[k])
				if wec == Abstain {
					continue
				}
				ienv := implEnvs[k]
				input := func() string { return fmt.Sprintf("%s  [call %d on one compiled set, env %d]", e.String(), step, k) }
				var dec cedar.Decision
				var diag cedar.Diagnostic
				if t.Protect("seq-authorize:"+spec.Name, input(), func() { dec, diag = cedar.Authorize(ps, ienv.ents, ienv.req) }) {
					return
				}
				wantAllow := wec == OK && want.K == KBool && want.B
				wantErr := wec != OK || want.K != KBool
				if bool(dec) != wantAllow || (len(diag.Errors) == 1) != wantErr || len(diag.Errors) > 1 {
					t.Fail(fmt.Sprintf("seq-authorize:%s:allow=%v,error=%v", spec.Name, wantAllow, wantErr), input(),
						fmt.Sprintf("allow=%v errors=%v (reference: %s)", wantAllow, wantErr, resStr(want, wec)),
						fmt.Sprintf("allow=%v errors=%v", bool(dec), diag.Errors))
				}
				if wec == OK {
					t.Nontrivial()
				}
				t.AddTrans(1)
			}
			t.AddStates(1)
			t.SampleF(e.String)
		},
	}
}

func resStr(v Val, ec ErrClass) string {
	if ec != OK {
		return "error:" + ec.String()
	}
	return v.Key()
}

func pow(b, e int) int64 {
	r := int64(1)
	for i := 0; i < e; i++ {
		r *= int64(b)
	}
	return r
}

// opFamily enumerates specs × leaves^arity × envs.
func opFamily(name string, specs []gen.OpSpec, leaves []*Expr, arity int) *core.Family {
	nl := len(leaves)
	ne := len(refEnvs)
	per := pow(nl, arity) * int64(ne)
	return &core.Family{
		Name: name,
		Desc: fmt.Sprintf("%d operator forms x %d leaves^%d x %d environments", len(specs), nl, arity, ne),
		N:    int64(len(specs)) * per,
		Run: func(t *core.T, i int64) {
			spec := specs[i/per]
			r := i % per
			k := int(r % int64(ne))
			r /= int64(ne)
			args := make([]*Expr, arity)
			for j := arity - 1; j >= 0; j-- {
				args[j] = leaves[r%int64(nl)]
				r /= int64(nl)
			}
			e := spec.Build(args)
			if CheckExpr(t, spec.Name, e, k) {
				t.Nontrivial()
			}
			t.SampleF(e.String)
		},
	}
}

func Check() *core.Check {
	return &core.Check{
		ID:        "C01",
		HangAfter: 120 * time.Second, // cases take at most seconds (max_case_s in the evidence); see core.Family.HangAfter
		Title:     "Expression evaluation follows the Cedar language semantics",
		Rule: "bounded-exhaustive enumeration of operator x boundary-operand tables and depth-2/3 trees; each expression evaluated by x/exp/eval.Eval and by cedar.Authorize (one-policy set) and compared with the reference evaluator (value equality / error occurrence); " +
			"a case is non-trivial if the reference result is a value (not an error)",
		Assumptions: []string{
			"reference semantics sheet DESIGN.md App. A is the trusted base (big-int arithmetic, floor calendar functions, DP like-matcher)",
			"IPv4-mapped IPv6 in isLoopback/isMulticast, zone ids, leading zeros in IP literals: oracle abstains",
			"only error occurrence is compared, never wording or which operand failed first",
		},
		Families: func(tier string) []*core.Family {
			leaves := gen.Leaves(gen.V)
			var fams []*core.Family
			fams = append(fams, opFamily("l1-unary", gen.Unary, leaves, 1))
			fams = append(fams, opFamily("l1-binary", gen.Binary, leaves, 2))
			if tier == "thorough" {
				fams = append(fams, opFamily("l1-if", gen.Ternary, leaves, 3))
			} else {
				fams = append(fams, ifQuickFamily(leaves))
			}
			fams = append(fams, seqFamily("compiled-once-unary", gen.Unary, leaves, 1), seqFamily("compiled-once-binary", gen.Binary, leaves, 2))
			fams = append(fams, likeFamily(), extLitFamily(), arityFamily(), sizesFamily())
			if tier == "thorough" {
				fams = append(fams, likeDeepFamily("like-deep", []string{"a", "b"}, 6, 8), likeDeepFamily("like-deep-multibyte", []string{"a", "é", "😀"}, 5, 6))
			} else {
				fams = append(fams, likeDeepFamily("like-deep", []string{"a", "b"}, 5, 7), likeDeepFamily("like-deep-multibyte", []string{"a", "é", "😀"}, 4, 5))
			}
			w := gen.W[:6]
			if tier == "thorough" {
				w = gen.W
			}
			fams = append(fams, depth2Families(w)...)
			fams = append(fams, shortCircuitFamily())
			return fams
		},
	}
}

// like: every pattern of <=3 components over {*, a, b, \*} x subject strings (every
// string of length <=4 over {a,b,*}) plus non-string subjects.
func likeFamily() *core.Family {
	var subjects []*Expr
	alpha := []string{"a", "b", "*"}
	strs := []string{""}
	for l := 1; l <= 4; l++ {
		n := len(strs)
		var nxt []string
		for _, s := range strs[n-int(pow(3, l-1)):] {
			for _, c := range alpha {
				nxt = append(nxt, s+c)
			}
		}
		strs = append(strs, nxt...)
	}
	for _, s := range strs {
		subjects = append(subjects, L(Str(s)))
	}
	subjects = append(subjects, L(Str("é✓a")), L(Long(1)), L(Set()), Var("principal"), Var("context"))
	pats := gen.Patterns
	// additional multi-character and multi-byte patterns
	pats = append(pats, []PatElem{{Lit: "ab"}, {Wild: true}, {Lit: "ab"}}, []PatElem{{Wild: true}, {Lit: "é"}, {Wild: true}}, []PatElem{{Lit: "é✓"}, {Wild: true}},
		[]PatElem{{Wild: true}, {Lit: "aa"}, {Wild: true}, {Lit: "b"}}, []PatElem{{Wild: true}, {Wild: true}}, []PatElem{{Lit: "a"}, {Lit: "b"}})
	return &core.Family{
		Name: "l1-like",
		Desc: fmt.Sprintf("%d patterns (all sequences of <=3 components over {*,a,b,\\*} + multi-char/multi-byte) x %d subjects (all strings of length<=4 over {a,b,*} + non-strings)", len(pats), len(subjects)),
		N:    int64(len(pats) * len(subjects)),
		Run: func(t *core.T, i int64) {
			p := pats[int(i)/len(subjects)]
			s := subjects[int(i)%len(subjects)]
			e := Like(s, p...)
			if CheckExpr(t, "like", e, 2) {
				t.Nontrivial()
			}
			t.SampleF(e.String)
		},
	}
}

// like, deeper: every pattern of <= 5 components over {*, a, b} against every string of
// length <= 7 over {a, b}: backtracking matchers go wrong on the second or third star.
func likeDeepFamily(name string, lits []string, maxComp, maxLen int) *core.Family {
	comps := []PatElem{{Wild: true}}
	for _, l := range lits {
		comps = append(comps, PatElem{Lit: l})
	}
	var pats [][]PatElem
	var rec func(cur []PatElem)
	rec = func(cur []PatElem) {
		if len(cur) > 0 {
			pats = append(pats, append([]PatElem{}, cur...))
		}
		if len(cur) == maxComp {
			return
		}
		for _, c := range comps {
			rec(append(cur, c))
		}
	}
	rec(nil)
	var strs []string
	var recS func(cur string)
	recS = func(cur string) {
		strs = append(strs, cur)
		if len([]rune(cur)) == maxLen {
			return
		}
		for _, l := range lits {
			recS(cur + l)
		}
	}
	recS("")
	return &core.Family{
		Name: name,
		Desc: fmt.Sprintf("every like pattern of 1..%d components over {*} + %q (%d) x every string of <= %d characters over %q (%d); multi-byte characters make byte offsets and character offsets differ", maxComp, lits, len(pats), maxLen, lits, len(strs)),
		N:    int64(len(pats)),
		Run: func(t *core.T, i int64) {
			p := pats[i]
			for _, s := range strs {
				if CheckExpr(t, "like", Like(L(Str(s)), p...), 0) {
					t.Nontrivial()
				}
			}
			t.SampleF(func() string { return Like(L(Str("ab")), p...).String() })
		},
	}
}

// sizes: the same operators on containers whose size crosses the thresholds at which a
// hash table grows, a small-size fast path ends or a slice is reallocated.
func sizesFamily() *core.Family {
	sizes := []int{0, 1, 2, 3, 4, 5, 6, 7, 8, 9, 10, 11, 12, 13, 14, 15, 16, 17, 18, 19, 20, 31, 32, 33, 63, 64, 65, 127, 128, 129, 255, 256, 257}
	lit := func(n int, rev bool) *Expr {
		es := make([]*Expr, n)
		for k := 0; k < n; k++ {
			j := k
			if rev {
				j = n - 1 - k
			}
			es[k] = L(Long(int64(j)))
		}
		return SetLit(es...)
	}
	rec := func(n int) *Expr {
		keys := make([]string, n)
		vals := make([]*Expr, n)
		for k := 0; k < n; k++ {
			keys[k] = fmt.Sprintf("k%d", k)
			vals[k] = L(Long(int64(k)))
		}
		return RecLit(keys, vals)
	}
	return &core.Family{
		Name: "container-sizes",
		Desc: fmt.Sprintf("sets of the longs 0..n-1 and records with n keys for n in %v: contains (first, last, absent), containsAll / containsAny against n-1 and n+1 members, == with the reversed literal and with one member fewer, isEmpty, has / access of first, last and absent key, == of records", sizes),
		N:    int64(len(sizes)),
		Run: func(t *core.T, i int64) {
			n := sizes[i]
			S := lit(n, false)
			es := []*Expr{
				Bin(OContains, S, L(Long(0))), Bin(OContains, S, L(Long(int64(n-1)))), Bin(OContains, S, L(Long(int64(n)))),
				Bin(OContainsAll, S, lit(n, true)), Bin(OContainsAll, lit(n+1, true), S), Bin(OContainsAll, S, lit(n+1, false)),
				Bin(OContainsAny, S, SetLit(L(Long(int64(n))), L(Long(int64(n-1))))), Bin(OContainsAny, S, SetLit(L(Long(int64(n))), L(Long(-1)))),
				Bin(OEq, S, lit(n, true)), Bin(OEq, S, lit(n+1, true)), Bin(ONe, lit(n+1, false), S), Un(OIsEmpty, S),
				Bin(OContains, SetLit(S, lit(n+1, false)), lit(n, true)),
				Has(rec(n), "k0"), Has(rec(n), fmt.Sprintf("k%d", n-1)), Has(rec(n), fmt.Sprintf("k%d", n)),
				Bin(OEq, Access(rec(n), fmt.Sprintf("k%d", n-1)), L(Long(int64(n-1)))), Bin(OEq, rec(n), rec(n)), Bin(OEq, rec(n), rec(n+1)),
				Bin(OContains, SetLit(rec(n)), rec(n)),
			}
			for _, e := range es {
				for k := range refEnvs[:1] {
					if CheckExpr(t, "sizes", e, k) {
						t.Nontrivial()
					}
				}
			}
			t.Sample(fmt.Sprintf("n=%d", n))
		},
	}
}

func extLitFamily() *core.Family {
	type c struct{ fn, s string }
	var cases []c
	for _, fn := range []string{"decimal", "datetime", "duration", "ip"} {
		for _, other := range []string{"decimal", "datetime", "duration", "ip"} {
			for _, s := range gen.ExtLits[other] {
				cases = append(cases, c{fn, s})
			}
		}
	}
	return &core.Family{
		Name: "l1-ext-literals",
		Desc: fmt.Sprintf("4 constructors x %d literal strings (valid, boundary, malformed; each constructor also on the other constructors' strings)", len(cases)/4),
		N:    int64(len(cases)),
		Run: func(t *core.T, i int64) {
			cs := cases[i]
			e := Ext(cs.fn, L(Str(cs.s)))
			if CheckExpr(t, cs.fn+"-literal:"+cs.s, e, 0) {
				t.Nontrivial()
			}
			t.SampleF(e.String)
		},
	}
}

// arity: every extension name (and unknown names) with 0..3 arguments.
func arityFamily() *core.Family {
	names := append(append([]string{}, ExtNames()...), "nope", "Decimal", "isipv4", "")
	argsets := [][]*Expr{{}, {L(Str("1.0"))}, {L(Decimal(1)), L(Decimal(2))}, {L(Long(1)), L(Long(2)), L(Long(3))},
		{L(IP4(1, 2, 3, 4, 32))}, {L(Datetime(0))}, {L(Duration(0))}, {L(Datetime(0)), L(Duration(1))}, {L(IP4(1, 2, 3, 4, 32)), L(IP4(1, 0, 0, 0, 8))},
		// a first argument each constructor accepts, followed by surplus arguments
		{L(Str("127.0.0.1")), L(Long(1))}, {L(Str("1.5")), L(Str("2.5"))}, {L(Str("2024-01-01")), Access(Var("context"), "a")}, {L(Str("1h")), L(Str("x")), L(Str("y"))}}
	return &core.Family{
		Name: "l1-ext-arity",
		Desc: fmt.Sprintf("%d function names (22 known + unknown/misspelled) x %d argument lists (0..3 arguments)", len(names), len(argsets)),
		N:    int64(len(names) * len(argsets)),
		Run: func(t *core.T, i int64) {
			n := names[int(i)/len(argsets)]
			e := Ext(n, argsets[int(i)%len(argsets)]...)
			if CheckExpr(t, "call:"+n, e, 2) {
				t.Nontrivial()
			}
			// consumed by something that succeeds on any value
			CheckExpr(t, "call==self:"+n, Bin(OEq, e, e), 2)
			t.SampleF(e.String)
		},
	}
}

// depth-2: parent(child(x..), y) for every parent x position x child pairing over W.
func depth2Families(w []Val) []*core.Family {
	leaves := gen.Leaves(w)
	children := append(append(append([]gen.OpSpec{}, gen.Unary...), gen.Binary...), gen.Ternary...)
	parents := children
	nl := int64(len(leaves))
	type combo struct {
		p, c gen.OpSpec
		pos  int
	}
	var combos []combo
	for _, p := range parents {
		for pos := 0; pos < p.Arity; pos++ {
			for _, c := range children {
				combos = append(combos, combo{p, c, pos})
			}
		}
	}
	// per combo: child leaves^carity x other parent leaves^(parity-1); envs: 1 (store s1, request 0) + env 5
	envs := []int{2, 5}
	return []*core.Family{{
		Name: "l2-pairings",
		Desc: fmt.Sprintf("every (parent, operand position, child) pairing of %d operator forms (%d pairings), all leaf tuples over %d leaves, %d environments", len(children), len(combos), len(leaves), len(envs)),
		N:    int64(len(combos)) * nl,
		Run: func(t *core.T, i int64) {
			cb := combos[i/nl]
			first := i % nl
			slots := cb.c.Arity + cb.p.Arity - 1
			total := pow(int(nl), slots-1)
			nt := false
			var last *Expr
			for r := int64(0); r < total; r++ {
				x := r
				ls := make([]*Expr, slots)
				ls[0] = leaves[first]
				for j := slots - 1; j >= 1; j-- {
					ls[j] = leaves[x%nl]
					x /= nl
				}
				child := cb.c.Build(ls[:cb.c.Arity])
				pargs := make([]*Expr, cb.p.Arity)
				rest := ls[cb.c.Arity:]
				ri := 0
				for j := range pargs {
					if j == cb.pos {
						pargs[j] = child
					} else {
						pargs[j] = rest[ri]
						ri++
					}
				}
				e := cb.p.Build(pargs)
				last = e
				for _, k := range envs {
					if CheckExpr(t, cb.p.Name+"/"+cb.c.Name, e, k) {
						nt = true
					}
				}
				t.AddStates(1)
				t.AddTrans(int64(len(envs)))
			}
			if nt {
				t.Nontrivial()
			}
			t.SampleF(last.String)
		},
	}}
}

// depth-3 short-circuit: the skipped operand is ill-typed / erroring / missing.
func shortCircuitFamily() *core.Family {
	bad := []*Expr{
		Bin(OAdd, L(Long(gen.MaxI)), L(Long(1))), Bin(OLt, L(Long(1)), L(Str("a"))), Access(Var("context"), "missing"), Access(L(Entity("U", "ghost")), "a"),
		Ext("decimal", L(Str("x"))), L(Long(1)), Ext("nope"), Un(ONot, L(Long(1))), Bin(OGetTag, Var("principal"), L(Str("zz"))),
	}
	conds := []*Expr{L(Bool(true)), L(Bool(false)), Bin(OEq, Var("principal"), L(Entity("U", "alice"))), Has(Var("context"), "a"), Has(Var("context"), "zz"), L(Long(1)), Access(Var("context"), "missing")}
	type mk func(c, b, ok *Expr) *Expr
	forms := []struct {
		name string
		f    mk
	}{
		{"c&&bad", func(c, b, ok *Expr) *Expr { return Bin(OAnd, c, b) }},
		{"c||bad", func(c, b, ok *Expr) *Expr { return Bin(OOr, c, b) }},
		{"bad&&c", func(c, b, ok *Expr) *Expr { return Bin(OAnd, b, c) }},
		{"bad||c", func(c, b, ok *Expr) *Expr { return Bin(OOr, b, c) }},
		{"if-c-bad-ok", func(c, b, ok *Expr) *Expr { return If(c, b, ok) }},
		{"if-c-ok-bad", func(c, b, ok *Expr) *Expr { return If(c, ok, b) }},
		{"!(c&&bad)", func(c, b, ok *Expr) *Expr { return Un(ONot, Bin(OAnd, c, b)) }},
		{"(c&&bad)||ok", func(c, b, ok *Expr) *Expr { return Bin(OOr, Bin(OAnd, c, b), ok) }},
		{"(c||bad)&&ok", func(c, b, ok *Expr) *Expr { return Bin(OAnd, Bin(OOr, c, b), ok) }},
		{"c&&(c||bad)", func(c, b, ok *Expr) *Expr { return Bin(OAnd, c, Bin(OOr, c, b)) }},
		{"if(c&&bad)", func(c, b, ok *Expr) *Expr { return If(Bin(OAnd, c, b), ok, Un(ONot, ok)) }},
		{"if-c-(c||bad)-bad", func(c, b, ok *Expr) *Expr { return If(c, Bin(OOr, c, b), b) }},
	}
	oks := []*Expr{L(Bool(true)), L(Bool(false))}
	ne := len(refEnvs)
	n := len(forms) * len(conds) * len(bad) * len(oks) * ne
	return &core.Family{
		Name: "l3-short-circuit",
		Desc: fmt.Sprintf("%d short-circuit forms (depth <=3) x %d conditions x %d ill-typed/erroring skipped operands x 2 x %d environments", len(forms), len(conds), len(bad), ne),
		N:    int64(n),
		Run: func(t *core.T, i int64) {
			x := int(i)
			k := x % ne
			x /= ne
			ok := oks[x%2]
			x /= 2
			b := bad[x%len(bad)]
			x /= len(bad)
			c := conds[x%len(conds)]
			x /= len(conds)
			f := forms[x]
			e := f.f(c, b, ok)
			if CheckExpr(t, "sc:"+f.name, e, k) {
				t.Nontrivial()
			}
			t.SampleF(e.String)
		},
	}
}

// quick tier of `if`: every condition leaf x then/else over the 12-value sub-universe.
func ifQuickFamily(leaves []*Expr) *core.Family {
	br := gen.Leaves(gen.W)
	ne := len(refEnvs)
	n := len(leaves) * len(br) * len(br) * ne
	return &core.Family{
		Name: "l1-if",
		Desc: fmt.Sprintf("if: %d condition leaves x %d^2 branch leaves x %d environments (thorough: all %d^3)", len(leaves), len(br), ne, len(leaves)),
		N:    int64(n),
		Run: func(t *core.T, i int64) {
			x := int(i)
			k := x % ne
			x /= ne
			e := If(leaves[x/(len(br)*len(br))], br[x/len(br)%len(br)], br[x%len(br)])
			if CheckExpr(t, "if", e, k) {
				t.Nontrivial()
			}
			t.SampleF(e.String)
		},
	}
}
