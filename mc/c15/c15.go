// Package c15: validated policies cannot fail with type errors (E1).
package c15

import (
	"fmt"
	"strings"
	"sync"
	"time"

	"github.com/cedar-policy/cedar-go/types"
	"github.com/cedar-policy/cedar-go/verif/core"
	"github.com/cedar-policy/cedar-go/verif/gen"
	. "github.com/cedar-policy/cedar-go/verif/refsem"
	xast "github.com/cedar-policy/cedar-go/x/exp/ast"
	"github.com/cedar-policy/cedar-go/x/exp/eval"
	"github.com/cedar-policy/cedar-go/x/exp/schema"
	"github.com/cedar-policy/cedar-go/x/exp/schema/validate"
)

const schemaText = `
entity Group in [Group];
entity User in [Group] {
  name: String, age: Long, active: Bool,
  nick?: String, score?: Long, flag?: Bool,
  d: decimal, od?: decimal, ip: ipaddr, oip?: ipaddr, dt: datetime, odt?: datetime, du: duration, odu?: duration,
  labels: Set<String>, onums?: Set<Long>, friends: Set<User>, teams: Set<Group>,
  manager?: User, home: Group,
  addr: { city: String, zip?: Long }, oaddr?: { city: String, zip?: Long },
  "__tag:k"?: Long
} tags Long;
entity Doc in [Folder] { owner: User, size: Long, label?: String, name?: String, viewers: Set<User>, folders: Set<Folder> } tags String;
entity Folder in [Folder];
action view, edit in [readWrite] appliesTo { principal: [User, Group], resource: [Doc, Folder], context: { ok: Bool, n?: Long, who?: User, rec: { a: Long, b?: String }, "a.b": { c?: Long }, a: { b: { c?: Long } } } };
action readWrite;
action admin appliesTo { principal: User, resource: Doc, context: {} };
`

var (
	vStrict, vPerm *validate.Validator
	setupErr       error
)

func setup() {
	var s schema.Schema
	if err := s.UnmarshalCedar([]byte(schemaText)); err != nil {
		setupErr = err
		return
	}
	rs, err := s.Resolve()
	if err != nil {
		setupErr = err
		return
	}
	vStrict = validate.New(rs, validate.WithStrict())
	vPerm = validate.New(rs, validate.WithPermissive())
	buildEnvs()
}

func uid(t, id string) types.EntityUID {
	return types.NewEntityUID(types.EntityType(t), types.String(id))
}

func mustDec(s string) types.Value { d, _ := types.ParseDecimal(s); return d }
func mustIP(s string) types.Value  { d, _ := types.ParseIPAddr(s); return d }

// conforming environments --------------------------------------------------------

type env struct {
	desc string
	e    eval.Env
}

var envs []env
var envsSkipped int

func userAttrs(variant int) types.RecordMap {
	m := types.RecordMap{
		"name": types.String("alice"), "age": types.Long(30), "active": types.True,
		"d": mustDec("1.5"), "ip": mustIP("10.0.0.1"), "dt": types.NewDatetimeFromMillis(-1), "du": types.NewDurationFromMillis(1000),
		"labels": types.NewSet(types.String("a")), "home": uid("Group", "g1"),
		"addr": types.NewRecord(types.RecordMap{"city": types.String("x")}),
		// sets of entities: empty in the even variants (the empty set belongs to every set type)
		"friends": types.NewSet(), "teams": types.NewSet(),
	}
	if variant%2 == 1 {
		m["friends"] = types.NewSet(uid("User", "u2"))
		m["teams"] = types.NewSet(uid("Group", "g1"), uid("Group", "g2"))
	}
	opt := map[string]types.Value{
		"nick": types.String("al"), "score": types.Long(gen.MaxI), "flag": types.False, "od": mustDec("-0.0001"), "oip": mustIP("::1"),
		"odt": types.NewDatetimeFromMillis(0), "odu": types.NewDurationFromMillis(-1), "onums": types.NewSet(types.Long(1), types.Long(2)),
		"manager": uid("User", "u2"), "oaddr": types.NewRecord(types.RecordMap{"city": types.String("y"), "zip": types.Long(1)}),
	}
	names := []string{"nick", "score", "flag", "od", "oip", "odt", "odu", "onums", "manager", "oaddr"}
	for i, n := range names {
		present := false
		switch variant {
		case 0:
		case 1:
			present = true
		case 2:
			present = i%2 == 0
		case 3:
			present = i%2 == 1
		case 4:
			present = i%3 == 0
		case 5:
			present = i%3 != 0
		case 6:
			present = i < 2
		case 7:
			present = i == 2 || i > 5
		}
		if present {
			m[types.String(n)] = opt[n]
		}
	}
	if variant == 1 || variant == 2 {
		m["__tag:k"] = types.Long(1)
	}
	if variant == 1 || variant == 3 {
		m["addr"] = types.NewRecord(types.RecordMap{"city": types.String("x"), "zip": types.Long(7)})
	}
	return m
}

func buildEnvs() {
	envs = nil
	type reqT struct {
		p, a, r types.EntityUID
		ctxKind int // 0: view/edit context, 1: admin (empty)
	}
	reqs := []reqT{
		{uid("User", "u1"), uid("Action", "view"), uid("Doc", "d1"), 0},
		{uid("User", "u1"), uid("Action", "edit"), uid("Folder", "f1"), 0},
		{uid("Group", "g1"), uid("Action", "view"), uid("Doc", "d1"), 0},
		{uid("Group", "g1"), uid("Action", "edit"), uid("Folder", "f1"), 0},
		{uid("User", "u1"), uid("Action", "admin"), uid("Doc", "d1"), 1},
	}
	ctxs := []types.Record{
		types.NewRecord(types.RecordMap{"ok": types.True, "rec": types.NewRecord(types.RecordMap{"a": types.Long(1)}), "a.b": types.NewRecord(types.RecordMap{"c": types.Long(1)}), "a": types.NewRecord(types.RecordMap{"b": types.NewRecord(types.RecordMap{})})}),
		types.NewRecord(types.RecordMap{"ok": types.False, "n": types.Long(gen.MaxI), "who": uid("User", "u2"), "rec": types.NewRecord(types.RecordMap{"a": types.Long(-1), "b": types.String("s")}), "a.b": types.NewRecord(types.RecordMap{}), "a": types.NewRecord(types.RecordMap{"b": types.NewRecord(types.RecordMap{"c": types.Long(2)})})}),
		types.NewRecord(types.RecordMap{"ok": types.True, "n": types.Long(0), "rec": types.NewRecord(types.RecordMap{"a": types.Long(0)}), "a.b": types.NewRecord(types.RecordMap{"c": types.Long(1)}), "a": types.NewRecord(types.RecordMap{"b": types.NewRecord(types.RecordMap{})})}),
		types.NewRecord(types.RecordMap{"ok": types.True, "who": uid("User", "ghost"), "rec": types.NewRecord(types.RecordMap{"a": types.Long(2), "b": types.String("")}), "a.b": types.NewRecord(types.RecordMap{}), "a": types.NewRecord(types.RecordMap{"b": types.NewRecord(types.RecordMap{})})}),
	}
	for ri, rq := range reqs {
		for uv := 0; uv < 8; uv++ {
			for tagv := 0; tagv < 2; tagv++ {
				for dv := 0; dv < 2; dv++ {
					for presence := 0; presence < 3; presence++ {
						store := types.EntityMap{}
						tags := types.RecordMap{}
						dtags := types.RecordMap{}
						if tagv == 1 {
							tags["k"] = types.Long(1)
							dtags["k"] = types.String("v")
						}
						u1 := types.Entity{UID: uid("User", "u1"), Parents: types.NewEntityUIDSet(uid("Group", "g1")), Attributes: types.NewRecord(userAttrs(uv)), Tags: types.NewRecord(tags)}
						u2 := types.Entity{UID: uid("User", "u2"), Parents: types.NewEntityUIDSet(), Attributes: types.NewRecord(userAttrs((uv + 1) % 8)), Tags: types.NewRecord(types.RecordMap{})}
						g1 := types.Entity{UID: uid("Group", "g1"), Parents: types.NewEntityUIDSet(uid("Group", "g2"))}
						g2 := types.Entity{UID: uid("Group", "g2")}
						dattrs := types.RecordMap{"owner": uid("User", "u1"), "size": types.Long(5), "viewers": types.NewSet(), "folders": types.NewSet()}
						if dv == 1 {
							dattrs["viewers"] = types.NewSet(uid("User", "u2"))
							dattrs["folders"] = types.NewSet(uid("Folder", "f1"))
							dattrs["label"] = types.String("L")
							dattrs["name"] = types.String("doc")
						}
						d1 := types.Entity{UID: uid("Doc", "d1"), Parents: types.NewEntityUIDSet(uid("Folder", "f1")), Attributes: types.NewRecord(dattrs), Tags: types.NewRecord(dtags)}
						f1 := types.Entity{UID: uid("Folder", "f1"), Parents: types.NewEntityUIDSet(uid("Folder", "root"))}
						all := []types.Entity{u1, u2, g1, g2, d1, f1}
						for _, e := range all {
							switch presence {
							case 1: // principal and its manager absent from the store
								if e.UID == uid("User", "u1") || e.UID == uid("User", "u2") {
									continue
								}
							case 2: // resource and groups absent
								if e.UID.Type == "Doc" || e.UID.Type == "Folder" || e.UID == uid("Group", "g2") {
									continue
								}
							}
							store[e.UID] = e
						}
						// action entities with their hierarchy
						for _, a := range []string{"view", "edit"} {
							store[uid("Action", a)] = types.Entity{UID: uid("Action", a), Parents: types.NewEntityUIDSet(uid("Action", "readWrite"))}
						}
						store[uid("Action", "readWrite")] = types.Entity{UID: uid("Action", "readWrite")}
						store[uid("Action", "admin")] = types.Entity{UID: uid("Action", "admin")}
						var cs []types.Record
						if rq.ctxKind == 1 {
							cs = []types.Record{types.NewRecord(types.RecordMap{})}
						} else {
							cs = ctxs
						}
						for ci, c := range cs {
							r := types.Request{Principal: rq.p, Action: rq.a, Resource: rq.r, Context: c}
							// "conforming" = built from the schema; whether the validator's own conformance checks agree is counted
							// (counted only: every store and request here conforms by construction, and the
							// environments must not thin out if the conformance checks ever reject more)
							if vStrict.Entities(store) != nil || vStrict.Request(r) != nil {
								envsSkipped++
							}
							envs = append(envs, env{
								desc: fmt.Sprintf("request #%d (%s,%s,%s) context #%d; user variant %d, tags %d, doc variant %d, presence %d", ri, rq.p, rq.a, rq.r, ci, uv, tagv, dv, presence),
								e:    eval.Env{Entities: store, Principal: rq.p, Action: rq.a, Resource: rq.r, Context: c},
							})
						}
					}
				}
			}
		}
	}
}

// classification of evaluation errors ------------------------------------------------

func forbiddenClass(err error) string {
	m := err.Error()
	switch {
	case strings.Contains(m, "type error"):
		return "type-error"
	case strings.Contains(m, "function does not exist"):
		return "unknown-function"
	case strings.Contains(m, "wrong number of arguments"):
		return "arity"
	case strings.Contains(m, "does not have the attribute"):
		return "missing-attribute"
	case strings.Contains(m, "does not have the tag"):
		return "missing-tag"
	}
	return "" // overflow, entity does not exist, extension literal errors: allowed
}

// policies -----------------------------------------------------------------------------

type scope struct {
	name string
	mk   func() *xast.Policy
}

var scopes = []scope{
	{"all", func() *xast.Policy { return xast.Permit() }},
	{"user-view-doc", func() *xast.Policy {
		return xast.Permit().PrincipalIs("User").ActionEq(uid("Action", "view")).ResourceIs("Doc")
	}},
	{"group-edit-folder", func() *xast.Policy {
		return xast.Forbid().PrincipalIs("Group").ActionEq(uid("Action", "edit")).ResourceIs("Folder")
	}},
	{"in-in-in", func() *xast.Policy {
		return xast.Permit().PrincipalIn(uid("Group", "g1")).ActionIn(uid("Action", "readWrite")).ResourceIn(uid("Folder", "f1"))
	}},
	{"eq-inset-eq", func() *xast.Policy {
		return xast.Permit().PrincipalEq(uid("User", "u1")).ActionInSet(uid("Action", "view"), uid("Action", "admin")).ResourceEq(uid("Doc", "d1"))
	}},
	{"user-admin", func() *xast.Policy {
		return xast.Permit().PrincipalIsIn("User", uid("Group", "g1")).ActionEq(uid("Action", "admin"))
	}},
}

func path(root string, attrs ...string) *Expr {
	e := Var(root)
	for _, a := range attrs {
		e = Access(e, a)
	}
	return e
}

func leaves() []*Expr {
	return []*Expr{
		Var("principal"), Var("resource"), Var("context"), Var("action"),
		path("principal", "name"), path("principal", "age"), path("principal", "active"), path("principal", "nick"), path("principal", "score"),
		path("principal", "d"), path("principal", "od"), path("principal", "ip"), path("principal", "dt"), path("principal", "odt"), path("principal", "du"),
		path("principal", "labels"), path("principal", "onums"), path("principal", "manager"), path("principal", "home"), path("principal", "addr"), path("principal", "addr", "zip"), path("principal", "oaddr"),
		path("principal", "missing"), path("resource", "owner"), path("resource", "size"), path("resource", "label"), path("resource", "owner", "name"),
		path("context", "ok"), path("context", "n"), path("context", "who"), path("context", "rec"), path("context", "rec", "b"),
		L(Long(1)), L(Long(gen.MaxI)), L(Str("s")), L(Bool(true)), L(Entity("User", "u2")), L(Entity("Group", "g1")), L(Entity("Doc", "d1")),
		Ext("decimal", L(Str("1.0"))), Ext("ip", L(Str("10.0.0.0/8"))), Ext("datetime", L(Str("2024-01-01"))), Ext("duration", L(Str("1h"))), Ext("decimal", L(Str("bad"))),
		SetLit(L(Long(1))), SetLit(L(Str("a")), L(Str("b"))), RecLit([]string{"city"}, []*Expr{L(Str("x"))}),
	}
}

func leavesSmall() []*Expr {
	return []*Expr{Var("principal"), path("principal", "age"), path("principal", "nick"), path("principal", "manager"), path("resource", "owner"), path("context", "n"), path("context", "who"),
		L(Long(1)), L(Str("s")), L(Entity("User", "u2")), path("principal", "dt"), path("principal", "addr")}
}

var attrNames = []string{"name", "nick", "score", "manager", "zip", "missing", "owner", "label", "n", "who", "b", "city", "od", "onums"}
var typeNames = []string{"User", "Group", "Doc", "Folder", "Action", "Nope"}

func specs() []gen.OpSpec {
	var out []gen.OpSpec
	for _, s := range gen.Unary {
		if strings.HasPrefix(s.Name, "has:") || strings.HasPrefix(s.Name, "access:") || strings.HasPrefix(s.Name, "is:") {
			continue
		}
		out = append(out, s)
	}
	for _, n := range attrNames {
		n := n
		out = append(out, gen.OpSpec{Name: "has:" + n, Arity: 1, Build: func(a []*Expr) *Expr { return Has(a[0], n) }}, gen.OpSpec{Name: "access:" + n, Arity: 1, Build: func(a []*Expr) *Expr { return Access(a[0], n) }})
	}
	for _, n := range typeNames {
		n := n
		out = append(out, gen.OpSpec{Name: "is:" + n, Arity: 1, Build: func(a []*Expr) *Expr { return Is(a[0], n) }})
	}
	out = append(out, gen.OpSpec{Name: "call:nope", Arity: 1, Build: func(a []*Expr) *Expr { return Ext("nope", a[0]) }}, gen.OpSpec{Name: "call0:nope", Arity: 1, Build: func(a []*Expr) *Expr { return Bin(OEq, Ext("nope"), a[0]) }},
		gen.OpSpec{Name: "call0:decimal", Arity: 1, Build: func(a []*Expr) *Expr { return Bin(OEq, Ext("decimal"), a[0]) }}, gen.OpSpec{Name: "call2:isIpv4", Arity: 1, Build: func(a []*Expr) *Expr { return Ext("isIpv4", a[0], a[0]) }})
	for _, s := range gen.Binary {
		if strings.HasPrefix(s.Name, "isin:") {
			continue
		}
		out = append(out, s)
	}
	for _, n := range typeNames[:4] {
		n := n
		out = append(out, gen.OpSpec{Name: "isin:" + n, Arity: 2, Build: func(a []*Expr) *Expr { return IsIn(a[0], n, a[1]) }})
	}
	return out
}

var evaluated, accepted int64

// checkCond: place the condition in each scope; if a validator accepts the policy, run it on every conforming environment.
func checkCond(t *core.T, opName string, e *Expr, kinds []bool) bool {
	acc := false
	for _, when := range kinds {
		when := when
		if checkClauses(t, opName, func() string { return fmt.Sprintf("when=%v: %s", when, e.String()) }, func(pol *xast.Policy) {
			if when {
				pol.When(e.ToAST())
			} else {
				pol.Unless(e.ToAST())
			}
		}) {
			acc = true
		}
	}
	t.AddStates(1)
	return acc
}

// checkClauses: add the clauses to a policy of each scope form; if a validator accepts the
// policy, run it on every conforming environment.
func checkClauses(t *core.T, opName string, desc func() string, addClauses func(pol *xast.Policy)) bool {
	acc := false
	for _, sc := range scopes {
		{
			pol := sc.mk()
			addClauses(pol)
			okStrict, okPerm := false, false
			in := func() string { return fmt.Sprintf("scope %s, %s", sc.name, desc()) }
			if t.Protect("validate:"+opName, in(), func() { okStrict = vStrict.Policy("p", pol) == nil; okPerm = vPerm.Policy("p", pol) == nil }) {
				continue
			}
			if !okStrict && !okPerm {
				continue
			}
			acc = true
			mode := "strict"
			if !okStrict {
				mode = "permissive-only"
			}
			node := eval.PolicyToNode(pol).AsIsNode()
			for _, en := range envs {
				var err error
				if t.Protect("eval:"+opName, in()+" ; "+en.desc, func() { _, err = eval.Eval(node, en.e) }) {
					break
				}
				if err == nil {
					continue
				}
				if c := forbiddenClass(err); c != "" {
					t.Fail(fmt.Sprintf("validated-policy-fails:%s:%s:%s", c, opName, mode), in()+" ; "+en.desc, "no type / arity / unknown-function / missing-attribute / missing-tag error (policy accepted by the validator, "+mode+")", err.Error())
					break
				}
			}
			t.AddTrans(int64(len(envs)))
		}
	}
	return acc
}

// guards in one clause, uses in another: the clauses of a policy are conjoined left to
// right, so what `when { G }` establishes holds in later clauses, what `unless { G }`
// establishes is NOT G, and nothing flows backwards.
func clauseGuards() *core.Family {
	type target struct {
		base *Expr
		attr string
	}
	targets := []target{
		{Var("principal"), "nick"}, {Var("principal"), "manager"}, {Var("principal"), "name"}, {path("principal", "addr"), "zip"}, {Var("resource"), "label"},
		{Var("context"), "n"}, {Var("context"), "who"}, {path("context", "rec"), "b"},
	}
	uses := []func(x *Expr) *Expr{
		func(x *Expr) *Expr { return Bin(OEq, x, L(Str("s"))) },
		func(x *Expr) *Expr { return Bin(OLt, x, L(Long(1))) },
		func(x *Expr) *Expr { return Bin(OEq, Access(x, "nick"), L(Str("s"))) },
	}
	type clause struct {
		when bool
		body func(has, use *Expr) *Expr
	}
	type form struct {
		name string
		cl   []clause
	}
	H := func(h, u *Expr) *Expr { return h }
	NH := func(h, u *Expr) *Expr { return Un(ONot, h) }
	U := func(h, u *Expr) *Expr { return u }
	T := func(h, u *Expr) *Expr { return path("context", "ok") }
	forms := []form{
		{"when{has} when{use}", []clause{{true, H}, {true, U}}},
		{"unless{has} when{use}", []clause{{false, H}, {true, U}}},
		{"unless{!has} when{use}", []clause{{false, NH}, {true, U}}},
		{"when{!has} when{use}", []clause{{true, NH}, {true, U}}},
		{"when{use} when{has}", []clause{{true, U}, {true, H}}},
		{"when{has} unless{use}", []clause{{true, H}, {false, U}}},
		{"unless{has} unless{use}", []clause{{false, H}, {false, U}}},
		{"unless{!has} unless{use}", []clause{{false, NH}, {false, U}}},
		{"when{has} when{ok} when{use}", []clause{{true, H}, {true, T}, {true, U}}},
		{"unless{has} when{ok} when{use}", []clause{{false, H}, {true, T}, {true, U}}},
		{"when{has} unless{ok} when{use}", []clause{{true, H}, {false, T}, {true, U}}},
		{"when{ok} unless{has} unless{ok} when{use}", []clause{{true, T}, {false, H}, {false, T}, {true, U}}},
	}
	tagForms := len(forms)
	n := len(targets) * len(targets) * len(uses) * len(forms)
	tagEnts := []*Expr{Var("principal"), Var("resource"), path("resource", "owner")}
	nTag := len(tagEnts) * len(tagEnts) * tagForms
	return &core.Family{
		Name: "guards-across-clauses",
		Desc: fmt.Sprintf("%d multi-clause forms (guard in a when / unless clause, use in a later or earlier when / unless clause, with clauses in between) x %d guarded paths x %d used paths x %d uses, and the same forms with hasTag / getTag on %d^2 entity expressions", len(forms), len(targets), len(targets), len(uses), len(tagEnts)),
		N:    int64(n + nTag),
		Run: func(t *core.T, i int64) {
			x := int(i)
			var f form
			var has, use *Expr
			if x < n {
				f = forms[x%len(forms)]
				x /= len(forms)
				u := uses[x%len(uses)]
				x /= len(uses)
				tu := targets[x%len(targets)]
				th := targets[x/len(targets)]
				has, use = Has(th.base, th.attr), u(Access(tu.base, tu.attr))
			} else {
				x -= n
				f = forms[x%tagForms]
				x /= tagForms
				eu := tagEnts[x%len(tagEnts)]
				eh := tagEnts[x/len(tagEnts)]
				has, use = Bin(OHasTag, eh, L(Str("k"))), Bin(OEq, Bin(OGetTag, eu, L(Str("k"))), L(Long(1)))
			}
			desc := func() string { return f.name + " with has=" + has.String() + " use=" + use.String() }
			if checkClauses(t, "clauses:"+f.name, desc, func(pol *xast.Policy) {
				for _, c := range f.cl {
					if c.when {
						pol.When(c.body(has, use).ToAST())
					} else {
						pol.Unless(c.body(has, use).ToAST())
					}
				}
			}) {
				t.Nontrivial()
			}
			t.AddStates(1)
			t.SampleF(desc)
		},
	}
}

// ---------------------------------------------------------------------------
// Totality view (used by C16): the same policy space, index-addressable, plus set literals
// of three elements over operands of every type including entity-type unions and record
// unions (ill-typed sets make the validator sort and render the element types). C16 only
// asks that validation returns.

var totalOnce sync.Once
var totalUn, totalBin []gen.OpSpec
var totalLeaves, totalSetElems []*Expr

func totalInit() {
	totalOnce.Do(func() {
		setup()
		for _, sp := range specs() {
			switch sp.Arity {
			case 1:
				totalUn = append(totalUn, sp)
			case 2:
				totalBin = append(totalBin, sp)
			}
		}
		totalLeaves = leaves()
		ok := path("context", "ok")
		u, g, d := L(Entity("User", "u2")), L(Entity("Group", "g1")), L(Entity("Doc", "d1"))
		totalSetElems = []*Expr{u, g, d, If(ok, u, g), If(ok, g, u), If(ok, u, u), If(ok, If(ok, u, g), d), If(ok, d, If(ok, g, u)), L(Long(1)), L(Str("s")),
			RecLit([]string{"a"}, []*Expr{g}), If(ok, RecLit([]string{"a"}, []*Expr{g}), RecLit([]string{"a"}, []*Expr{u})), Var("principal"), Var("resource"), path("context", "who"), SetLit(g), SetLit(If(ok, g, u))}
	})
}

// TotalityValidators returns the strict and the permissive validator of the C15 schema (nil, nil, err if it does not resolve).
func TotalityValidators() (*validate.Validator, *validate.Validator, error) {
	totalInit()
	return vStrict, vPerm, setupErr
}

// TotalityN is the number of policies of the totality view.
func TotalityN() int64 {
	totalInit()
	nl := int64(len(totalLeaves))
	ne := int64(len(totalSetElems))
	return int64(len(totalUn))*nl + int64(len(totalBin))*32*32 + 3*ne*ne*ne
}

// TotalityPolicy returns policy i of the totality view and a description.
func TotalityPolicy(i int64) (string, *xast.Policy) {
	totalInit()
	nl := int64(len(totalLeaves))
	ne := int64(len(totalSetElems))
	var e *Expr
	switch {
	case i < int64(len(totalUn))*nl:
		e = totalUn[i/nl].Build([]*Expr{totalLeaves[i%nl]})
	case i < int64(len(totalUn))*nl+int64(len(totalBin))*1024:
		j := i - int64(len(totalUn))*nl
		e = totalBin[j/1024].Build([]*Expr{totalLeaves[j%1024/32], totalLeaves[j%32]})
	default:
		j := i - int64(len(totalUn))*nl - int64(len(totalBin))*1024
		form := j / (ne * ne * ne)
		j %= ne * ne * ne
		set := SetLit(totalSetElems[j/(ne*ne)], totalSetElems[j/ne%ne], totalSetElems[j%ne])
		switch form {
		case 0:
			e = Bin(OContains, set, Var("principal"))
		case 1:
			e = Bin(OEq, set, SetLit(L(Long(1))))
		default:
			e = Bin(OIn, Var("principal"), set)
		}
	}
	return e.String(), scopes[int(i)%len(scopes)].mk().When(e.ToAST())
}

func pow(b, e int) int64 {
	r := int64(1)
	for i := 0; i < e; i++ {
		r *= int64(b)
	}
	return r
}

func depth1(name string, sp []gen.OpSpec, lv []*Expr, arity int) *core.Family {
	var use []gen.OpSpec
	for _, s := range sp {
		if s.Arity == arity {
			use = append(use, s)
		}
	}
	nl := int64(len(lv))
	per := pow(len(lv), arity)
	return &core.Family{
		Name: name,
		Desc: fmt.Sprintf("%d operator forms x %d leaves^%d (variables, existing / optional / missing attribute paths, literals and extension values of every type) x %d scopes x {when, unless} x both modes; every accepted policy on %d conforming environments", len(use), nl, arity, len(scopes), len(envs)),
		N:    int64(len(use)) * per,
		Run: func(t *core.T, i int64) {
			s := use[i/per]
			r := i % per
			args := make([]*Expr, arity)
			for j := arity - 1; j >= 0; j-- {
				args[j] = lv[r%nl]
				r /= nl
			}
			e := s.Build(args)
			if checkCond(t, s.Name, e, []bool{true}) {
				t.Nontrivial()
			}
			t.SampleF(e.String)
		},
	}
}

// guard patterns (depth <= 3): the capability mechanism.
func guards(tier string) *core.Family {
	type target struct {
		base *Expr
		attr string
	}
	targets := []target{
		{Var("principal"), "nick"}, {Var("principal"), "score"}, {Var("principal"), "manager"}, {Var("principal"), "oaddr"}, {Var("principal"), "name"}, {Var("principal"), "missing"},
		{path("principal", "addr"), "zip"}, {path("principal", "oaddr"), "zip"}, {Var("resource"), "label"}, {Var("resource"), "owner"}, {path("resource", "owner"), "nick"},
		{Var("context"), "n"}, {Var("context"), "who"}, {path("context", "rec"), "b"}, {path("context", "who"), "nick"}, {path("principal", "manager"), "nick"}, {path("principal", "manager"), "manager"},
	}
	uses := []func(x *Expr) *Expr{
		func(x *Expr) *Expr { return Bin(OEq, x, L(Long(1))) },
		func(x *Expr) *Expr { return Bin(OEq, x, L(Str("s"))) },
		func(x *Expr) *Expr { return Bin(OLt, x, L(Long(1))) },
		func(x *Expr) *Expr { return Bin(OAdd, x, L(Long(1))) },
		func(x *Expr) *Expr { return Like(x, PatElem{Wild: true}) },
		func(x *Expr) *Expr { return Bin(OEq, Access(x, "name"), L(Str("s"))) },
		func(x *Expr) *Expr { return Bin(OEq, Access(x, "nick"), L(Str("s"))) },
		func(x *Expr) *Expr { return Has(x, "nick") },
		func(x *Expr) *Expr { return Bin(OIn, x, L(Entity("Group", "g1"))) },
		func(x *Expr) *Expr { return Bin(OEq, Access(x, "zip"), L(Long(1))) },
	}
	type form struct {
		name string
		f    func(has, use, other *Expr) *Expr
	}
	forms := []form{
		{"has&&use", func(h, u, o *Expr) *Expr { return Bin(OAnd, h, u) }},
		{"use&&has", func(h, u, o *Expr) *Expr { return Bin(OAnd, u, h) }},
		{"!has||use", func(h, u, o *Expr) *Expr { return Bin(OOr, Un(ONot, h), u) }},
		{"has||use", func(h, u, o *Expr) *Expr { return Bin(OOr, h, u) }},
		{"if-has-use-true", func(h, u, o *Expr) *Expr { return If(h, u, L(Bool(true))) }},
		{"if-has-true-use", func(h, u, o *Expr) *Expr { return If(h, L(Bool(true)), u) }},
		{"(has&&other)&&use", func(h, u, o *Expr) *Expr { return Bin(OAnd, Bin(OAnd, h, o), u) }},
		{"(has||other)&&use", func(h, u, o *Expr) *Expr { return Bin(OAnd, Bin(OOr, h, o), u) }},
		{"(other&&has)&&use", func(h, u, o *Expr) *Expr { return Bin(OAnd, Bin(OAnd, o, h), u) }},
		{"!(!has)&&use", func(h, u, o *Expr) *Expr { return Bin(OAnd, Un(ONot, Un(ONot, h)), u) }},
		{"!has&&use", func(h, u, o *Expr) *Expr { return Bin(OAnd, Un(ONot, h), u) }},
		{"has==true&&use", func(h, u, o *Expr) *Expr { return Bin(OAnd, Bin(OEq, h, L(Bool(true))), u) }},
		{"if-other-has-false&&use", func(h, u, o *Expr) *Expr { return Bin(OAnd, If(o, h, L(Bool(false))), u) }},
		{"if-other-has-true&&use", func(h, u, o *Expr) *Expr { return Bin(OAnd, If(o, h, L(Bool(true))), u) }},
		{"unguarded", func(h, u, o *Expr) *Expr { return u }},
	}
	others := []*Expr{path("context", "ok"), Has(Var("principal"), "flag")}
	if tier != "thorough" {
		others = others[:1] // the second side condition only in the thorough tier
	}
	n := len(targets) * len(targets) * len(uses) * len(forms) * len(others)
	return &core.Family{
		Name: "has-guards",
		Desc: fmt.Sprintf("%d guard forms (has && use, use && has, !has || use, if-then-else, nested and negated guards, unguarded) x %d guarded paths x %d used paths (same or different) x %d uses x %d side condition(s): capabilities must cover exactly the guarded attribute", len(forms), len(targets), len(targets), len(uses), len(others)),
		N:    int64(n),
		Run: func(t *core.T, i int64) {
			x := int(i)
			o := others[x%len(others)]
			x /= len(others)
			f := forms[x%len(forms)]
			x /= len(forms)
			u := uses[x%len(uses)]
			x /= len(uses)
			tu := targets[x%len(targets)]
			x /= len(targets)
			th := targets[x]
			e := f.f(Has(th.base, th.attr), u(Access(tu.base, tu.attr)), o)
			if checkCond(t, "guard:"+f.name, e, []bool{true, false}) {
				t.Nontrivial()
			}
			t.SampleF(e.String)
		},
	}
}

// entity-type unions: `if c then A else B` over entity-typed operands of different
// types (accepted in permissive mode only) gives a value whose type is a union; an
// attribute (or tag) of the union is safe to read unguarded only if it is required
// on EVERY member type (User.name is required, Doc.name optional, Group has none).
func unions() *core.Family {
	ents := []*Expr{Var("principal"), Var("resource"), path("context", "who"), path("resource", "owner"), L(Entity("User", "u2")), L(Entity("Doc", "d1")), L(Entity("Group", "g1"))}
	conds := []*Expr{path("context", "ok"), Has(Var("principal"), "nick")}
	attrs := []string{"name", "label", "nick", "owner", "size", "manager", "missing"}
	type use struct {
		name string
		f    func(u *Expr) *Expr
	}
	var uses []use
	for _, a := range attrs {
		a := a
		uses = append(uses,
			use{"access:" + a, func(u *Expr) *Expr { return Bin(OEq, Access(u, a), L(Str("s"))) }},
			use{"has&&access:" + a, func(u *Expr) *Expr { return Bin(OAnd, Has(u, a), Bin(OEq, Access(u, a), L(Str("s")))) }},
			use{"access-long:" + a, func(u *Expr) *Expr { return Bin(OLt, Access(u, a), L(Long(1))) }},
		)
	}
	uses = append(uses,
		use{"getTag", func(u *Expr) *Expr { return Bin(OEq, Bin(OGetTag, u, L(Str("k"))), L(Long(1))) }},
		use{"hasTag&&getTag", func(u *Expr) *Expr {
			return Bin(OAnd, Bin(OHasTag, u, L(Str("k"))), Bin(OEq, Bin(OGetTag, u, L(Str("k"))), L(Long(1))))
		}},
		use{"hasTag&&getTag-like", func(u *Expr) *Expr {
			return Bin(OAnd, Bin(OHasTag, u, L(Str("k"))), Like(Bin(OGetTag, u, L(Str("k"))), PatElem{Wild: true}))
		}},
		use{"in", func(u *Expr) *Expr { return Bin(OIn, u, L(Entity("Group", "g1"))) }},
		use{"owner.name", func(u *Expr) *Expr { return Bin(OEq, Access(Access(u, "owner"), "name"), L(Str("s"))) }},
		use{"manager.nick", func(u *Expr) *Expr { return Bin(OEq, Access(Access(u, "manager"), "nick"), L(Str("s"))) }},
		use{"set-contains", func(u *Expr) *Expr { return Bin(OContains, SetLit(L(Entity("User", "u2")), L(Entity("Doc", "d1"))), u) }},
	)
	n := len(conds) * len(ents) * len(ents) * len(uses)
	return &core.Family{
		Name: "entity-type-unions",
		Desc: fmt.Sprintf("(if c then A else B) for %d conditions x %d^2 entity-typed operands (variables, entity-typed attributes, literals of three types) x %d uses (attribute access unguarded / guarded on attributes required, optional or absent per member type; tags; in; nested access)", len(conds), len(ents), len(uses)),
		N:    int64(n),
		Run: func(t *core.T, i int64) {
			x := int(i)
			u := uses[x%len(uses)]
			x /= len(uses)
			b := ents[x%len(ents)]
			x /= len(ents)
			a := ents[x%len(ents)]
			x /= len(ents)
			e := u.f(If(conds[x], a, b))
			if checkCond(t, "union:"+u.name, e, []bool{true}) {
				t.Nontrivial()
			}
			t.SampleF(e.String)
		},
	}
}

// action-in folding: `action in <set or entity>` is typed True / False from the schema's
// action hierarchy when its right side names concrete actions, and the branch behind a
// False (or True) guard is then not checked. The guard must really have that value at run
// time: sets mixing literals with non-literal elements must not be folded from the literals.
func actionInGuards() *core.Family {
	act := func(id string) *Expr { return L(Entity("Action", id)) }
	ok := path("context", "ok")
	elems := []*Expr{act("view"), act("edit"), act("admin"), act("readWrite"), If(ok, act("view"), act("edit")), If(ok, act("edit"), act("admin")), Var("action")}
	var rhs []*Expr
	for _, a := range elems {
		rhs = append(rhs, a, SetLit(a))
		for _, b := range elems {
			rhs = append(rhs, SetLit(a, b))
			for _, c := range elems {
				rhs = append(rhs, SetLit(a, b, c))
			}
		}
	}
	uses := []*Expr{
		Bin(OEq, path("principal", "nick"), L(Str("s"))),   // optional attribute, unguarded
		Bin(OEq, path("principal", "missing"), L(Long(1))), // no such attribute
		Bin(OLt, path("principal", "name"), L(Long(1))),    // type error
		Bin(OEq, Bin(OGetTag, Var("principal"), L(Str("k"))), L(Long(1))),
	}
	type form struct {
		name string
		f    func(a, u *Expr) *Expr
	}
	forms := []form{
		{"A&&U", func(a, u *Expr) *Expr { return Bin(OAnd, a, u) }},
		{"!A||U", func(a, u *Expr) *Expr { return Bin(OOr, Un(ONot, a), u) }},
		{"A||U", func(a, u *Expr) *Expr { return Bin(OOr, a, u) }},
		{"!A&&U", func(a, u *Expr) *Expr { return Bin(OAnd, Un(ONot, a), u) }},
		{"if-A-U-true", func(a, u *Expr) *Expr { return If(a, u, L(Bool(true))) }},
		{"if-A-true-U", func(a, u *Expr) *Expr { return If(a, L(Bool(true)), u) }},
	}
	n := len(rhs) * len(uses) * len(forms)
	return &core.Family{
		Name: "action-in-guards",
		Desc: fmt.Sprintf("`action in R` as a guard in %d short-circuit forms in front of %d unsafe uses, for %d right sides R (an action, or a set of 1..3 elements over 4 action literals incl. an action group, 2 if-then-else expressions over action literals and the variable `action`)", len(forms), len(uses), len(rhs)),
		N:    int64(n),
		Run: func(t *core.T, i int64) {
			x := int(i)
			f := forms[x%len(forms)]
			x /= len(forms)
			u := uses[x%len(uses)]
			r := rhs[x/len(uses)]
			e := f.f(Bin(OIn, Var("action"), r), u)
			if checkCond(t, "action-in:"+f.name, e, []bool{true}) {
				t.Nontrivial()
			}
			t.SampleF(e.String)
		},
	}
}

// entity-in folding: `e in R` is typed False when no entity type of R can be an ancestor
// type of e (and the branch behind a False guard is not checked). For a right side that is
// a union of entity types EVERY member type has to be unrelated, whatever their order.
func entityInGuards() *core.Family {
	ent := func(t, id string) *Expr { return L(Entity(t, id)) }
	ok := path("context", "ok")
	lits := []*Expr{ent("User", "u2"), ent("Group", "g1"), ent("Group", "g2"), ent("Doc", "d1"), ent("Folder", "f1")}
	var rhs []*Expr
	for _, a := range lits {
		rhs = append(rhs, a, SetLit(a))
		for _, b := range lits {
			rhs = append(rhs, SetLit(a, b), If(ok, a, b))
			for _, c := range lits[1:4] {
				rhs = append(rhs, SetLit(a, b, c))
			}
		}
	}
	lhs := []*Expr{Var("principal"), Var("resource"), path("context", "who"), path("resource", "owner"), path("principal", "home")}
	uses := []*Expr{
		Bin(OEq, path("principal", "nick"), L(Str("s"))),
		Bin(OLt, path("principal", "name"), L(Long(1))),
		Bin(OEq, path("resource", "missing"), L(Long(1))),
	}
	type form struct {
		name string
		f    func(a, u *Expr) *Expr
	}
	forms := []form{
		{"A&&U", func(a, u *Expr) *Expr { return Bin(OAnd, a, u) }},
		{"!A||U", func(a, u *Expr) *Expr { return Bin(OOr, Un(ONot, a), u) }},
		{"if-A-U-true", func(a, u *Expr) *Expr { return If(a, u, L(Bool(true))) }},
		{"A||U", func(a, u *Expr) *Expr { return Bin(OOr, a, u) }},
	}
	n := len(lhs) * len(rhs) * len(uses) * len(forms)
	return &core.Family{
		Name: "entity-in-guards",
		Desc: fmt.Sprintf("`e in R` as a guard in %d short-circuit forms in front of %d unsafe uses, for %d entity-typed left sides and %d right sides R (an entity, sets of 1..3 entities and if-then-else over entities of 4 types in every order: single types and unions, related and unrelated to e)", len(forms), len(uses), len(lhs), len(rhs)),
		N:    int64(n),
		Run: func(t *core.T, i int64) {
			x := int(i)
			f := forms[x%len(forms)]
			x /= len(forms)
			u := uses[x%len(uses)]
			x /= len(uses)
			r := rhs[x%len(rhs)]
			l := lhs[x/len(rhs)]
			e := f.f(Bin(OIn, l, r), u)
			if checkCond(t, "entity-in:"+f.name, e, []bool{true}) {
				t.Nontrivial()
			}
			t.SampleF(e.String)
		},
	}
}

// capabilities are keyed by (access path, attribute): two DIFFERENT paths or attributes
// must never share a key, whatever characters the attribute names contain.
func capabilityKeys() *core.Family {
	ab := Access(Var("context"), "a.b")             // context["a.b"]
	a_b := Access(Access(Var("context"), "a"), "b") // context.a.b
	type cse struct {
		name string
		e    *Expr
	}
	use := func(x *Expr) *Expr { return Bin(OEq, Access(x, "c"), L(Long(1))) }
	cases := []cse{
		{"has on context[\"a.b\"], use of context.a.b", Bin(OAnd, Has(ab, "c"), use(a_b))},
		{"has on context.a.b, use of context[\"a.b\"]", Bin(OAnd, Has(a_b, "c"), use(ab))},
		{"same path (sound)", Bin(OAnd, Has(ab, "c"), use(ab))},
		{"same path (sound) 2", Bin(OAnd, Has(a_b, "c"), use(a_b))},
		{"has \"__tag:k\" then getTag(k)", Bin(OAnd, Has(Var("principal"), "__tag:k"), Bin(OEq, Bin(OGetTag, Var("principal"), L(Str("k"))), L(Long(1))))},
		{"hasTag(k) then .\"__tag:k\"", Bin(OAnd, Bin(OHasTag, Var("principal"), L(Str("k"))), Bin(OEq, Access(Var("principal"), "__tag:k"), L(Long(1))))},
		{"if-form: has on context[\"a.b\"], use of context.a.b", If(Has(ab, "c"), use(a_b), L(Bool(true)))},
	}
	return &core.Family{
		Name: "capability-key-collisions",
		Desc: fmt.Sprintf("%d guard / use pairs whose access paths or attribute names differ but could be confused by a textual capability key: context[\"a.b\"] vs context.a.b, an attribute literally named __tag:k vs the tag k", len(cases)),
		N:    int64(len(cases)),
		Run: func(t *core.T, i int64) {
			c := cases[i]
			if checkCond(t, "capability-key:"+c.name, c.e, []bool{true}) {
				t.Nontrivial()
			}
			t.Sample(c.name + ": " + c.e.String())
		},
	}
}

// tag guards
func tagGuards() *core.Family {
	ents := []*Expr{Var("principal"), Var("resource"), path("resource", "owner"), path("principal", "manager"), L(Entity("User", "u2"))}
	keys := []*Expr{L(Str("k")), L(Str("other")), path("principal", "name"), path("context", "rec", "b")}
	forms := []struct {
		name string
		f    func(e1, k1, e2, k2 *Expr) *Expr
	}{
		{"hasTag&&getTag", func(e1, k1, e2, k2 *Expr) *Expr {
			return Bin(OAnd, Bin(OHasTag, e1, k1), Bin(OEq, Bin(OGetTag, e2, k2), L(Long(1))))
		}},
		{"hasTag&&getTag-string", func(e1, k1, e2, k2 *Expr) *Expr {
			return Bin(OAnd, Bin(OHasTag, e1, k1), Bin(OEq, Bin(OGetTag, e2, k2), L(Str("v"))))
		}},
		{"getTag-unguarded", func(e1, k1, e2, k2 *Expr) *Expr { return Bin(OEq, Bin(OGetTag, e2, k2), L(Long(1))) }},
		{"!hasTag||getTag", func(e1, k1, e2, k2 *Expr) *Expr {
			return Bin(OOr, Un(ONot, Bin(OHasTag, e1, k1)), Bin(OLt, Bin(OGetTag, e2, k2), L(Long(1))))
		}},
		{"hasTag||getTag", func(e1, k1, e2, k2 *Expr) *Expr {
			return Bin(OOr, Bin(OHasTag, e1, k1), Bin(OLt, Bin(OGetTag, e2, k2), L(Long(1))))
		}},
		{"if-hasTag-getTag", func(e1, k1, e2, k2 *Expr) *Expr {
			return If(Bin(OHasTag, e1, k1), Bin(OEq, Bin(OAdd, Bin(OGetTag, e2, k2), L(Long(1))), L(Long(2))), L(Bool(false)))
		}},
	}
	n := len(forms) * len(ents) * len(keys) * len(ents) * len(keys)
	return &core.Family{
		Name: "tag-guards",
		Desc: fmt.Sprintf("%d tag guard forms x %d entities x %d keys for the guard and for the access (same or different): getTag must be covered by a hasTag on the same entity and key, and typed by the entity's tag type", len(forms), len(ents), len(keys)),
		N:    int64(n),
		Run: func(t *core.T, i int64) {
			x := int(i)
			k2 := keys[x%len(keys)]
			x /= len(keys)
			e2 := ents[x%len(ents)]
			x /= len(ents)
			k1 := keys[x%len(keys)]
			x /= len(keys)
			e1 := ents[x%len(ents)]
			x /= len(ents)
			e := forms[x].f(e1, k1, e2, k2)
			if checkCond(t, "tag:"+forms[x].name, e, []bool{true, false}) {
				t.Nontrivial()
			}
			t.SampleF(e.String)
		},
	}
}

// combinations of three guards: what a conjunction, a disjunction and an if-then-else of
// guards establish is the union, the intersection and (condition + then) ∩ else of what
// their parts establish; with three different guarded attributes the two sides of an
// intersection have different sizes in every way.
func guardCombinations() *core.Family {
	tg := [][2]string{{"principal", "nick"}, {"principal", "score"}, {"principal", "flag"}}
	h := func(i int) *Expr { return Has(Var(tg[i][0]), tg[i][1]) }
	type form struct {
		name string
		e    *Expr
	}
	var forms []form
	ops := []struct {
		n  string
		op Op
	}{{"&&", OAnd}, {"||", OOr}}
	nm := func(i int) string { return tg[i][1] }
	for a := 0; a < 3; a++ {
		forms = append(forms, form{nm(a), h(a)})
		for b := 0; b < 3; b++ {
			for _, o := range ops {
				forms = append(forms, form{fmt.Sprintf("%s%s%s", nm(a), o.n, nm(b)), Bin(o.op, h(a), h(b))})
			}
			for c := 0; c < 3; c++ {
				forms = append(forms, form{fmt.Sprintf("if %s then %s else %s", nm(a), nm(b), nm(c)), If(h(a), h(b), h(c))})
				for _, o1 := range ops {
					for _, o2 := range ops {
						forms = append(forms,
							form{fmt.Sprintf("(%s%s%s)%s%s", nm(a), o1.n, nm(b), o2.n, nm(c)), Bin(o2.op, Bin(o1.op, h(a), h(b)), h(c))},
							form{fmt.Sprintf("%s%s(%s%s%s)", nm(a), o2.n, nm(b), o1.n, nm(c)), Bin(o2.op, h(a), Bin(o1.op, h(b), h(c)))})
					}
					for d := 0; d < 3; d++ {
						forms = append(forms,
							form{fmt.Sprintf("if %s then (%s%s%s) else %s", nm(d), nm(a), o1.n, nm(b), nm(c)), If(h(d), Bin(o1.op, h(a), h(b)), h(c))},
							form{fmt.Sprintf("if %s then %s else (%s%s%s)", nm(d), nm(c), nm(a), o1.n, nm(b)), If(h(d), h(c), Bin(o1.op, h(a), h(b)))},
							form{fmt.Sprintf("if (%s%s%s) then %s else %s", nm(a), o1.n, nm(b), nm(c), nm(d)), If(Bin(o1.op, h(a), h(b)), h(c), h(d))})
					}
				}
			}
		}
	}
	uses := []func(g *Expr, k int) *Expr{
		func(g *Expr, k int) *Expr { x := Access(Var(tg[k][0]), tg[k][1]); return Bin(OAnd, g, Bin(OEq, x, x)) },
		func(g *Expr, k int) *Expr {
			x := Access(Var(tg[k][0]), tg[k][1])
			return If(g, Bin(OEq, x, x), L(Bool(false)))
		},
		func(g *Expr, k int) *Expr {
			x := Access(Var(tg[k][0]), tg[k][1])
			return Bin(OOr, Un(ONot, g), Bin(OEq, x, x))
		},
	}
	n := len(forms) * len(uses) * 3
	return &core.Family{
		Name: "guard-combinations",
		Desc: fmt.Sprintf("%d combinations of up to four `has` guards over three optional attributes (every &&/|| tree of 1-3 guards, every if-then-else of guards, if-then-else with one compound part) x %d ways of using the result x each of the 3 attributes read", len(forms), len(uses)),
		N:    int64(n),
		Run: func(t *core.T, i int64) {
			x := int(i)
			k := x % 3
			x /= 3
			u := uses[x%len(uses)]
			f := forms[x/len(uses)]
			e := u(f.e, k)
			if checkCond(t, "guard-combination", e, []bool{true}) {
				t.Nontrivial()
			}
			t.SampleF(e.String)
		},
	}
}

// guards whose type is a singleton boolean: when the validator types `g` as False (or True)
// it does not look at the operand that `g && x`, `!g || x`, `if g then x else ..` never
// evaluates. If `g` can in fact hold at run time, an ill-typed `x` runs. The guards are every
// == / != between two entity-typed or set-of-entity-typed operands (disjoint or overlapping
// types; the conforming stores hold empty and non-empty sets) and every `is` test.
func singletonGuards() *core.Family {
	ops := []*Expr{
		Var("principal"), Var("resource"), path("principal", "home"), path("principal", "manager"), path("resource", "owner"), L(Entity("User", "u1")), L(Entity("Group", "g1")),
		path("principal", "friends"), path("principal", "teams"), path("resource", "viewers"), path("resource", "folders"), path("principal", "labels"),
		SetLit(Var("principal")), SetLit(L(Entity("Group", "g1"))), SetLit(Var("resource")),
	}
	bads := []*Expr{
		Bin(OLt, path("principal", "name"), L(Long(1))),
		Bin(OLt, path("principal", "friends"), L(Long(0))),
		Bin(OEq, Access(Var("principal"), "nosuch"), L(Long(1))),
	}
	type form struct {
		name string
		f    func(g, bad *Expr) *Expr
	}
	forms := []form{
		{"g&&bad", func(g, b *Expr) *Expr { return Bin(OAnd, g, b) }},
		{"!g||bad", func(g, b *Expr) *Expr { return Bin(OOr, Un(ONot, g), b) }},
		{"if-g-bad-true", func(g, b *Expr) *Expr { return If(g, b, L(Bool(true))) }},
		{"!g&&bad", func(g, b *Expr) *Expr { return Bin(OAnd, Un(ONot, g), b) }},
		{"g||bad", func(g, b *Expr) *Expr { return Bin(OOr, g, b) }},
		{"if-g-true-bad", func(g, b *Expr) *Expr { return If(g, L(Bool(true)), b) }},
	}
	n := len(ops) * len(ops) * 2 * len(bads) * len(forms)
	return &core.Family{
		Name: "singleton-typed-guards",
		Desc: fmt.Sprintf("%d x %d operand pairs (entities and sets of entities of equal, overlapping and disjoint types, from the request, the store and literals) under == and != as the guard of %d ill-typed expressions in %d guard forms; the stores hold empty and non-empty sets", len(ops), len(ops), len(bads), len(forms)),
		N:    int64(n),
		Run: func(t *core.T, i int64) {
			x := int(i)
			f := forms[x%len(forms)]
			x /= len(forms)
			b := bads[x%len(bads)]
			x /= len(bads)
			op := []Op{OEq, ONe}[x%2]
			x /= 2
			l, r := ops[x%len(ops)], ops[x/len(ops)]
			e := f.f(Bin(op, l, r), b)
			if checkCond(t, "singleton-guard:"+f.name, e, []bool{true}) {
				t.Nontrivial()
			}
			t.SampleF(e.String)
		},
	}
}

func Check() *core.Check {
	return &core.Check{
		ID:        "C15",
		HangAfter: 120 * time.Second, // cases take at most seconds (max_case_s in the evidence); see core.Family.HangAfter
		Title:     "Validated policies cannot fail with type errors",
		Rule: "bounded-exhaustive enumeration of policies over a schema that contains a required and an optional attribute of every type (incl. the four extension types, sets, nested records, entity references), tags, a two-level hierarchy, an action applying to two principal and two resource types, an action group and optional context members: every operator form over every leaf tuple (variables, existing / optional / missing attribute paths, literals) in 6 scopes, plus has- and tag-guard forms up to depth 3; every policy that the validator accepts (strict or permissive) is evaluated on every conforming environment (requests for every action / principal type / resource type; stores with optional attributes and tags present and absent, entities present and absent; 4 contexts) and must not fail with a type, arity, unknown-function, missing-attribute or missing-tag error; " +
			"a case is non-trivial if some validator accepted the policy in some scope",
		Assumptions: []string{
			"conforming environments are built from the schema AND accepted by validate.Entities / validate.Request",
			"error classes are recognised by the library's error texts (type error / does not have the attribute / does not have the tag / function does not exist / wrong number of arguments); overflow, absent entities and extension literal errors are allowed",
			"one schema (the quantifier's all schemas is not enumerated)",
		},
		Families: func(tier string) []*core.Family {
			setup()
			if setupErr != nil {
				e := setupErr
				return []*core.Family{{Name: "setup", Desc: "schema resolves", N: 1, Run: func(t *core.T, i int64) { t.Fail("harness-schema", schemaText, "resolves", e.Error()) }}}
			}
			sp := specs()
			fams := []*core.Family{guards(tier), guardCombinations(), singletonGuards(), clauseGuards(), tagGuards(), unions(), actionInGuards(), entityInGuards(), capabilityKeys(), depth1("depth1-unary", sp, leaves(), 1)}
			if tier == "thorough" {
				fams = append(fams, depth1("depth1-binary", sp, leaves(), 2), depth1("depth1-if", gen.Ternary, leavesSmall(), 3))
			} else {
				fams = append(fams, depth1("depth1-binary", sp, leaves()[:32], 2))
			}
			return fams
		},
	}
}
