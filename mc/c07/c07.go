// Package c07: the Cedar text parser builds exactly the tree the grammar prescribes (E1 + E6).
package c07

import (
	"fmt"
	pa "github.com/cedar-policy/cedar-go/ast"
	"github.com/cedar-policy/cedar-go/types"
	"net/netip"
	"reflect"
	"strings"
	"time"

	cedar "github.com/cedar-policy/cedar-go"
	"github.com/cedar-policy/cedar-go/verif/core"
	"github.com/cedar-policy/cedar-go/verif/gen"
	. "github.com/cedar-policy/cedar-go/verif/refsem"
	xast "github.com/cedar-policy/cedar-go/x/exp/ast"
)

// Parse parses one policy text through the public API and returns its AST.
func Parse(src string) (*xast.Policy, error) {
	var p cedar.Policy
	// the input buffer is overwritten after the call (core.Scribbled)
	if err := core.Scribbled([]byte(src), p.UnmarshalCedar); err != nil {
		return nil, err
	}
	return (*xast.Policy)(p.AST()), nil
}

// inDomain: trees expressible in Cedar text as themselves. Negate(literal n>=0) is
// the literal -n in text; extension-typed / set / record VALUES have no literal syntax.
func inDomain(e *Expr) bool {
	if e.Op == ONeg && e.Args[0].Op == OLit && e.Args[0].Val.K == KLong && e.Args[0].Val.I >= 0 {
		return false
	}
	if e.Op == OLit {
		switch e.Val.K {
		case KBool, KLong, KString, KEntity:
		default:
			return false
		}
	}
	if e.Op == OExt && ExtArity(e.Str) < 0 {
		return false
	}
	if e.Op == OExt && ExtIsMethod[e.Str] && len(e.Args) == 0 {
		return false
	}
	for _, a := range e.Args {
		if !inDomain(a) {
			return false
		}
	}
	return true
}

func checkPolicy(t *core.T, sig string, pol *Policy, modes []PrintMode, layouts []Layout) {
	want := pol.ToAST()
	for _, m := range modes {
		toks := PolicyTokens(pol, m)
		for _, l := range layouts {
			src := Join(toks, l)
			var got *xast.Policy
			var err error
			if t.Protect("parse:"+sig, src, func() { got, err = Parse(src) }) {
				continue
			}
			if err != nil {
				t.Fail(fmt.Sprintf("rejected:%s:mode%d", sig, m), src, "parses to "+describe(pol), "error: "+err.Error())
				continue
			}
			want.Position = got.Position
			if !reflect.DeepEqual(got, want) {
				t.Fail(fmt.Sprintf("wrong-tree:%s:mode%d", sig, m), src, fmt.Sprintf("%+v", *want), fmt.Sprintf("%+v", *got))
			}
			if l == layouts[0] {
				// the other text entry points build the same tree: a used receiver, the public ast
				// type, a policy list, a policy set and the streaming decoder
				otherEntryPoints(t, sig, src, got)
			}
			t.AddTrans(1)
		}
	}
	t.AddStates(1)
}

var usedText = []byte(`@old("x") forbid(principal is Old, action in [Old::"a"], resource == Old::"r") when { false } unless { context has old };`)

func otherEntryPoints(t *core.T, sig, src string, want *xast.Policy) {
	same := func(name string, got *xast.Policy, err error) {
		if err != nil {
			t.Fail("entry-point-rejects:"+name+":"+sig, src, "parses as Policy.UnmarshalCedar does", err.Error())
			return
		}
		g := *got
		g.Position = want.Position
		if !reflect.DeepEqual(&g, want) {
			t.Fail("entry-point-differs:"+name+":"+sig, src, fmt.Sprintf("%+v", *want), fmt.Sprintf("%+v", g))
		}
	}
	var used cedar.Policy
	_ = used.UnmarshalCedar(usedText)
	_ = used.MarshalCedar() // every accessor has been called on the receiver before it is reused
	_, _ = used.MarshalJSON()
	_ = used.AST()
	_ = used.UnmarshalCedar([]byte(`@half("way") permit(principal, action, resource) when { true } unless { 1 + };`)) // a decode into it has just failed half way
	err := used.UnmarshalCedar([]byte(src))
	same("Policy.UnmarshalCedar(used receiver)", (*xast.Policy)(used.AST()), err)
	var ap pa.Policy
	_ = ap.UnmarshalCedar(usedText)
	err = ap.UnmarshalCedar([]byte(src))
	same("ast.Policy.UnmarshalCedar(used receiver)", (*xast.Policy)(&ap), err)
	doc := string(usedText) + "\n" + src + "\n" + string(usedText)
	if pl, err := cedar.NewPolicyListFromBytes("f.cedar", []byte(doc)); err != nil || len(pl) != 3 {
		t.Fail("entry-point-rejects:NewPolicyListFromBytes:"+sig, doc, "3 policies", fmt.Sprint(len(pl), err))
	} else {
		same("NewPolicyListFromBytes", (*xast.Policy)(pl[1].AST()), nil)
	}
	if ps, err := cedar.NewPolicySetFromBytes("f.cedar", []byte(doc)); err != nil || ps.Get("policy1") == nil {
		t.Fail("entry-point-rejects:NewPolicySetFromBytes:"+sig, doc, "3 policies", fmt.Sprint(err))
	} else {
		same("NewPolicySetFromBytes", (*xast.Policy)(ps.Get("policy1").AST()), nil)
	}
	d := cedar.NewDecoder(strings.NewReader(doc))
	var reused cedar.Policy
	for k := 0; k < 3; k++ {
		if err := d.Decode(&reused); err != nil {
			t.Fail("entry-point-rejects:Decoder:"+sig, doc, "3 policies", err.Error())
			return
		}
		if k == 1 {
			same("Decoder.Decode(reused variable)", (*xast.Policy)(reused.AST()), nil)
		}
	}
}

func describe(p *Policy) string {
	var parts []string
	for _, c := range p.Conds {
		parts = append(parts, c.Body.String())
	}
	return strings.Join(parts, " ; ")
}

func when(e *Expr) *Policy { return &Policy{Conds: []Cond{{When: true, Body: e}}} }

var allModes = []PrintMode{FullParens, MinParens}
var allLayouts = []Layout{LayoutTight, LayoutSpaces, LayoutComments, LayoutCRLFTabs, LayoutEmptyComments, LayoutFormFeed}

func leaves() []*Expr {
	return []*Expr{Var("principal"), L(Long(1)), L(Str("s")), L(Long(-3)), L(Entity("NS::U", "e")), Var("context"), L(Bool(true)), L(Long(2))}
}

func pow(b, e int) int64 {
	r := int64(1)
	for i := 0; i < e; i++ {
		r *= int64(b)
	}
	return r
}

func specs() []gen.OpSpec {
	s := append(append(append([]gen.OpSpec{}, gen.Unary...), gen.Binary...), gen.Ternary...)
	// additional syntactic forms
	s = append(s,
		gen.OpSpec{Name: "set0", Arity: 1, Build: func(a []*Expr) *Expr { return Bin(OContains, SetLit(), a[0]) }},
		gen.OpSpec{Name: "rec0", Arity: 1, Build: func(a []*Expr) *Expr { return Bin(OEq, RecLit(nil, nil), a[0]) }},
		gen.OpSpec{Name: "rec3-keys", Arity: 2, Build: func(a []*Expr) *Expr {
			return RecLit([]string{"if", "k k", "_a1", "\"q\"\\"}, []*Expr{a[0], a[1], a[0], a[1]})
		}},
		gen.OpSpec{Name: "like-esc", Arity: 1, Build: func(a []*Expr) *Expr {
			return Like(a[0], PatElem{Lit: "a*\\\"\n"}, PatElem{Wild: true}, PatElem{Lit: "é\x00"}, PatElem{Wild: true})
		}},
		gen.OpSpec{Name: "access-kw", Arity: 1, Build: func(a []*Expr) *Expr { return Access(Access(a[0], "if"), "is") }},
		gen.OpSpec{Name: "has-kw", Arity: 1, Build: func(a []*Expr) *Expr { return Has(a[0], "in") }},
	)
	return s
}

func depth1(lv []*Expr) *core.Family {
	sp := specs()
	type item struct {
		s    gen.OpSpec
		args []*Expr
	}
	return &core.Family{
		Name: "depth1",
		Desc: fmt.Sprintf("%d operator forms x all operand tuples over %d leaves x {fully parenthesised, minimal parentheses} x 4 layouts", len(sp), len(lv)),
		N:    int64(len(sp)) * pow(len(lv), 3),
		Run: func(t *core.T, i int64) {
			nl := int64(len(lv))
			s := sp[i/(nl*nl*nl)]
			r := i % (nl * nl * nl)
			if r >= pow(len(lv), s.Arity) {
				return // index space is padded to arity 3
			}
			args := make([]*Expr, s.Arity)
			for j := s.Arity - 1; j >= 0; j-- {
				args[j] = lv[r%nl]
				r /= nl
			}
			e := s.Build(args)
			if !inDomain(e) {
				return
			}
			checkPolicy(t, s.Name, when(e), allModes, allLayouts)
			t.Nontrivial()
			t.SampleF(func() string { return Join(PolicyTokens(when(e), MinParens), LayoutSpaces) })
		},
	}
}

func depth2(lv []*Expr, layouts []Layout) *core.Family {
	sp := specs()
	type combo struct {
		p, c gen.OpSpec
		pos  int
	}
	var combos []combo
	for _, p := range sp {
		for pos := 0; pos < p.Arity; pos++ {
			for _, c := range sp {
				combos = append(combos, combo{p, c, pos})
			}
		}
	}
	nl := int64(len(lv))
	return &core.Family{
		Name: "depth2-pairings",
		Desc: fmt.Sprintf("every (parent, operand position, child) pairing of %d operator forms (%d pairings) x all leaf tuples over %d leaves x 2 parenthesisation modes x %d layouts", len(sp), len(combos), nl, len(layouts)),
		N:    int64(len(combos)) * nl,
		Run: func(t *core.T, i int64) {
			cb := combos[i/nl]
			first := i % nl
			slots := cb.c.Arity + cb.p.Arity - 1
			total := pow(int(nl), slots-1)
			var last *Expr
			for r := int64(0); r < total; r++ {
				x := r
				ls := make([]*Expr, slots)
				ls[0] = lv[first]
				for j := slots - 1; j >= 1; j-- {
					ls[j] = lv[x%nl]
					x /= nl
				}
				child := cb.c.Build(ls[:cb.c.Arity])
				pargs := make([]*Expr, cb.p.Arity)
				rest := ls[cb.c.Arity:]
				ri := 0
				for j := range pargs {
					if j == cb.pos {
						pargs[j] = child
					} else {
						pargs[j] = rest[ri]
						ri++
					}
				}
				e := cb.p.Build(pargs)
				if !inDomain(e) {
					continue
				}
				last = e
				checkPolicy(t, cb.p.Name+"/"+cb.c.Name, when(e), allModes, layouts)
			}
			if last != nil {
				t.Nontrivial()
				t.SampleF(func() string { return Join(PolicyTokens(when(last), MinParens), LayoutSpaces) })
			}
		},
	}
}

// D3 is one depth-3 tree: root operator name and the expression.
type D3 struct {
	Root string
	E    *Expr
}

// Depth3Exprs: every root (operator x operand position) over every depth-2 subtree of the
// precedence-relevant operators (one or more representatives per grammar level). Shared
// with the marshalling checks (C08, C09).
func Depth3Exprs() []D3 {
	type mk func(a []*Expr) *Expr
	type op struct {
		name  string
		arity int
		f     mk
	}
	ops := []op{
		{"||", 2, func(a []*Expr) *Expr { return Bin(OOr, a[0], a[1]) }},
		{"&&", 2, func(a []*Expr) *Expr { return Bin(OAnd, a[0], a[1]) }},
		{"==", 2, func(a []*Expr) *Expr { return Bin(OEq, a[0], a[1]) }},
		{"<", 2, func(a []*Expr) *Expr { return Bin(OLt, a[0], a[1]) }},
		{"in", 2, func(a []*Expr) *Expr { return Bin(OIn, a[0], a[1]) }},
		{"has", 1, func(a []*Expr) *Expr { return Has(a[0], "a") }},
		{"like", 1, func(a []*Expr) *Expr { return Like(a[0], PatElem{Lit: "a"}, PatElem{Wild: true}) }},
		{"is", 1, func(a []*Expr) *Expr { return Is(a[0], "U") }},
		{"is-in", 2, func(a []*Expr) *Expr { return IsIn(a[0], "U", a[1]) }},
		{"+", 2, func(a []*Expr) *Expr { return Bin(OAdd, a[0], a[1]) }},
		{"-", 2, func(a []*Expr) *Expr { return Bin(OSub, a[0], a[1]) }},
		{"*", 2, func(a []*Expr) *Expr { return Bin(OMul, a[0], a[1]) }},
		{"neg", 1, func(a []*Expr) *Expr { return Un(ONeg, a[0]) }},
		{"!", 1, func(a []*Expr) *Expr { return Un(ONot, a[0]) }},
		{".a", 1, func(a []*Expr) *Expr { return Access(a[0], "a") }},
		{"[\"a b\"]", 1, func(a []*Expr) *Expr { return Access(a[0], "a b") }},
		{".contains", 2, func(a []*Expr) *Expr { return Bin(OContains, a[0], a[1]) }},
		{".lessThan", 2, func(a []*Expr) *Expr { return Ext("lessThan", a[0], a[1]) }},
		{"if", 3, func(a []*Expr) *Expr { return If(a[0], a[1], a[2]) }},
	}
	lv := []*Expr{Var("principal"), L(Long(1)), L(Long(-3)), Var("resource")}
	// enumerate all trees: root op, for each root operand either a leaf or a depth-2 subtree (op over ops-or-leaves of depth 1)
	// Index space: root x (for each root operand: child op or leaf) ... built explicitly.
	type tree struct{ e *Expr }
	var d1 []*Expr // depth-1 trees with distinct leaves
	for _, o := range ops {
		args := make([]*Expr, o.arity)
		for j := range args {
			args[j] = lv[j%len(lv)]
		}
		d1 = append(d1, o.f(args))
	}
	var d2 []*Expr // depth-2: op over (d1 in one position, leaves elsewhere)
	for _, o := range ops {
		for pos := 0; pos < o.arity; pos++ {
			for _, c := range d1 {
				args := make([]*Expr, o.arity)
				for j := range args {
					args[j] = lv[(j+1)%len(lv)]
				}
				args[pos] = c
				d2 = append(d2, o.f(args))
			}
		}
	}
	type root struct {
		o   op
		pos int
	}
	var roots []root
	for _, o := range ops {
		for pos := 0; pos < o.arity; pos++ {
			roots = append(roots, root{o, pos})
		}
	}
	var out []D3
	for _, r := range roots {
		for _, sub := range d2 {
			args := make([]*Expr, r.o.arity)
			for j := range args {
				args[j] = lv[(j+2)%len(lv)]
			}
			args[r.pos] = sub
			out = append(out, D3{r.o.name, r.o.f(args)})
		}
	}
	return out
}

// builder table: every exported builder of the public `ast` package (which wraps
// x/exp/ast) next to the Cedar text of the node it is documented to build. The parser is
// the subject of the rest of this check; here the table binds each BUILDER to the same tree,
// so that a builder producing another operator, swapped operands or another extension
// name is seen.
func builderTable() *core.Family {
	a, b, c := pa.Context().Access("a"), pa.Context().Access("b"), pa.Context().Access("c")
	u := types.NewEntityUID("U", "x")
	type row struct {
		text string
		node pa.Node
	}
	rows := []row{
		{"context.a == context.b", a.Equal(b)}, {"context.a != context.b", a.NotEqual(b)}, {"context.a < context.b", a.LessThan(b)}, {"context.a <= context.b", a.LessThanOrEqual(b)},
		{"context.a > context.b", a.GreaterThan(b)}, {"context.a >= context.b", a.GreaterThanOrEqual(b)},
		{"context.a.lessThan(context.b)", a.DecimalLessThan(b)}, {"context.a.lessThanOrEqual(context.b)", a.DecimalLessThanOrEqual(b)},
		{"context.a.greaterThan(context.b)", a.DecimalGreaterThan(b)}, {"context.a.greaterThanOrEqual(context.b)", a.DecimalGreaterThanOrEqual(b)},
		{`context.a like "x*"`, a.Like(types.NewPattern("x", types.Wildcard{}))}, {"context.a && context.b", a.And(b)}, {"context.a || context.b", a.Or(b)}, {"!context.a", pa.Not(a)},
		{"if context.a then context.b else context.c", pa.IfThenElse(a, b, c)}, {"context.a + context.b", a.Add(b)}, {"context.a - context.b", a.Subtract(b)}, {"context.a * context.b", a.Multiply(b)}, {"-context.a", pa.Negate(a)},
		{"context.a in context.b", a.In(b)}, {"context.a is U", a.Is("U")}, {"context.a is NS::U in context.b", a.IsIn("NS::U", b)},
		{"context.a.contains(context.b)", a.Contains(b)}, {"context.a.containsAll(context.b)", a.ContainsAll(b)}, {"context.a.containsAny(context.b)", a.ContainsAny(b)}, {"context.a.isEmpty()", a.IsEmpty()},
		{`context.a["k k"]`, a.Access("k k")}, {"context.a has k", a.Has("k")}, {`context.a has "k k"`, a.Has("k k")}, {"context.a.getTag(context.b)", a.GetTag(b)}, {"context.a.hasTag(context.b)", a.HasTag(b)},
		{"context.a.isIpv4()", a.IsIpv4()}, {"context.a.isIpv6()", a.IsIpv6()}, {"context.a.isMulticast()", a.IsMulticast()}, {"context.a.isLoopback()", a.IsLoopback()}, {"context.a.isInRange(context.b)", a.IsInRange(b)},
		{"context.a.offset(context.b)", a.Offset(b)}, {"context.a.durationSince(context.b)", a.DurationSince(b)}, {"context.a.toDate()", a.ToDate()}, {"context.a.toTime()", a.ToTime()},
		{"context.a.toDays()", a.ToDays()}, {"context.a.toHours()", a.ToHours()}, {"context.a.toMinutes()", a.ToMinutes()}, {"context.a.toSeconds()", a.ToSeconds()}, {"context.a.toMilliseconds()", a.ToMilliseconds()},
		{"decimal(context.a)", pa.DecimalExtensionCall(a)}, {"ip(context.a)", pa.IPExtensionCall(a)}, {"datetime(context.a)", pa.DatetimeExtensionCall(a)}, {"duration(context.a)", pa.DurationExtensionCall(a)},
		{"true", pa.True()}, {"false", pa.False()}, {"true", pa.Boolean(true)}, {`"s"`, pa.String("s")}, {"7", pa.Long(7)}, {"-7", pa.Long(-7)}, {`U::"x"`, pa.EntityUID("U", "x")}, {`U::"x"`, pa.Value(u)},
		{"[context.a, context.b]", pa.Set(a, b)}, {"[]", pa.Set()}, {`{"k": context.a, "j j": context.b}`, pa.Record(pa.Pairs{{Key: "k", Value: a}, {Key: "j j", Value: b}})}, {"{}", pa.Record(pa.Pairs{})},
		{"principal", pa.Principal()}, {"action", pa.Action()}, {"resource", pa.Resource()}, {"context", pa.Context()},
	}
	type head struct {
		text string
		pol  func() *pa.Policy
	}
	heads := []head{
		{"permit(principal, action, resource);", func() *pa.Policy { return pa.Permit() }},
		{"forbid(principal, action, resource);", func() *pa.Policy { return pa.Forbid() }},
		{`@k("v") permit(principal, action, resource);`, func() *pa.Policy { return pa.Annotation("k", "v").Permit() }},
		{`@k("v") @j("w") forbid(principal, action, resource);`, func() *pa.Policy { return pa.Annotation("k", "v").Annotation("j", "w").Forbid() }},
		{`@k("v") @j("") permit(principal, action, resource);`, func() *pa.Policy { return pa.Permit().Annotate("k", "v").Annotate("j", "") }},
		{`permit(principal == U::"x", action == U::"x", resource == U::"x");`, func() *pa.Policy { return pa.Permit().PrincipalEq(u).ActionEq(u).ResourceEq(u) }},
		{`permit(principal in U::"x", action in U::"x", resource in U::"x");`, func() *pa.Policy { return pa.Permit().PrincipalIn(u).ActionIn(u).ResourceIn(u) }},
		{`permit(principal is NS::T, action in [U::"x", U::"x"], resource is T);`, func() *pa.Policy { return pa.Permit().PrincipalIs("NS::T").ActionInSet(u, u).ResourceIs("T") }},
		{`forbid(principal is T in U::"x", action, resource is NS::T in U::"x");`, func() *pa.Policy { return pa.Forbid().PrincipalIsIn("T", u).ResourceIsIn("NS::T", u) }},
		{`permit(principal, action, resource) when { context.a } unless { context.b } when { context.c };`, func() *pa.Policy { return pa.Permit().When(a).Unless(b).When(c) }},
	}
	// value builders: compared by value (text has no literal for extension values)
	pfx := netip.MustParsePrefix("10.1.0.0/16")
	ipv, _ := types.ParseIPAddr("10.1.0.0/16")
	tm := time.Date(2024, 2, 29, 1, 2, 3, 4000000, time.UTC)
	vals := []struct {
		name string
		node pa.Node
		want types.Value
	}{
		{"IPAddr(netip.Prefix)", pa.IPAddr(pfx), ipv}, {"IPAddr(types.IPAddr)", pa.IPAddr(ipv), ipv},
		{"Datetime(time.Time)", pa.Datetime(tm), types.NewDatetimeFromMillis(tm.UnixMilli())}, {"Duration(time.Duration)", pa.Duration(90 * time.Minute), types.NewDurationFromMillis(5400000)},
	}
	n := len(rows) + len(heads) + len(vals)
	return &core.Family{
		Name: "builder-table",
		Desc: fmt.Sprintf("%d expression builders, %d policy-head builders and %d value builders of the public ast package, each against the parse of the Cedar text of the node it is documented to build", len(rows), len(heads), len(vals)),
		N:    int64(n),
		Run: func(t *core.T, i int64) {
			k := int(i)
			cmp := func(text string, built *pa.Policy) {
				got, err := Parse(text)
				if err != nil {
					t.Fail("harness-builder-text", text, "parses", err.Error())
					return
				}
				want := (*xast.Policy)(built)
				got.Position = want.Position
				if !reflect.DeepEqual(got, want) {
					t.Fail("builder-differs-from-text:"+text, text, fmt.Sprintf("%+v", *got), fmt.Sprintf("%+v", *want))
				}
			}
			switch {
			case k < len(rows):
				r := rows[k]
				cmp("permit(principal, action, resource) when { "+r.text+" };", pa.Permit().When(r.node))
				t.Sample(r.text)
			case k < len(rows)+len(heads):
				h := heads[k-len(rows)]
				cmp(h.text, h.pol())
				t.Sample(h.text)
			default:
				v := vals[k-len(rows)-len(heads)]
				p := (*xast.Policy)(pa.Permit().When(v.node))
				nv, ok := p.Conditions[0].Body.(xast.NodeValue)
				if !ok || !nv.Value.Equal(v.want) {
					t.Fail("value-builder:"+v.name, v.name, v.want.String(), fmt.Sprintf("%+v", p.Conditions[0].Body))
				}
				t.Sample(v.name)
			}
			t.Nontrivial()
			t.AddStates(1)
		},
	}
}

// padding slide: "arbitrary whitespace" includes a lot of it. The tokenizer reads through a
// 1024-byte buffer; every token of the policy is slid across the first two buffer edges
// by leading whitespace of every length in the windows around them. Whatever the padding,
// a valid text parses to the same tree and a text outside the grammar is rejected.
func paddingSlide() *core.Family {
	valid := []string{
		`permit(principal, action, resource) when { principal.admin && context.login.unlike.this.notin.isolated.hash.likely.iffy.thenx.elsewhere.truee.falsey == 1 };`,
		`@inner("x") forbid(principal is Iso::Like in In::"has", action in [Is::"if", Then::"else"], resource) unless { context has admin && context has "in" && {likes: 1, inn: 2, "if": 3}.likes < 2 };`,
		`permit(principal, action, resource) when { if context.a then context.b else context.c } unless { context.a like "*in*" || 9223372036854775807 >= -9223372036854775808 };`,
		`permit(principal, action, resource) when { context.a.containsAll(context.b) && ip("10.0.0.1").isInRange(ip("10.0.0.0/8")) && context.d.lessThanOrEqual(decimal("1.0")) };`,
		`permit(principal, action, resource) when { "string with \"quotes\" and \u{1F600} é" == context["key with spaces"] && principal.hasTag("a") };`,
	}
	invalid := []string{
		`permit(principal, action, resource) when { context.else == 1 };`,
		`permit(principal, action, resource) when { context.in };`,
		`permit(principal, action, resource) when { principal has like };`,
		`permit(principal, action, resource) when { {if: 1} == context };`,
		`permit(principal, action, resource) when { true::"x" == principal };`,
		`permit(principal is then, action, resource);`,
		`permit(principal, action, resource) when { 1 < 2 < 3 };`,
	}
	var pads []int
	for _, edge := range []int{1024, 2048} {
		for p := edge - 230; p <= edge+4; p++ {
			pads = append(pads, p)
		}
	}
	fills := []string{" ", "\n", " // c\n"}
	texts := append(append([]string{}, valid...), invalid...)
	return &core.Family{
		Name: "padding-slide",
		Desc: fmt.Sprintf("%d valid policies (identifiers with reserved words as prefix / suffix, reserved words as entity-type path segments, annotations, attribute names and quoted keys; long literals) and %d texts outside the grammar, each behind leading whitespace of every length in the %d-byte windows before the 1024- and 2048-byte buffer edges (3 kinds of filler): same tree resp. still rejected", len(valid), len(invalid), 235),
		N:    int64(len(texts) * len(fills)),
		Run: func(t *core.T, i int64) {
			text := texts[int(i)/len(fills)]
			fill := fills[int(i)%len(fills)]
			isValid := int(i)/len(fills) < len(valid)
			base, berr := Parse(text)
			if isValid && berr != nil {
				t.Fail("harness-padding-text", text, "parses", berr.Error())
				return
			}
			if !isValid && berr == nil {
				t.Fail("accepted-outside-grammar:"+text, text, "rejected with an error", "accepted")
				return
			}
			for _, n := range pads {
				// exactly n bytes: whole fillers, then spaces
				pad := strings.Repeat(fill, n/len(fill))
				pad += strings.Repeat(" ", n-len(pad))
				got, err := Parse(pad + text)
				if isValid {
					if err != nil {
						t.Fail("rejected:padding", fmt.Sprintf("%d bytes of %q + %s", n, fill, text), "parses as without the padding", err.Error())
						return
					}
					got.Position = base.Position
					if !reflect.DeepEqual(got, base) {
						t.Fail("wrong-tree:padding", fmt.Sprintf("%d bytes of %q + %s", n, fill, text), fmt.Sprintf("%+v", *base), fmt.Sprintf("%+v", *got))
						return
					}
				} else if err == nil {
					t.Fail("accepted-outside-grammar:padding", fmt.Sprintf("%d bytes of %q + %s", n, fill, text), "rejected with an error", fmt.Sprintf("accepted: %+v", got.Conditions))
					return
				}
			}
			t.Nontrivial()
			t.AddStates(int64(len(pads)))
			t.Sample(text)
		},
	}
}

// depth 3 over the precedence-relevant operators (one representative per level).
func depth3() *core.Family {
	all := Depth3Exprs()
	return &core.Family{
		Name: "depth3",
		Desc: fmt.Sprintf("every root (operator x operand position) over every depth-2 subtree of 20 precedence-relevant operators (one or more per grammar level): %d trees, 2 parenthesisation modes x %d layouts", len(all), len(allLayouts)),
		N:    int64(len(all)),
		Run: func(t *core.T, i int64) {
			e := all[i].E
			if !inDomain(e) {
				return
			}
			checkPolicy(t, "d3:"+all[i].Root, when(e), allModes, allLayouts)
			t.Nontrivial()
			t.SampleF(func() string { return Join(PolicyTokens(when(e), MinParens), LayoutSpaces) })
		},
	}
}

// scopes x annotations x conditions.
func heads() *core.Family {
	e1, e2 := [2]string{"U", "a"}, [2]string{"NS::G", "g \"q\""}
	prs := []Scope{{Kind: ScAll}, {Kind: ScEq, Ent: e1}, {Kind: ScIn, Ent: e2}, {Kind: ScIs, Type: "NS::U"}, {Kind: ScIsIn, Type: "U", Ent: e2}}
	acts := []Scope{{Kind: ScAll}, {Kind: ScEq, Ent: [2]string{"Action", "view"}}, {Kind: ScIn, Ent: [2]string{"NS::Action", "all"}}, {Kind: ScInSet, Ents: [][2]string{}}, {Kind: ScInSet, Ents: [][2]string{{"Action", "a"}}}, {Kind: ScInSet, Ents: [][2]string{{"Action", "a"}, {"Action", "b"}}}}
	annots := [][]Annot{nil, {{"id", "x"}}, {{"if", "a\"b"}, {"permit", ""}}, {{"a", "é\n"}, {"b", "2"}, {"in", "3"}}}
	conds := [][]Cond{nil, {{true, Var("principal")}}, {{false, L(Long(1))}}, {{true, L(Bool(true))}, {false, Var("context")}}, {{false, L(Str("s"))}, {true, L(Long(2))}, {true, L(Long(-3))}}}
	n := 2 * len(prs) * len(acts) * len(prs) * len(annots) * len(conds)
	return &core.Family{
		Name: "policy-heads",
		Desc: fmt.Sprintf("{permit,forbid} x %d principal scopes x %d action scopes x %d resource scopes x %d annotation lists (keyword keys) x %d condition lists, 2 modes x 4 layouts", len(prs), len(acts), len(prs), len(annots), len(conds)),
		N:    int64(n),
		Run: func(t *core.T, i int64) {
			x := int(i)
			p := &Policy{}
			p.Forbid = x%2 == 1
			x /= 2
			p.Principal = prs[x%len(prs)]
			x /= len(prs)
			p.Action = acts[x%len(acts)]
			x /= len(acts)
			p.Resource = prs[x%len(prs)]
			x /= len(prs)
			p.Annots = annots[x%len(annots)]
			x /= len(annots)
			p.Conds = conds[x]
			checkPolicy(t, "head", p, allModes, allLayouts)
			t.Nontrivial()
			t.SampleF(func() string { return Join(PolicyTokens(p, MinParens), LayoutSpaces) })
		},
	}
}

// literal forms: text -> expected value.
func literals() *core.Family {
	type c struct {
		text string
		want *Expr // nil = must be rejected
	}
	var cases []c
	str := func(lit, val string) { cases = append(cases, c{lit, L(Str(val))}) }
	bad := func(lit string) { cases = append(cases, c{lit, nil}) }
	str(`""`, "")
	str(`"a b"`, "a b")
	str(`"\n\r\t\\\0\'\""`, "\n\r\t\\\x00'\"")
	str(`"\x00\x41\x7f\x7F"`, "\x00A\x7f\x7f")
	str(`"\u{0}\u{41}\u{e9}\u{2713}\u{1F600}\u{10FFFF}\u{00041}\u{000041}"`, "\x00Aé✓😀\U0010FFFFAA")
	str(`"é✓😀 raw"`, "é✓😀 raw")
	str(`"'"`, "'")
	str("\"\ufffd\"", "\ufffd")
	str(`"\u{fffd}"`, "\ufffd")
	str(`"*"`, "*")
	str(`"// not a comment"`, "// not a comment")
	for _, b := range []string{`"\x80"`, `"\xff"`, `"\x4"`, `"\xg0"`, `"\u{}"`, `"\u{1234567}"`, `"\u{110000}"`, `"\u{d800}"`, `"\u{dfff}"`, `"\u41"`, `"\u{41"`, `"\a"`, `"\*"`, `"\ "`, `"\`, `"abc`, `"\u{g}"`, `"\q"`, `'a'`} {
		bad(b)
	}
	lng := func(lit string, v int64) { cases = append(cases, c{lit, L(Long(v))}) }
	lng("0", 0)
	lng("00", 0)
	lng("007", 7)
	lng("9223372036854775807", gen.MaxI)
	lng("-9223372036854775808", gen.MinI)
	lng("- 9223372036854775808", gen.MinI)
	lng("-0", 0)
	// zero-padded spellings of every small value and of the boundary values: the grammar's INT is
	// a run of decimal digits, whatever the first one is
	padVals := []int64{77, 88, 89, 99, 100, 255, 256, 511, 512, 1000, 4095, 65536, gen.MaxI}
	for v := int64(0); v <= 20; v++ {
		padVals = append(padVals, v)
	}
	for _, v := range padVals {
		for _, p := range []int{1, 2, 3, 19, 40} {
			z := strings.Repeat("0", p)
			lng(fmt.Sprintf("%s%d", z, v), v)
			lng(fmt.Sprintf("-%s%d", z, v), -v)
		}
	}
	lng("-009223372036854775808", gen.MinI)
	bad("009223372036854775808")
	bad("0b1")
	bad("0o7")
	bad("0X10")
	bad("0_1")
	bad("1_0")
	bad("9223372036854775808")
	bad("-9223372036854775809")
	bad("99999999999999999999")
	bad("1_000")
	bad("0x10")
	bad("1.5")
	bad("1e3")
	cases = append(cases,
		c{"--9223372036854775808", Un(ONeg, L(Long(gen.MinI)))},
		c{"-(9223372036854775807)", Un(ONeg, L(Long(gen.MaxI)))},
		c{"!!true", Un(ONot, Un(ONot, L(Bool(true))))},
		c{"!-1", Un(ONot, L(Long(-1)))},
		c{"-!true", Un(ONeg, Un(ONot, L(Bool(true))))},
		c{"- -1", Un(ONeg, L(Long(-1)))},
		c{"1 - -1", Bin(OSub, L(Long(1)), L(Long(-1)))},
		c{"1 - 1", Bin(OSub, L(Long(1)), L(Long(1)))},
		c{"1-1", Bin(OSub, L(Long(1)), L(Long(1)))},
		c{"1--1", Bin(OSub, L(Long(1)), L(Long(-1)))},
		c{"(-1).a", Access(L(Long(-1)), "a")},
		c{"-1.a", Un(ONeg, Access(L(Long(1)), "a"))},
		c{`-1["a"]`, Un(ONeg, Access(L(Long(1)), "a"))},
		c{"-1.isEmpty()", Un(ONeg, Un(OIsEmpty, L(Long(1))))},
		c{"-principal.a", Un(ONeg, Access(Var("principal"), "a"))},
		c{"!principal.a.b", Un(ONot, Access(Access(Var("principal"), "a"), "b"))},
		c{"-1 * 2", Bin(OMul, L(Long(-1)), L(Long(2)))},
		c{"2 * -1", Bin(OMul, L(Long(2)), L(Long(-1)))},
		c{`U::"a"`, L(Entity("U", "a"))},
		c{`A::B::C::"\u{e9}\n"`, L(Entity("A::B::C", "é\n"))},
		c{`A :: B :: "x"`, L(Entity("A::B", "x"))},
		c{"true", L(Bool(true))},
		c{"false", L(Bool(false))},
		c{"principal has a.b.c", Bin(OAnd, Bin(OAnd, Has(Var("principal"), "a"), Has(Access(Var("principal"), "a"), "b")), Has(Access(Access(Var("principal"), "a"), "b"), "c"))},
		c{`principal has "a.b"`, Has(Var("principal"), "a.b")},
		c{"principal has a.b && true", Bin(OAnd, Bin(OAnd, Has(Var("principal"), "a"), Has(Access(Var("principal"), "a"), "b")), L(Bool(true)))},
		c{"if true then 1 else 2 + 3", If(L(Bool(true)), L(Long(1)), Bin(OAdd, L(Long(2)), L(Long(3))))},
		c{"if true then 1 else if false then 2 else 3", If(L(Bool(true)), L(Long(1)), If(L(Bool(false)), L(Long(2)), L(Long(3))))},
		c{"[,]", nil},
		c{`principal like "a\*b*"`, Like(Var("principal"), PatElem{Lit: "a*b"}, PatElem{Wild: true})},
		c{`principal like "**"`, Like(Var("principal"), PatElem{Wild: true})},
		c{`principal like ""`, Like(Var("principal"))},
		c{`principal like "\u{2a}"`, Like(Var("principal"), PatElem{Lit: "*"})},
		c{`principal like "\x2a"`, Like(Var("principal"), PatElem{Lit: "*"})},
		c{`decimal("1.0")`, Ext("decimal", L(Str("1.0")))},
		c{`ip("1.2.3.4").isInRange(ip("1.0.0.0/8"))`, Ext("isInRange", Ext("ip", L(Str("1.2.3.4"))), Ext("ip", L(Str("1.0.0.0/8"))))},
		c{`context.a.b["c d"].e`, Access(Access(Access(Access(Var("context"), "a"), "b"), "c d"), "e")},
		c{`principal.hasTag("a") && principal.getTag("a") == 1`, Bin(OAnd, Bin(OHasTag, Var("principal"), L(Str("a"))), Bin(OEq, Bin(OGetTag, Var("principal"), L(Str("a"))), L(Long(1))))},
		c{`{"a": 1, b: 2}`, RecLit([]string{"a", "b"}, []*Expr{L(Long(1)), L(Long(2))})},
	)
	// every single-character escape candidate \c for ASCII c: accepted iff documented
	okEsc := map[byte]string{'n': "\n", 'r': "\r", 't': "\t", '\\': "\\", '0': "\x00", '\'': "'", '"': "\""}
	for ch := byte(0x21); ch < 0x7f; ch++ {
		if ch == 'x' || ch == 'u' {
			continue
		}
		lit := `"\` + string(ch) + `"`
		if v, ok := okEsc[ch]; ok {
			str(lit, v)
		} else {
			bad(lit)
		}
	}
	return &core.Family{
		Name: "literal-forms",
		Desc: fmt.Sprintf("%d literal / escape / unary-stack / sugar forms: text -> expected tree, or rejection", len(cases)),
		N:    int64(len(cases)),
		Run: func(t *core.T, i int64) {
			cs := cases[i]
			src := "permit(principal, action, resource) when { " + cs.text + " };"
			var got *xast.Policy
			var err error
			if t.Protect("parse:literal", src, func() { got, err = Parse(src) }) {
				return
			}
			t.Nontrivial()
			t.Sample(cs.text)
			if cs.want == nil {
				if err == nil {
					t.Fail("accepted-outside-grammar:"+cs.text, src, "rejected with an error", fmt.Sprintf("accepted: %+v", got.Conditions))
				}
				return
			}
			if err != nil {
				t.Fail("rejected:literal:"+cs.text, src, cs.want.String(), err.Error())
				return
			}
			want := when(cs.want).ToAST()
			want.Position = got.Position
			if !reflect.DeepEqual(got, want) {
				t.Fail("wrong-tree:literal:"+cs.text, src, fmt.Sprintf("%+v", want.Conditions), fmt.Sprintf("%+v", got.Conditions))
			}
		},
	}
}

// rejection table: generated negative families.
func rejections() *core.Family {
	var texts []string
	add := func(s ...string) { texts = append(texts, s...) }
	expr := func(e string) string { return "permit(principal, action, resource) when { " + e + " };" }
	rel := []string{"==", "!=", "<", "<=", ">", ">=", "in"}
	for _, a := range rel {
		for _, b := range rel {
			add(expr("1 " + a + " 2 " + b + " 3"))
		}
		add(expr("1 "+a+" 2 has a"), expr("principal has a "+a+" 1"), expr("1 "+a+" 2 like \"a\""), expr("1 "+a+" principal is U"))
		if a != "in" { // `x is T in y` is the is-in form
			add(expr("principal is U " + a + " 2"))
		}
	}
	add(expr("principal has a has b"), expr("principal like \"a\" like \"b\""), expr("principal is U is U"), expr("principal is U in resource in resource"))
	kws := []string{"true", "false", "if", "then", "else", "in", "like", "has", "is", "__cedar"}
	for _, k := range kws {
		add(expr(k+"::\"x\" == principal"), expr("A::"+k+"::\"x\" == principal"), expr("principal is "+k), expr("principal is A::"+k), expr(k+"(1)"), expr("principal."+k+"(1)"))
		add("permit(principal == "+k+"::\"x\", action, resource);", "permit(principal is "+k+", action, resource);", "permit(principal, action in ["+k+"::\"a\"], resource);")
		if k != "true" && k != "false" && k != "if" {
			add(expr(k))
		}
		add(expr("principal." + k + " == 1")) // reserved words are not identifiers in attribute position either
		add(expr("{" + k + ": 1} == context"))
		add(expr("principal has " + k))
	}
	add("@a(\"1\") @a(\"2\") permit(principal, action, resource);", "@a(\"1\") @b(\"2\") @a(\"3\") permit(principal, action, resource);")
	add("@a(1) permit(principal, action, resource);", "@a permit(principal, action, resource);", "@\"a\"(\"1\") permit(principal, action, resource);", "@a(\"1\", \"2\") permit(principal, action, resource);")
	add(expr("{a: 1, a: 2} == context"), expr("{a: 1, \"a\": 2} == context"), expr("{\"a\": 1, b: 2, \"a\": 3} == context"))
	// the same key / annotation spelled differently: duplicates are decided on the decoded name
	add(expr(`{"k": 1, "\u{6b}": 2} == context`), expr(`{k: 1, "\x6b": 2} == context`), expr(`{"a\tb": 1, "a\u{9}b": 2} == context`), expr(`{"it's": 1, "it\'s": 2} == context`), expr(`{"\u{e9}": 1, "é": 2} == context`),
		expr(`{"k": 1, b: {"k": 1, "\x6b": 2}} == context`), expr(`[{k: 1, "k": 2}] == context`), expr(`{a: 1, b: 2, c: 3, d: 4, e: 5, f: 6, g: 7, h: 8, i: 9, a: 10} == context`))
	for _, n := range ExtNames() {
		if ExtIsMethod[n] {
			add(expr(n + "(principal)")) // method called as a function
			add(expr(n + "(principal, principal)"))
		} else {
			add(expr("principal." + n + "()")) // function called as a method
			add(expr("\"1\"." + n + "()"))
		}
	}
	add(expr("foo(1)"), expr("principal.foo()"), expr("principal.foo(1)"), expr("Decimal(\"1.0\")"), expr("ip::x(\"1\")"), expr("A::decimal(\"1.0\")"))
	for _, m := range []string{"contains", "containsAll", "containsAny", "hasTag", "getTag"} {
		add(expr("principal."+m+"()"), expr("principal."+m+"(1, 2)"))
		add(expr(m + "(principal, 1)"))
	}
	add(expr("principal.isEmpty(1)"), expr("isEmpty(principal)"))
	add(expr("\"abc"), expr("\"abc\\\""), "permit(principal, action, resource) when { true }; // ok\n /* unterminated", expr("'a'"))
	add(expr("1 +"), expr("+ 1"), expr("1 2"), expr("(1"), expr("1)"), expr("[1"), expr("{a: }"), expr("{a 1}"), expr("{1: 2}"), expr(""), expr("principal."), expr("principal.1"), expr("principal[a]"), expr("principal[1]"), expr("principal[\"a\""),
		expr("if true then 1"), expr("if true 1 else 2"), expr("1 + if true then 1 else 2"), expr("true || if true then true else false"), expr("! if true then true else false"),
		expr("1 = 2"), expr("1 & 2"), expr("1 | 2"), expr("1 / 2"), expr("1 % 2"), expr("a"), expr("Principal"), expr("principal in"), expr("principal is"), expr("principal is \"U\""), expr("principal like a"), expr("principal like 1"), expr("principal has 1"), expr("principal has"), expr("U::a"), expr("U::"), expr("::U::\"a\""), expr("U:\"a\""))
	add("permit(principal, action, resource)", "permit(principal, action);", "permit(principal, resource, action);", "permit(action, principal, resource);", "permit principal, action, resource;", "allow(principal, action, resource);", "Permit(principal, action, resource);",
		"permit(principal, action, resource) when true;", "permit(principal, action, resource) when { true } else { false };", "permit(principal, action, resource) if { true };", "permit(principal, action, resource) when { true } when;",
		"permit(principal = U::\"a\", action, resource);", "permit(principal == U::\"a\" in G::\"g\", action, resource);", "permit(principal in [U::\"a\"], action, resource);", "permit(principal, action is A, resource);", "permit(principal, action, resource in [R::\"a\"]);",
		"permit(principal == \"a\", action, resource);", "permit(principal == U, action, resource);", "permit(principal == context, action, resource);", "permit(principal is U::\"a\", action, resource);", "permit(principal, action in U::\"a\" in U::\"b\", resource);", "permit(principal, action, resource,,);", "permit(principal,, action, resource);",
		"permit(principal is U in [G::\"g\"], action, resource);", "permit(principal < U::\"a\", action, resource);", "permit(principal != U::\"a\", action, resource);")
	return &core.Family{
		Name: "rejection-table",
		Desc: fmt.Sprintf("%d generated texts outside the grammar: chained relations (all operator pairs), reserved words in every identifier position, duplicate annotations / record keys, every extension function called as a method and vice versa, unknown names, wrong arity of built-in methods, unterminated literals, malformed heads", len(texts)),
		N:    int64(len(texts)),
		Run: func(t *core.T, i int64) {
			src := texts[i]
			var err error
			var got *xast.Policy
			if t.Protect("parse:reject", src, func() { got, err = Parse(src) }) {
				return
			}
			t.Nontrivial()
			t.Sample(src)
			if err == nil {
				t.Fail("accepted-outside-grammar:"+src, src, "rejected with an error", fmt.Sprintf("accepted: %+v", *got))
			}
			// the list parser must reject it as well
			if _, lerr := cedar.NewPolicyListFromBytes("f", []byte(src)); lerr == nil {
				t.Fail("list-accepted-outside-grammar:"+src, src, "rejected with an error", "accepted by NewPolicyListFromBytes")
			}
		},
	}
}

// one construct nested very deep (gen.DeepChains), inside the domain of the grammar (at most
// four stacked prefix operators).
func deepChains(tier string) *core.Family {
	var all []gen.NamedExpr
	for _, ne := range gen.DeepChains(gen.DeepDepths(tier)) {
		if inDomain(ne.E) && !strings.Contains(ne.Name, "neg") && !strings.Contains(ne.Name, "not") {
			all = append(all, ne)
		}
	}
	return &core.Family{
		Name: "deep-chains",
		Desc: fmt.Sprintf("%d expressions: access / index / method chains, nested sets, records, method arguments, left- and right-nested binary operators, if chains at depths %v, 2 modes x 2 layouts", len(all), gen.DeepDepths(tier)),
		N:    int64(len(all)),
		Run: func(t *core.T, i int64) {
			name := all[i].Name
			checkPolicy(t, "deep:"+name[:strings.LastIndex(name, "/")], when(all[i].E), allModes, []Layout{LayoutTight, LayoutComments})
			t.Nontrivial()
			t.Sample(name)
		},
	}
}

func Check() *core.Check {
	return &core.Check{
		ID:        "C07",
		HangAfter: 120 * time.Second, // cases take at most seconds (max_case_s in the evidence); see core.Family.HangAfter
		Title:     "The Cedar text parser builds exactly the tree the grammar prescribes",
		Rule: "bounded-exhaustive: every operator form and every (parent, position, child) pairing (depth 2; depth 3 over one operator per grammar level) rendered by a reference printer in fully parenthesised and minimal-parenthesis modes x 4 layouts (tight, spaces, comments between all tokens, CRLF+tabs); parse(render(T)) must equal T (reflect.DeepEqual on Policy.AST(), position ignored); plus a literal/escape table with expected values and a generated rejection table; " +
			"every executed case is non-trivial (distinct text, distinct expected tree)",
		Assumptions: []string{
			"the reference printer and its precedence table are written from the documented grammar",
			"Negate(non-negative literal) is outside the domain (in text it IS the negative literal); extension/set/record VALUES have no literal syntax",
			"more than 4 stacked unary operators, trailing commas in lists and /* */ comments are not asserted either way (the documented grammar and the reference implementation differ or are unclear to the author)",
		},
		Families: func(tier string) []*core.Family {
			lv := leaves()
			if tier == "thorough" {
				return []*core.Family{literals(), rejections(), builderTable(), paddingSlide(), deepChains(tier), heads(), depth1(lv), depth2(lv[:5], allLayouts), depth3()}
			}
			return []*core.Family{literals(), rejections(), builderTable(), paddingSlide(), deepChains(tier), heads(), depth1(lv[:5]), depth2(lv[:4], []Layout{LayoutTight, LayoutComments}), depth3()}
		},
	}
}
