// Package c08: Cedar text marshalling round-trips every policy (E1).
package c08

import (
	"bytes"
	"errors"
	"fmt"
	"reflect"
	"sort"
	"strings"
	"time"
	"unicode/utf8"

	cedar "github.com/cedar-policy/cedar-go"
	publicast "github.com/cedar-policy/cedar-go/ast"
	"github.com/cedar-policy/cedar-go/types"
	"github.com/cedar-policy/cedar-go/verif/core"
	"github.com/cedar-policy/cedar-go/verif/gen"
	. "github.com/cedar-policy/cedar-go/verif/refsem"
	xast "github.com/cedar-policy/cedar-go/x/exp/ast"
	"github.com/cedar-policy/cedar-go/x/exp/eval"
)

var envs []eval.Env

func init() {
	for _, e := range gen.Envs() {
		envs = append(envs, eval.Env{Entities: e.Store.ToImpl(), Principal: e.Principal.ToImpl(), Action: e.Action.ToImpl(), Resource: e.Resource.ToImpl(), Context: e.Context.ToImpl()})
	}
}

// expressible: ASTs that Cedar text can denote (known extension names; a method has a receiver).
func expressible(e *Expr) bool {
	if e.Op == OExt {
		if ExtArity(e.Str) < 0 || (ExtIsMethod[e.Str] && len(e.Args) == 0) {
			return false
		}
	}
	for _, a := range e.Args {
		if !expressible(a) {
			return false
		}
	}
	return true
}

func evalKey(n xast.IsNode, env eval.Env) (key string, panicked any) {
	defer func() {
		if r := recover(); r != nil {
			key, panicked = "", r
		}
	}()
	v, err := eval.Eval(n, env)
	if err != nil {
		return "error", nil
	}
	rv, cerr := FromImpl(v)
	if cerr != nil {
		return "malformed:" + cerr.Error(), nil
	}
	return rv.Key(), nil
}

// roundTrip checks one policy: text parses, head equal, same meaning, byte fixpoint.
func roundTrip(t *core.T, sig string, src string, pol *cedar.Policy, desc func() string) {
	var text []byte
	if t.Protect("marshal:"+sig, desc(), func() { text = pol.MarshalCedar() }) {
		return
	}
	in := func() string { return fmt.Sprintf("[%s] %s  =>  %s", src, desc(), text) }
	var back cedar.Policy
	var err error
	if t.Protect("reparse:"+sig, in(), func() { err = core.Scribbled(text, back.UnmarshalCedar) }) {
		return
	}
	if err != nil {
		t.Fail("rendering-does-not-parse:"+sig, in(), "MarshalCedar output parses", err.Error())
		return
	}
	a, b := (*xast.Policy)(pol.AST()), (*xast.Policy)(back.AST())
	if a.Effect != b.Effect || !reflect.DeepEqual(a.Principal, b.Principal) || !reflect.DeepEqual(a.Action, b.Action) || !reflect.DeepEqual(a.Resource, b.Resource) {
		t.Fail("head-changed:"+sig, in(), fmt.Sprintf("%v %+v %+v %+v", a.Effect, a.Principal, a.Action, a.Resource), fmt.Sprintf("%v %+v %+v %+v", b.Effect, b.Principal, b.Action, b.Resource))
	}
	if !(len(a.Annotations) == 0 && len(b.Annotations) == 0) && !reflect.DeepEqual(a.Annotations, b.Annotations) {
		t.Fail("annotations-changed:"+sig, in(), fmt.Sprintf("%q", a.Annotations), fmt.Sprintf("%q", b.Annotations))
	}
	if len(a.Conditions) != len(b.Conditions) {
		t.Fail("conditions-changed:"+sig, in(), fmt.Sprint(len(a.Conditions)), fmt.Sprint(len(b.Conditions)))
		return
	}
	for ci := range a.Conditions {
		if a.Conditions[ci].Condition != b.Conditions[ci].Condition {
			t.Fail("condition-kind-changed:"+sig, in(), "", "")
		}
		for k, env := range envs {
			ka, pa := evalKey(a.Conditions[ci].Body, env)
			kb, pb := evalKey(b.Conditions[ci].Body, env)
			if pa != nil || pb != nil {
				t.Fail("eval-panics:"+sig, in(), "", fmt.Sprint(pa, pb))
				break
			}
			if ka != kb {
				t.Fail("meaning-changed:"+sig, in()+fmt.Sprintf(" [env %d]", k), ka, kb)
				break
			}
		}
	}
	if text2 := back.MarshalCedar(); !bytes.Equal(text, text2) {
		t.Fail("not-a-fixpoint:"+sig, in(), string(text), string(text2))
	}
	// what MarshalCedar / MarshalJSON hand out belongs to the caller: overwriting it changes
	// nothing about the policy or about later renderings
	keep := string(text)
	for k := range text {
		text[k] = '#'
	}
	if js, err := pol.MarshalJSON(); err == nil {
		keepJS := string(js)
		for k := range js {
			js[k] = '#'
		}
		if js2, _ := pol.MarshalJSON(); string(js2) != keepJS {
			t.Fail("returned-bytes-alias-internal-state:MarshalJSON:"+sig, desc(), keepJS, string(js2))
		}
	}
	if again := string(pol.MarshalCedar()); again != keep {
		t.Fail("returned-bytes-alias-internal-state:MarshalCedar:"+sig, desc(), keep, again)
	}
	text = []byte(keep)
	t.AddStates(1)
	t.AddTrans(int64(len(envs)))
}

func fromBuilder(e *Expr) *cedar.Policy {
	return cedar.NewPolicyFromAST((*publicast.Policy)(xast.Permit().When(e.ToAST())))
}

// knownInputClass maps inputs that exercise a recorded (unrepaired) defect to a
// signature of their own, so that the known finding is identified by the failing input
// and every other violation of the same kind is still reported under its own signature.
func knownInputClass(e *Expr) string {
	if e.Op == OLit && e.Val.K == KDatetime && e.Val.I < gen.MinI+86400000 {
		return "datetime-in-first-representable-day"
	}
	if e.Op == ONeg && e.Args[0].Op == OLit && e.Args[0].Val.K == KLong && e.Args[0].Val.I == 0 {
		return "negate-zero-literal"
	}
	if e.Op == OLit && (e.Val.K == KSet || e.Val.K == KRecord) {
		for _, x := range append(append([]Val{}, e.Val.Elems...), e.Val.Vals...) {
			if c := knownInputClass(L(x)); c != "" {
				return c
			}
		}
	}
	for _, a := range e.Args {
		if c := knownInputClass(a); c != "" {
			return c
		}
	}
	return ""
}

func checkExpr(t *core.T, sig string, e *Expr, alsoJSON bool) {
	if !expressible(e) {
		return
	}
	if c := knownInputClass(e); c != "" {
		sig = c
	}
	p := fromBuilder(e)
	roundTrip(t, sig, "builder", p, e.String)
	if alsoJSON {
		// the same policy decoded from its JSON form
		var js []byte
		var err error
		if t.Protect("marshal-json:"+sig, e.String(), func() { js, err = p.MarshalJSON() }) || err != nil {
			return
		}
		var pj cedar.Policy
		if t.Protect("unmarshal-json:"+sig, string(js), func() { err = core.Scribbled(js, pj.UnmarshalJSON) }) {
			return
		}
		if err == nil {
			roundTrip(t, sig, "json", &pj, func() string { return string(js) })
		}
	}
	t.Nontrivial()
}

func pow(b, e int) int64 {
	r := int64(1)
	for i := 0; i < e; i++ {
		r *= int64(b)
	}
	return r
}

func specs() []gen.OpSpec {
	s := append(append(append([]gen.OpSpec{}, gen.Unary...), gen.Binary...), gen.Ternary...)
	s = append(s,
		gen.OpSpec{Name: "set0", Arity: 1, Build: func(a []*Expr) *Expr { return Bin(OContains, SetLit(), a[0]) }},
		gen.OpSpec{Name: "rec-keys", Arity: 2, Build: func(a []*Expr) *Expr {
			return RecLit([]string{"if", "k k", "_a1", "\"q\"\\", "", "é", "\n\x07\u0085"}, []*Expr{a[0], a[1], a[0], a[1], a[0], a[1], a[0]})
		}},
		gen.OpSpec{Name: "like-esc", Arity: 1, Build: func(a []*Expr) *Expr {
			return Like(a[0], PatElem{Lit: "a*\\\"\n"}, PatElem{Wild: true}, PatElem{Lit: "é\x00́"}, PatElem{Wild: true})
		}},
		gen.OpSpec{Name: "access-weird", Arity: 1, Build: func(a []*Expr) *Expr { return Access(Access(Access(a[0], "if"), "a b"), "\"") }},
		gen.OpSpec{Name: "has-weird", Arity: 1, Build: func(a []*Expr) *Expr { return Bin(OAnd, Has(a[0], "in"), Has(a[0], "\x00\"")) }},
		gen.OpSpec{Name: "is-ns", Arity: 1, Build: func(a []*Expr) *Expr { return Is(a[0], "A::B::C") }},
	)
	return s
}

func depth1(lv []*Expr, name string) *core.Family {
	sp := specs()
	nl := int64(len(lv))
	return &core.Family{
		Name: name,
		Desc: fmt.Sprintf("%d operator forms x all operand tuples over %d leaves (every value of the boundary universe in ast.Value position + variables), builder and JSON-decoded sources", len(sp), nl),
		N:    int64(len(sp)) * nl * nl,
		Run: func(t *core.T, i int64) {
			s := sp[i/(nl*nl)]
			r := i % (nl * nl)
			if s.Arity == 1 && r >= nl {
				return
			}
			var e *Expr
			switch s.Arity {
			case 1:
				e = s.Build([]*Expr{lv[r]})
			case 2:
				e = s.Build([]*Expr{lv[r/nl], lv[r%nl]})
			default:
				// ternary: condition and else from the pair, then = a fixed negative literal
				e = s.Build([]*Expr{lv[r/nl], L(Long(-7)), lv[r%nl]})
			}
			checkExpr(t, s.Name, e, true)
			t.SampleF(func() string { return string(fromBuilder(e).MarshalCedar()) })
		},
	}
}

func depth2(lv []*Expr) *core.Family {
	sp := specs()
	type combo struct {
		p, c gen.OpSpec
		pos  int
	}
	var combos []combo
	for _, p := range sp {
		for pos := 0; pos < p.Arity; pos++ {
			for _, c := range sp {
				combos = append(combos, combo{p, c, pos})
			}
		}
	}
	nl := int64(len(lv))
	return &core.Family{
		Name: "depth2-pairings",
		Desc: fmt.Sprintf("every (parent, operand position, child) pairing of %d operator forms (%d pairings) x all leaf tuples over %d leaves", len(sp), len(combos), nl),
		N:    int64(len(combos)) * nl,
		Run: func(t *core.T, i int64) {
			cb := combos[i/nl]
			first := i % nl
			slots := cb.c.Arity + cb.p.Arity - 1
			total := pow(int(nl), slots-1)
			var last *Expr
			for r := int64(0); r < total; r++ {
				x := r
				ls := make([]*Expr, slots)
				ls[0] = lv[first]
				for j := slots - 1; j >= 1; j-- {
					ls[j] = lv[x%nl]
					x /= nl
				}
				child := cb.c.Build(ls[:cb.c.Arity])
				pargs := make([]*Expr, cb.p.Arity)
				rest := ls[cb.c.Arity:]
				ri := 0
				for j := range pargs {
					if j == cb.pos {
						pargs[j] = child
					} else {
						pargs[j] = rest[ri]
						ri++
					}
				}
				e := cb.p.Build(pargs)
				last = e
				checkExpr(t, cb.p.Name+"/"+cb.c.Name, e, false)
			}
			if last != nil && expressible(last) {
				t.SampleF(func() string { return string(fromBuilder(last).MarshalCedar()) })
			}
		},
	}
}

// arithmetic shapes: every tree with up to 3 operator nodes over + - * and unary minus,
// over leaves that make associativity observable (overflow in exactly one grouping).
// A lost parenthesis between two arithmetic operators changes the value only near the
// int64 limits, which the general pairing family's small leaves cannot show.
type arithShape struct {
	build func(l []*Expr) *Expr
	slots int
	name  string
}

func arithShapes(maxOps int) []arithShape {
	bins := []struct {
		op   Op
		name string
	}{{OAdd, "+"}, {OSub, "-"}, {OMul, "*"}}
	byN := make([][]arithShape, maxOps+1)
	byN[0] = []arithShape{{func(l []*Expr) *Expr { return l[0] }, 1, "x"}}
	for n := 1; n <= maxOps; n++ {
		for _, c := range byN[n-1] {
			c := c
			byN[n] = append(byN[n], arithShape{func(l []*Expr) *Expr { return Un(ONeg, c.build(l)) }, c.slots, "neg(" + c.name + ")"})
		}
		for _, b := range bins {
			b := b
			for k := 0; k <= n-1; k++ {
				for _, l := range byN[k] {
					for _, r := range byN[n-1-k] {
						l, r := l, r
						byN[n] = append(byN[n], arithShape{func(x []*Expr) *Expr { return Bin(b.op, l.build(x[:l.slots]), r.build(x[l.slots:])) }, l.slots + r.slots, "(" + l.name + b.name + r.name + ")"})
					}
				}
			}
		}
	}
	var out []arithShape
	for n := 2; n <= maxOps; n++ {
		out = append(out, byN[n]...)
	}
	return out
}

func arithmetic(maxOps int) *core.Family {
	shapes := arithShapes(maxOps)
	lv := []*Expr{L(Long(0)), L(Long(1)), L(Long(-1)), L(Long(2)), L(Long(gen.MaxI)), L(Long(gen.MinI)), Access(Var("context"), "a")}
	nl := int64(len(lv))
	return &core.Family{
		Name: "arithmetic-shapes",
		Desc: fmt.Sprintf("every tree with 2..%d operator nodes over {+, -, *, unary -} (%d shapes) x all leaf tuples over {0, 1, -1, 2, max, min, context.a}: a lost or misplaced parenthesis changes the value only through overflow", maxOps, len(shapes)),
		N:    int64(len(shapes)),
		Run: func(t *core.T, i int64) {
			sh := shapes[i]
			total := pow(int(nl), sh.slots)
			ls := make([]*Expr, sh.slots)
			var last *Expr
			for r := int64(0); r < total; r++ {
				x := r
				for j := sh.slots - 1; j >= 0; j-- {
					ls[j] = lv[x%nl]
					x /= nl
				}
				e := sh.build(ls)
				last = e
				checkExpr(t, "arith:"+sh.name, e, false)
			}
			if last != nil {
				t.SampleF(func() string { return string(fromBuilder(last).MarshalCedar()) })
			}
		},
	}
}

// long literals: single tokens far longer than the tokenizer's 1024-byte buffer (strings,
// entity ids, annotation values, pattern literals, quoted keys and attribute names).
func longLiterals() *core.Family {
	lens := []int{1000, 1023, 1024, 1025, 2047, 2048, 2049, 3000, 5000, 9000}
	units := []string{"a", "é", "a\"\\\n"}
	return &core.Family{
		Name: "long-literals",
		Desc: fmt.Sprintf("string values, entity ids, annotation values, like-pattern literals, record keys and attribute names of %v characters (ASCII, 2-byte characters, characters that need escapes): one token spans up to nine refills of the tokenizer buffer", lens),
		N:    int64(len(lens) * len(units)),
		Run: func(t *core.T, i int64) {
			n := lens[int(i)/len(units)]
			u := units[int(i)%len(units)]
			long := strings.Repeat(u, n/len([]rune(u)))
			e := SetLit(
				L(Str(long)), L(Entity("U", long)), Like(L(Str(long)), PatElem{Lit: long}, PatElem{Wild: true}),
				RecLit([]string{long}, []*Expr{L(Long(1))}), Has(Var("context"), long), Access(RecLit([]string{long}, []*Expr{L(Long(1))}), long), L(Rec(KV{K: long, V: Str(long)})),
			)
			checkExpr(t, "long-literal", e, true)
			p := cedar.NewPolicyFromAST((*publicast.Policy)(xast.Permit().Annotate("a", types.String(long)).When(xast.True())))
			roundTrip(t, "long-annotation", "builder", p, func() string { return fmt.Sprintf("annotation of %d x %q", n, u) })
			t.Sample(fmt.Sprintf("%d x %q", n, u))
		},
	}
}

// every Unicode scalar value, cheaply: 256 scalars per case, each inside a string value
// and an entity id (the two escaping routines), so that the quick tier has no gaps
// between the blocks that the heavier scalar families cover.
func scalarsLight() *core.Family {
	const block = 256
	n := int64(0x110000 / block)
	return &core.Family{
		Name: "unicode-all-scalars-light",
		Desc: "every Unicode scalar value U+0000..U+10FFFF, 256 per case, in a string value and in an entity id (16 scalars per literal)",
		N:    n,
		Run: func(t *core.T, i int64) {
			var elems []*Expr
			var cur []rune
			flush := func() {
				if len(cur) > 0 {
					elems = append(elems, L(Str(string(cur))), L(Entity("U", string(cur))))
					cur = nil
				}
			}
			for r := rune(i * block); r < rune((i+1)*block); r++ {
				if !utf8.ValidRune(r) {
					continue
				}
				cur = append(cur, r)
				if len(cur) == 16 {
					flush()
				}
			}
			flush()
			if len(elems) == 0 {
				return
			}
			checkExpr(t, "scalar-light", SetLit(elems...), false)
			t.Sample(fmt.Sprintf("U+%04X..U+%04X", i*block, (i+1)*block-1))
		},
	}
}

// every Unicode scalar value in every string position.
func scalars(lo, hi rune, name string) *core.Family {
	const block = 256
	n := (int64(hi-lo) + block) / block
	return &core.Family{
		Name: name,
		Desc: fmt.Sprintf("every Unicode scalar value U+%04X..U+%04X as a one-character string and as the second character after \"a\": string value, entity id, record-literal key, record-value key, like pattern literal, attribute name, annotation value", lo, hi),
		N:    n,
		Run: func(t *core.T, i int64) {
			for r := lo + rune(i*block); r < lo+rune((i+1)*block) && r <= hi; r++ {
				if !utf8.ValidRune(r) {
					continue
				}
				c := string(r)
				ac := "a" + c
				e := SetLit(
					L(Str(c)), L(Str(ac)), L(Entity("U", c)), L(Entity("NS::U", ac)),
					L(Rec(KV{c, Long(1)}, KV{ac, Str(c)})), RecLit([]string{c, ac}, []*Expr{L(Long(2)), L(Str(ac))}),
					Like(L(Str("zz")), PatElem{Lit: c}), Like(L(Str(c)), PatElem{Lit: c}), Like(L(Str(ac+"b")), PatElem{Lit: ac}, PatElem{Wild: true}),
					Access(RecLit([]string{c}, []*Expr{L(Long(3))}), c), Has(L(Rec(KV{ac, Long(1)})), ac),
					L(Set(Str(c), Entity("U", ac))),
				)
				ast := xast.Permit().Annotate("a", types.String(c)).Annotate("b", types.String(ac)).When(e.ToAST())
				p := cedar.NewPolicyFromAST((*publicast.Policy)(ast))
				roundTrip(t, fmt.Sprintf("scalar:U+%04X", r), "builder", p, func() string { return fmt.Sprintf("strings with U+%04X", r) })
			}
			t.Nontrivial()
			t.SampleF(func() string { return fmt.Sprintf("block U+%04X", lo+rune(i*block)) })
		},
	}
}

// heads: scope forms and annotations survive.
func heads() *core.Family {
	e1, e2 := [2]string{"U", "a"}, [2]string{"NS::G", "g \"q\"\n"}
	prs := []Scope{{Kind: ScAll}, {Kind: ScEq, Ent: e1}, {Kind: ScIn, Ent: e2}, {Kind: ScIs, Type: "NS::U"}, {Kind: ScIsIn, Type: "U", Ent: e2}}
	acts := []Scope{{Kind: ScAll}, {Kind: ScEq, Ent: [2]string{"Action", "view"}}, {Kind: ScIn, Ent: [2]string{"NS::Action", "all"}}, {Kind: ScInSet, Ents: [][2]string{}}, {Kind: ScInSet, Ents: [][2]string{{"Action", "a"}}}, {Kind: ScInSet, Ents: [][2]string{{"Action", "a"}, {"Action", "b\\"}}}}
	annots := [][]Annot{nil, {{"id", "x"}}, {{"if", "a\"b"}, {"permit", ""}}, {{"a", "é\ń"}, {"b", "2"}, {"in", "3"}}}
	conds := [][]Cond{nil, {{true, Var("principal")}}, {{false, L(Long(-1))}}, {{true, L(Bool(true))}, {false, Var("context")}}}
	n := 2 * len(prs) * len(acts) * len(prs) * len(annots) * len(conds)
	return &core.Family{
		Name: "policy-heads",
		Desc: fmt.Sprintf("{permit,forbid} x %d principal x %d action x %d resource scopes x %d annotation lists x %d condition lists", len(prs), len(acts), len(prs), len(annots), len(conds)),
		N:    int64(n),
		Run: func(t *core.T, i int64) {
			x := int(i)
			p := &Policy{}
			p.Forbid = x%2 == 1
			x /= 2
			p.Principal = prs[x%len(prs)]
			x /= len(prs)
			p.Action = acts[x%len(acts)]
			x /= len(acts)
			p.Resource = prs[x%len(prs)]
			x /= len(prs)
			p.Annots = annots[x%len(annots)]
			x /= len(annots)
			p.Conds = conds[x]
			pol := cedar.NewPolicyFromAST((*publicast.Policy)(p.ToAST()))
			roundTrip(t, "head", "builder", pol, func() string { return fmt.Sprintf("%+v", *p) })
			t.Nontrivial()
			t.SampleF(func() string { return string(pol.MarshalCedar()) })
		},
	}
}

// containers: PolicyList / PolicySet / Encoder->Decoder give back the same policies in the documented order.
// flakyWriter rejects every Write while failing is set and accepts everything otherwise.
type flakyWriter struct {
	buf     bytes.Buffer
	failing bool
}

func (w *flakyWriter) Write(p []byte) (int, error) {
	if w.failing {
		return 0, errors.New("injected writer failure")
	}
	return w.buf.Write(p)
}

func containers() *core.Family {
	texts := []string{
		"permit ( principal, action, resource );",
		"forbid ( principal, action, resource )\nwhen { context.a == -1 };",
		"@id(\"x\")\npermit (\n    principal == U::\"a\",\n    action,\n    resource\n)\nunless { (-1).a };",
		"permit ( principal, action, resource )\nwhen { \"\\u{fffd}\\n\" like \"*\\*\" };",
	}
	return &core.Family{
		Name: "containers",
		Desc: "policy lists of 0..13 policies: PolicyList.MarshalCedar, PolicySet.MarshalCedar (lexicographic id order: policy10 < policy2), Encoder->Decoder",
		N:    14,
		Run: func(t *core.T, i int64) {
			n := int(i)
			var src []string
			for k := 0; k < n; k++ {
				var cp cedar.Policy
				if err := cp.UnmarshalCedar([]byte(texts[(k*3+k/4)%len(texts)])); err != nil {
					t.Fail("harness-container-text", texts[(k*3+k/4)%len(texts)], "parses", err.Error())
					return
				}
				src = append(src, string(cp.MarshalCedar())) // canonical rendering of each policy (its own round trip is checked by the other families)
			}
			doc := strings.Join(src, "\n\n")
			pl, err := cedar.NewPolicyListFromBytes("f", []byte(doc))
			if err != nil {
				t.Fail("harness-container-doc", doc, "parses", err.Error())
				return
			}
			if got := string(pl.MarshalCedar()); got != doc {
				t.Fail("PolicyList.MarshalCedar", doc, doc, got)
			}
			ps, _ := cedar.NewPolicySetFromBytes("f", []byte(doc))
			ids := make([]string, n)
			for k := range ids {
				ids[k] = fmt.Sprintf("policy%d", k)
			}
			sort.Strings(ids)
			var want []string
			for _, id := range ids {
				var k int
				fmt.Sscanf(id, "policy%d", &k)
				want = append(want, src[k])
			}
			if got := string(ps.MarshalCedar()); got != strings.Join(want, "\n\n") {
				t.Fail("PolicySet.MarshalCedar-order", doc, strings.Join(want, "\n\n"), got)
			}
			ps2, err := cedar.NewPolicySetFromBytes("g", ps.MarshalCedar())
			if err != nil {
				t.Fail("PolicySet.MarshalCedar-reparse", doc, "parses", err.Error())
			} else {
				for k, id := range ids {
					p := ps2.Get(cedar.PolicyID(fmt.Sprintf("policy%d", k)))
					if p == nil || string(p.MarshalCedar()) != string(ps.Get(cedar.PolicyID(id)).MarshalCedar()) {
						t.Fail("PolicySet-roundtrip-content", doc, id, "differs")
					}
				}
			}
			var buf bytes.Buffer
			enc := cedar.NewEncoder(&buf)
			for _, p := range pl {
				if err := enc.Encode(p); err != nil {
					t.Fail("Encoder-error", doc, "nil", err.Error())
				}
			}
			// a writer that fails during one Encode call (it accepts nothing of that call) and
			// works again afterwards: the stream holds exactly the policies whose Encode returned nil
			for f := 0; f < n && f < 6; f++ {
				fw := &flakyWriter{}
				fe := cedar.NewEncoder(fw)
				var okSrc []string
				for j, p := range pl {
					fw.failing = j == f
					if err := fe.Encode(p); err == nil {
						okSrc = append(okSrc, src[j])
					} else if j != f {
						t.Fail("Encoder-error-after-writer-recovered", doc, "nil", err.Error())
					}
				}
				fd := cedar.NewDecoder(bytes.NewReader(fw.buf.Bytes()))
				var gotSrc []string
				for {
					var p cedar.Policy
					if err := fd.Decode(&p); err != nil {
						if err.Error() != "EOF" {
							gotSrc = append(gotSrc, "error: "+err.Error())
						}
						break
					}
					gotSrc = append(gotSrc, string(p.MarshalCedar()))
				}
				if fmt.Sprint(gotSrc) != fmt.Sprint(okSrc) {
					t.Fail("Encoder-after-failed-write", fmt.Sprintf("%s ; the writer fails during Encode #%d", doc, f), fmt.Sprint(okSrc), fmt.Sprint(gotSrc))
				}
			}
			dec := cedar.NewDecoder(bytes.NewReader(buf.Bytes()))
			k := 0
			var decoded []*cedar.Policy
			for {
				var p cedar.Policy
				err := dec.Decode(&p)
				if err != nil {
					if err.Error() != "EOF" {
						t.Fail("Decoder-error", buf.String(), "EOF after the last policy", err.Error())
					}
					break
				}
				if k >= n || string(p.MarshalCedar()) != src[k] {
					t.Fail("Encoder-Decoder-content", buf.String(), fmt.Sprint(src), string(p.MarshalCedar()))
					break
				}
				decoded = append(decoded, &p)
				k++
			}
			if k != n {
				t.Fail("Encoder-Decoder-count", buf.String(), fmt.Sprint(n), fmt.Sprint(k))
			}
			// the policies read earlier are still what they were once the whole stream has been read
			for j, p := range decoded {
				js, _ := p.MarshalJSON()
				js0, _ := pl[j].MarshalJSON()
				if string(p.MarshalCedar()) != src[j] || p.Effect() != pl[j].Effect() || fmt.Sprint(p.Annotations()) != fmt.Sprint(pl[j].Annotations()) || string(js) != string(js0) {
					t.Fail("Decoder-earlier-policy-changed", buf.String(), src[j], string(p.MarshalCedar()))
					break
				}
			}
			t.Nontrivial()
			t.Sample(fmt.Sprintf("%d policies", n))
		},
	}
}

// one construct nested very deep (gen.DeepChains): the renderer and the parser keep stacks,
// counters and masks whose capacity small trees never reach.
func deepChains(tier string) *core.Family {
	all := gen.DeepChains(gen.DeepDepths(tier))
	return &core.Family{
		Name: "deep-chains",
		Desc: fmt.Sprintf("%d expressions: each nesting construct of the grammar (prefix-operator chains in 12 mixtures of - and !, access / index / method chains, nested sets, records, method arguments, left- and right-nested binary operators, if chains) at depths %v", len(all), gen.DeepDepths(tier)),
		N:    int64(len(all)),
		Run: func(t *core.T, i int64) {
			name := all[i].Name
			checkExpr(t, "deep:"+name[:strings.LastIndex(name, "/")], all[i].E, true)
			t.Sample(name)
		},
	}
}

func Check() *core.Check {
	return &core.Check{
		ID:        "C08",
		HangAfter: 120 * time.Second, // cases take at most seconds (max_case_s in the evidence); see core.Family.HangAfter
		Title:     "Cedar text marshalling round-trips every policy",
		Rule: "bounded-exhaustive: every operator form over every value of the boundary universe in ast.Value position (negative longs, extension values, sets, records with keyword/empty/control/non-ASCII keys), all depth-2 pairings, all scope/annotation heads, and EVERY Unicode scalar value in every string position; MarshalCedar output must parse, keep effect/annotations/scope, evaluate identically in 6 environments (same value or both fail) and be a byte fixpoint; lists, sets (>=11 policies) and Encoder->Decoder keep content and documented order; " +
			"every executed case is non-trivial (distinct policy)",
		Assumptions: []string{"meaning is compared with x/exp/eval.Eval on the condition bodies (conformance is C01)", "unknown extension names and receiver-less method calls are not expressible in Cedar text (C10 covers that encoders do not panic on them)"},
		Families: func(tier string) []*core.Family {
			full := gen.Leaves(gen.V)
			small := gen.Leaves(gen.W)
			fams := []*core.Family{heads(), containers(), depth1(full, "depth1-values")}
			fams = append(fams, longLiterals(), deepChains(tier))
			if tier == "thorough" {
				fams = append(fams, arithmetic(4))
			} else {
				fams = append(fams, arithmetic(3))
			}
			if tier == "thorough" {
				fams = append(fams, depth2(small[:10]), scalars(0, 0x10FFFF, "unicode-all-scalars"))
			} else {
				neg := []*Expr{L(Bool(true)), L(Bool(false)), L(Long(-1)), L(Long(1)), Var("principal"), L(Decimal(-1)), L(Set(Long(-1)))}
				fams = append(fams, depth2(neg), scalarsLight(), scalars(0, 0x2FFF, "unicode-U+0000-2FFF"), scalars(0xD7F0, 0xE00F, "unicode-surrogate-edge"), scalars(0xFE00, 0x1047F, "unicode-bmp-end-astral-start"), scalars(0xE0000, 0xE01FF, "unicode-tags-variation-selectors"), scalars(0x10FF00, 0x10FFFF, "unicode-last"))
			}
			return fams
		},
	}
}
