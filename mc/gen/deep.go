package gen

import (
	"fmt"

	. "github.com/cedar-policy/cedar-go/verif/refsem"
)

// NamedExpr is an expression with the name of the shape it was generated from.
type NamedExpr struct {
	Name string
	E    *Expr
}

// DeepDepths: nesting depths around the powers of two where a fixed-size stack, a bit mask
// or a counter of the implementation could end.
func DeepDepths(tier string) []int {
	d := []int{9, 16, 17, 31, 32, 33, 63, 64, 65, 66, 70, 127, 128, 129, 130}
	if tier == "thorough" {
		d = append(d, 255, 256, 257, 300)
	}
	return d
}

// DeepChains: one construct nested d deep, for every nesting construct of the expression
// grammar and several mixtures of the two prefix operators (the outermost k operators of one
// kind, the rest of the other; alternating), for every d.
func DeepChains(depths []int) []NamedExpr {
	var out []NamedExpr
	n := Access(Var("context"), "n")
	b := Access(Var("context"), "b")
	unary := func(d int, pick func(i int) Op, base *Expr) *Expr {
		e := base
		for i := d - 1; i >= 0; i-- { // i = 0 is the outermost operator
			e = Un(pick(i), e)
		}
		return e
	}
	for _, d := range depths {
		d := d
		add := func(name string, e *Expr) { out = append(out, NamedExpr{fmt.Sprintf("%s/%d", name, d), e}) }
		add("neg-chain", unary(d, func(int) Op { return ONeg }, n))
		add("not-chain", unary(d, func(int) Op { return ONot }, b))
		add("alternating-neg-not", unary(d, func(i int) Op {
			if i%2 == 0 {
				return ONeg
			}
			return ONot
		}, n))
		for _, k := range []int{1, 2, 3} {
			k := k
			add(fmt.Sprintf("outer-%d-neg-inner-not", k), unary(d, func(i int) Op {
				if i < k {
					return ONeg
				}
				return ONot
			}, b))
			add(fmt.Sprintf("outer-%d-not-inner-neg", k), unary(d, func(i int) Op {
				if i < k {
					return ONot
				}
				return ONeg
			}, n))
			add(fmt.Sprintf("inner-%d-neg-outer-not", k), unary(d, func(i int) Op {
				if i >= d-k {
					return ONeg
				}
				return ONot
			}, n))
		}
		// postfix chains
		e := Var("context")
		for i := 0; i < d; i++ {
			e = Access(e, "a")
		}
		add("access-chain", e)
		e = Var("context")
		for i := 0; i < d; i++ {
			e = Access(e, "a b")
		}
		add("index-chain", e)
		e = Var("context")
		for i := 0; i < d; i++ {
			e = Un(OIsEmpty, e)
		}
		add("method-chain", e)
		// bracketed nestings
		e = n
		for i := 0; i < d; i++ {
			e = SetLit(e)
		}
		add("nested-sets", e)
		e = n
		for i := 0; i < d; i++ {
			e = RecLit([]string{"a"}, []*Expr{e})
		}
		add("nested-records", e)
		e = n
		for i := 0; i < d; i++ {
			e = Bin(OContains, Var("context"), e)
		}
		add("nested-method-arguments", e)
		// binary operators nested to the right (parentheses) and to the left (none)
		e = n
		for i := 0; i < d; i++ {
			e = Bin(OSub, n, e)
		}
		add("right-nested-sub", e)
		e = n
		for i := 0; i < d; i++ {
			e = Bin(OSub, e, n)
		}
		add("left-nested-sub", e)
		e = b
		for i := 0; i < d; i++ {
			e = Bin(OAnd, Bin(OOr, b, e), b)
		}
		add("and-or-nest", e)
		e = n
		for i := 0; i < d; i++ {
			e = If(b, n, e)
		}
		add("else-if-chain", e)
		e = n
		for i := 0; i < d; i++ {
			e = If(b, e, n)
		}
		add("then-if-chain", e)
	}
	return out
}
