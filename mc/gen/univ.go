// Package gen holds the shared finite alphabets: the boundary value universe, the
// entity stores and requests, and the operator table used by C01/C04/C06/C07/...
package gen

import (
	"math"

	. "github.com/cedar-policy/cedar-go/verif/refsem"
)

const (
	MinI = math.MinInt64
	MaxI = math.MaxInt64
	Day  = 86400000
)

func ip6(groups ...uint16) [16]byte {
	var out [16]byte
	for i, g := range groups {
		out[2*i], out[2*i+1] = byte(g>>8), byte(g)
	}
	return out
}

// V is the typed boundary universe (DESIGN §5 C01).
var V = []Val{
	Bool(true), Bool(false),
	// longs
	Long(MinI), Long(MinI + 1), Long(-1 << 32), Long(-2), Long(-1), Long(0), Long(1), Long(2), Long(Day), Long(1 << 31), Long(1 << 32), Long(3037000500), Long(MaxI - 1), Long(MaxI),
	// strings
	Str(""), Str("a"), Str("ab"), Str("*"), Str("é✓"),
	// entities
	Entity("U", "alice"), Entity("U", "bob"), Entity("U", "ghost"), Entity("G", "alice"), Entity("G", "g1"), Entity("G", "g2"), Entity("Action", "view"),
	// sets
	Set(), Set(Long(1)), Set(Long(1), Bool(true)), Set(Set(Long(1))), Set(Entity("U", "alice"), Entity("G", "g2")), Set(Entity("G", "g1"), Long(1)), Set(Str("a"), Str("ab")),
	// records
	Rec(), Rec(KV{"a", Long(1)}), Rec(KV{"a", Long(1)}, KV{"b", Str("x")}), Rec(KV{"a", Rec(KV{"b", Long(1)})}),
	// records that look like the implicit JSON spellings of an entity and of an extension value
	Rec(KV{"id", Str("alice")}, KV{"type", Str("U")}), Rec(KV{"arg", Str("127.0.0.1")}, KV{"fn", Str("ip")}),
	// decimals
	Decimal(MinI), Decimal(-1), Decimal(0), Decimal(1), Decimal(12345), Decimal(MaxI),
	// ip
	IP4(127, 0, 0, 1, 32), IP4(127, 0, 0, 0, 8), IP4(127, 0, 0, 0, 7), IP4(10, 0, 0, 1, 32), IP4(10, 0, 0, 0, 8), IP4(224, 0, 0, 1, 32), IP4(224, 0, 0, 0, 4), IP4(224, 0, 0, 0, 3), IP4(0, 0, 0, 0, 0), IP4(10, 0, 0, 1, 8),
	IP6(ip6(0, 0, 0, 0, 0, 0, 0, 1), 128), IP6(ip6(0, 0, 0, 0, 0, 0, 0, 1), 127), IP6(ip6(0xff00), 8), IP6(ip6(0xff00), 7), IP6(ip6(), 0), IP6(ip6(0x2001, 0xdb8, 0, 0, 0, 0, 0, 1), 128), IP6(ip6(0x2001, 0xdb8), 32),
	// datetimes
	Datetime(MinI), Datetime(MinI + Day), Datetime(-Day - 1), Datetime(-Day), Datetime(-1), Datetime(0), Datetime(1), Datetime(Day - 1), Datetime(Day), Datetime(MaxI - Day), Datetime(MaxI),
	// durations
	Duration(MinI), Duration(-Day - 1), Duration(-Day), Duration(-1), Duration(0), Duration(1), Duration(Day), Duration(MaxI),
}

// W is the 12-value sub-universe for depth-2 trees; W6 its first six.
var W = []Val{
	Bool(true), Long(1), Long(MaxI), Str("a"), Entity("U", "alice"), Set(Long(1), Bool(true)),
	Bool(false), Rec(KV{"a", Long(1)}), Decimal(1), Datetime(-1), Duration(Day), IP4(127, 0, 0, 1, 32),
}

// ExtLits: operands for the four extension constructors (valid, boundary, malformed).
var ExtLits = map[string][]string{
	"decimal": {"0.0", "1.2345", "-0.0001", "922337203685477.5807", "-922337203685477.5808", "922337203685477.5808", "-922337203685477.5809",
		"1", "1.", ".1", "1.23456", "+1.0", "1.0e1", "1_0.0", " 1.0", "1.0 ", "-.5", "--1.0", "1.-5", "00.10", "0.00001", "", "abc", "1..0", "٣.٤"},
	"datetime": {"1970-01-01", "1969-12-31T23:59:59.999Z", "2024-02-29", "2023-02-29", "2024-01-01T00:00:00Z", "2024-01-01T00:00:00.000Z", "2024-01-01T01:00:00+0100",
		"2024-01-01T00:00:00-2359", "2024-01-01T00:00:00+2400", "2024-01-01T00:00:00+0060", "2024-01-01T24:00:00Z", "2024-01-01T00:60:00Z", "2024-01-01T00:00:60Z",
		"2024-13-01", "2024-00-01", "2024-01-00", "2024-01-32", "2024-04-31", "0000-01-01", "9999-12-31T23:59:59.999Z", "+000010000-01-01", "-000000001-12-31",
		"+292278994-08-17T07:12:55.807Z", "+292278994-08-17T07:12:55.808Z", "-292275055-05-16T16:47:04.192Z", "-292275055-05-16T16:47:04.191Z", "-292275055-05-17T00:00:00.000Z",
		"2024-01-01T00:00:00", "2024-01-01T00:00Z", "2024-01-01 00:00:00Z", "2024-1-1", "24-01-01", "2024-01-01T00:00:00.0Z", "2024-01-01T00:00:00.0000Z", "2024-01-01T00:00:00z", "2024-01-01T00:00:00+01:00", "", "x", "2024-01-01Z", "+2024-01-01", "10000-01-01"},
	"duration": {"0ms", "1ms", "1s", "1m", "1h", "1d", "1d1h1m1s1ms", "-1d", "-1ms", "9223372036854775807ms", "9223372036854775808ms", "-9223372036854775807ms", "-9223372036854775808ms",
		"106751991167d7h12m55s807ms", "106751991167d7h12m55s808ms", "-106751991167d7h12m55s808ms", "-106751991167d7h12m55s809ms", "106751991168d", "1h1d", "1m1m", "1", "d", "", "-", "1x", "1 d", "1D", "+1d", "1.5d", "1ms1s", "01d", "0d0h", "1dms", "99999999999999999999d"},
	"ip": {"127.0.0.1", "10.0.0.0/8", "0.0.0.0/0", "1.2.3.4/32", "1.2.3.4/33", "256.0.0.1", "1.2.3", "1.2.3.4.5", "::1", "::", "::/0", "ff00::/8", "2001:db8::1/128", "2001:db8::1/129", "::ffff:1.2.3.4", "1::2::3", "12345::1", "g::1", "", "a", "1.2.3.4/", "1.2.3.4/-1", "1:2:3:4:5:6:7:8", "1:2:3:4:5:6:7:8:9", "1:2:3:4:5:6:7", " 1.2.3.4", "1.2.3.4/ 8",
		// a dotted quad inside an IPv6 literal is never accepted, however the rest is spelled
		"0:0:0:0:0:ffff:192.0.2.128", "0:0:0:0:0:ffff:192.0.2.128/120", "1:2:3:4:5:6:7.8.9.10", "1:2:3:4:5:6:7.8.9.10/128", "::1.2.3.4", "64:ff9b::1.2.3.4", "::ffff:1.2.3.4/96", "1::2:3.4.5.6", "0:0:0:0:0:0:1.2.3.4",
		"::ffff:c000:280", "::ffff:c000:280/120", "0:0:0:0:0:ffff:c000:280", "1:2:3:4:5:6:7:8/0", "FF00::/8", "2001:DB8::1", "::1/128", "0::0", "0:0:0:0:0:0:0:0"},
}

// Stores ---------------------------------------------------------------------

func Stores() []Store {
	alice := func() *Ent {
		return &Ent{Type: "U", ID: "alice", Parents: [][2]string{{"G", "g1"}},
			Attrs: Rec(KV{"a", Long(1)}, KV{"s", Str("x")}, KV{"k k", Bool(true)}, KV{"r", Rec(KV{"b", Long(2)})}, KV{"d", Datetime(-1)}, KV{"friend", Entity("U", "bob")}),
			Tags:  Rec(KV{"a", Str("tagA")}, KV{"", Long(0)})}
	}
	s1 := NewStore(
		alice(),
		&Ent{Type: "U", ID: "bob"},
		&Ent{Type: "G", ID: "g1", Parents: [][2]string{{"G", "g2"}}, Attrs: Rec(KV{"a", Str("group")})},
		&Ent{Type: "G", ID: "g2"},
		&Ent{Type: "G", ID: "alice", Attrs: Rec(KV{"b", Long(7)})},
		&Ent{Type: "Action", ID: "view", Parents: [][2]string{{"Action", "all"}}},
	)
	// missing intermediate: alice -> g1 (absent) ; g1's edge to g2 must not count
	s2 := NewStore(
		alice(),
		&Ent{Type: "G", ID: "g2"},
		&Ent{Type: "U", ID: "ghost", Parents: [][2]string{{"U", "ghost"}, {"U", "alice"}}},
	)
	return []Store{NewStore(), s1, s2}
}

// Requests (principal, action, resource, context).
func Requests() [][4]Val {
	return [][4]Val{
		{Entity("U", "alice"), Entity("Action", "view"), Entity("G", "g1"), Rec(KV{"a", Long(1)}, KV{"s", Set(Long(1))}, KV{"r", Rec(KV{"b", Long(1)})}, KV{"big", Long(MaxI)}, KV{"small", Long(MinI)})},
		{Entity("U", "ghost"), Entity("Action", "edit"), Entity("U", "bob"), Rec()},
	}
}

func Envs() []*Env {
	var out []*Env
	for _, s := range Stores() {
		for _, r := range Requests() {
			out = append(out, &Env{Store: s, Principal: r[0], Action: r[1], Resource: r[2], Context: r[3]})
		}
	}
	return out
}
