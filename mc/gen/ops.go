package gen

import (
	. "github.com/cedar-policy/cedar-go/verif/refsem"
)

// OpSpec is one operator form with a fixed number of expression operands.
type OpSpec struct {
	Name  string
	Arity int
	Build func(a []*Expr) *Expr
}

func un(op Op) func(a []*Expr) *Expr  { return func(a []*Expr) *Expr { return Un(op, a[0]) } }
func bin(op Op) func(a []*Expr) *Expr { return func(a []*Expr) *Expr { return Bin(op, a[0], a[1]) } }
func ext(name string) func(a []*Expr) *Expr {
	return func(a []*Expr) *Expr { return Ext(name, a...) }
}

var Patterns = func() [][]PatElem {
	comps := []PatElem{{Wild: true}, {Lit: "a"}, {Lit: "b"}, {Lit: "*"}}
	out := [][]PatElem{{}}
	var rec func(cur []PatElem, n int)
	rec = func(cur []PatElem, n int) {
		if n == 0 {
			return
		}
		for _, c := range comps {
			nx := append(append([]PatElem{}, cur...), c)
			out = append(out, nx)
			rec(nx, n-1)
		}
	}
	rec(nil, 3)
	return out
}()

var AttrNames = []string{"a", "b", "missing", "", "k k", "r", "s"}
var TypeNames = []string{"U", "G", "Action", "NS::T"}

// Unary, Binary: every operator form taking 1 resp. 2 expression operands.
var Unary, Binary, Ternary []OpSpec

func init() {
	Unary = []OpSpec{
		{"!", 1, un(ONot)}, {"neg", 1, un(ONeg)}, {"isEmpty", 1, un(OIsEmpty)},
		{"set1", 1, func(a []*Expr) *Expr { return SetLit(a[0]) }},
		{"rec1", 1, func(a []*Expr) *Expr { return RecLit([]string{"k"}, a) }},
	}
	for _, n := range ExtNames() {
		if ExtArity(n) == 1 {
			Unary = append(Unary, OpSpec{n, 1, ext(n)})
		}
	}
	for _, n := range AttrNames {
		n := n
		Unary = append(Unary,
			OpSpec{"has:" + n, 1, func(a []*Expr) *Expr { return Has(a[0], n) }},
			OpSpec{"access:" + n, 1, func(a []*Expr) *Expr { return Access(a[0], n) }})
	}
	for _, n := range TypeNames {
		n := n
		Unary = append(Unary, OpSpec{"is:" + n, 1, func(a []*Expr) *Expr { return Is(a[0], n) }})
	}
	Binary = []OpSpec{
		{"&&", 2, bin(OAnd)}, {"||", 2, bin(OOr)}, {"==", 2, bin(OEq)}, {"!=", 2, bin(ONe)},
		{"<", 2, bin(OLt)}, {"<=", 2, bin(OLe)}, {">", 2, bin(OGt)}, {">=", 2, bin(OGe)},
		{"+", 2, bin(OAdd)}, {"-", 2, bin(OSub)}, {"*", 2, bin(OMul)}, {"in", 2, bin(OIn)},
		{"hasTag", 2, bin(OHasTag)}, {"getTag", 2, bin(OGetTag)},
		{"contains", 2, bin(OContains)}, {"containsAll", 2, bin(OContainsAll)}, {"containsAny", 2, bin(OContainsAny)},
		{"set2", 2, func(a []*Expr) *Expr { return SetLit(a[0], a[1]) }},
		{"rec2", 2, func(a []*Expr) *Expr { return RecLit([]string{"x", "y"}, a) }},
	}
	for _, n := range ExtNames() {
		if ExtArity(n) == 2 {
			Binary = append(Binary, OpSpec{n, 2, ext(n)})
		}
	}
	for _, n := range TypeNames[:2] {
		n := n
		Binary = append(Binary, OpSpec{"isin:" + n, 2, func(a []*Expr) *Expr { return IsIn(a[0], n, a[1]) }})
	}
	Ternary = []OpSpec{{"if", 3, func(a []*Expr) *Expr { return If(a[0], a[1], a[2]) }}}
}

// Leaves: literal leaves for every value of V plus the four variables.
func Leaves(vals []Val) []*Expr {
	var out []*Expr
	for _, v := range vals {
		out = append(out, L(v))
	}
	for _, n := range []string{"principal", "action", "resource", "context"} {
		out = append(out, Var(n))
	}
	return out
}
