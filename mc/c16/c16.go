// Package c16: schema resolution and validation terminate without crashing on every input (E1 + E7).
package c16

import (
	"fmt"
	"github.com/cedar-policy/cedar-go/verif/c15"
	"strings"
	"time"

	"github.com/cedar-policy/cedar-go/types"
	"github.com/cedar-policy/cedar-go/verif/core"
	xast "github.com/cedar-policy/cedar-go/x/exp/ast"
	"github.com/cedar-policy/cedar-go/x/exp/schema"
	sast "github.com/cedar-policy/cedar-go/x/exp/schema/ast"
	"github.com/cedar-policy/cedar-go/x/exp/schema/resolved"
	"github.com/cedar-policy/cedar-go/x/exp/schema/validate"
)

var names = []types.Ident{"A", "B", "C"}

func uid(t, id string) types.EntityUID {
	return types.NewEntityUID(types.EntityType(t), types.String(id))
}

// battery: policies / entities / requests thrown at a resolved schema; everything must return.
func battery(t *core.T, sig, desc string, rs *resolved.Schema) {
	var etypes []types.EntityType
	for et := range rs.Entities {
		etypes = append(etypes, et)
	}
	for et := range rs.Enums {
		etypes = append(etypes, et)
	}
	etypes = append(etypes, "Undefined", "NS::A")
	var actions []types.EntityUID
	for a := range rs.Actions {
		actions = append(actions, a)
	}
	actions = append(actions, uid("Action", "undefined"))
	vals := []types.Value{
		types.NewSet(types.Long(1), types.Long(2)), types.NewSet(), types.NewRecord(types.RecordMap{"a": types.Long(1)}), types.Record{},
		mustDecimal(), mustIP(), types.NewDatetimeFromMillis(0), types.NewDurationFromMillis(1),
		types.NewSet(uid("A", "x")), types.NewRecord(types.RecordMap{"e": uid("B", "y"), "s": types.NewSet(types.String("x"))}),
	}
	for _, mode := range []validate.Option{validate.WithStrict(), validate.WithPermissive()} {
		v := validate.New(rs, mode)
		var pols []*xast.Policy
		for _, x := range etypes {
			for _, y := range etypes {
				pols = append(pols,
					xast.Permit().PrincipalIs(x).When(xast.Principal().In(xast.Value(uid(string(y), "y")))),
					xast.Permit().PrincipalIn(uid(string(x), "x")).ResourceIsIn(y, uid(string(x), "x")),
					xast.Forbid().PrincipalIsIn(x, uid(string(y), "y")).ResourceIn(uid(string(y), "y")).When(xast.Resource().IsIn(x, xast.Value(uid(string(y), "y")))),
					xast.Permit().When(xast.Principal().Is(x).And(xast.Resource().In(xast.Set(xast.Value(uid(string(y), "a")), xast.Value(uid(string(x), "b")))))),
					xast.Permit().PrincipalEq(uid(string(x), "x")).ResourceEq(uid(string(y), "y")).When(xast.Value(uid(string(x), "x")).In(xast.Value(uid(string(y), "y")))),
				)
			}
		}
		for _, a := range actions {
			pols = append(pols, xast.Permit().ActionEq(a), xast.Permit().ActionIn(a), xast.Permit().ActionInSet(a, a), xast.Permit().ActionInSet().When(xast.Action().In(xast.Value(a))))
		}
		for _, val := range vals {
			pols = append(pols,
				xast.Permit().When(xast.Context().Access("x").Equal(xast.Value(val))),
				xast.Permit().When(xast.Value(val).Contains(xast.Long(1))),
				xast.Permit().When(xast.Value(val).Access("a").Equal(xast.Long(1))),
				xast.Permit().When(xast.Value(val).Has("a")),
				xast.Permit().When(xast.Value(val).Equal(xast.Value(val))),
				xast.Permit().When(xast.Principal().In(xast.Value(val))),
				xast.Permit().When(xast.ExtensionCall("lessThan", xast.Value(val), xast.Value(val))),
				xast.Permit().When(xast.Set(xast.Value(val), xast.Long(1)).IsEmpty()),
				xast.Permit().When(xast.Record(xast.Pairs{{Key: "k", Value: xast.Value(val)}}).Access("k").Equal(xast.Value(val))),
				xast.Permit().When(xast.IfThenElse(xast.True(), xast.Value(val), xast.Value(val)).Equal(xast.Long(1))),
			)
		}
		pols = append(pols, xast.Permit().When(xast.ExtensionCall("nope")), xast.Permit().When(xast.ExtensionCall("decimal")), xast.Permit().When(xast.ExtensionCall("isIpv4")),
			xast.Permit().When(xast.Principal().HasTag(xast.String("t")).And(xast.Principal().GetTag(xast.Context().Access("k")).Equal(xast.Long(1)))),
			xast.Permit().When(xast.Context().Has("a")), xast.Permit().When(xast.Principal().Access("a").Access("b").Has("c")))
		for pi, p := range pols {
			pi, p := pi, p
			t.Protect(sig+":Policy", fmt.Sprintf("%s; policy #%d %+v", desc, pi, *p), func() { _ = v.Policy("p", p) })
		}
		for _, x := range etypes {
			for _, y := range etypes {
				e := types.Entity{UID: uid(string(x), "x"), Parents: types.NewEntityUIDSet(uid(string(y), "y"), uid(string(x), "x")), Attributes: types.NewRecord(types.RecordMap{"a": types.Long(1), "t": vals[0]}), Tags: types.NewRecord(types.RecordMap{"k": vals[2]})}
				t.Protect(sig+":Entity", fmt.Sprintf("%s; entity %v", desc, e), func() { _ = v.Entity(e) })
				t.Protect(sig+":Entities", fmt.Sprintf("%s; entity %v", desc, e), func() { _ = v.Entities(types.EntityMap{e.UID: e}) })
				for _, a := range actions {
					r := types.Request{Principal: uid(string(x), "x"), Action: a, Resource: uid(string(y), "y"), Context: types.NewRecord(types.RecordMap{"a": types.Long(1), "v": vals[9]})}
					t.Protect(sig+":Request", fmt.Sprintf("%s; request %v", desc, r), func() { _ = v.Request(r) })
				}
			}
		}
		for _, a := range actions {
			e := types.Entity{UID: a, Parents: types.NewEntityUIDSet(actions...)}
			t.Protect(sig+":Entity(action)", fmt.Sprintf("%s; action entity %v", desc, e), func() { _ = v.Entity(e) })
		}
	}
}

func mustDecimal() types.Value { d, _ := types.NewDecimal(15, -1); return d }
func mustIP() types.Value      { i, _ := types.ParseIPAddr("10.0.0.1"); return i }

func resolveAndRun(t *core.T, sig, desc string, s *sast.Schema) {
	var rs *resolved.Schema
	var err error
	if t.Protect(sig+":Resolve", desc, func() { rs, err = schema.NewSchemaFromAST(s).Resolve() }) {
		return
	}
	// the codecs must cope with the same AST
	t.Protect(sig+":MarshalCedar", desc, func() { _, _ = schema.NewSchemaFromAST(s).MarshalCedar() })
	t.Protect(sig+":MarshalJSON", desc, func() { _, _ = schema.NewSchemaFromAST(s).MarshalJSON() })
	if err != nil {
		t.Obs("resolve-error")
		return
	}
	t.Obs("resolved")
	t.Nontrivial()
	battery(t, sig, desc, rs)
}

// (a) entity parent-type digraphs over 3 types (self-loops allowed): 2^9
func hierarchyFamily() *core.Family {
	return &core.Family{
		Name:       "entity-hierarchy-graphs",
		Desc:       "all 512 parent-type digraphs over entity types {A,B,C} (self-loops and cycles included), each resolved and run through the policy / entity / request battery in both modes",
		N:          512,
		Isolated:   true,
		CrashClass: func(i int64) string { return "cyclic-or-acyclic-entity-hierarchy" },
		Run: func(t *core.T, i int64) {
			s := &sast.Schema{Entities: sast.Entities{}, Actions: sast.Actions{}}
			var desc []string
			for a := 0; a < 3; a++ {
				var ps []sast.EntityTypeRef
				for b := 0; b < 3; b++ {
					if i>>(a*3+b)&1 == 1 {
						ps = append(ps, sast.EntityTypeRef(names[b]))
					}
				}
				s.Entities[names[a]] = sast.Entity{ParentTypes: ps, Shape: sast.RecordType{"a": sast.Attribute{Type: sast.Long()}}, Tags: sast.String()}
				desc = append(desc, fmt.Sprintf("entity %s in %v", names[a], ps))
			}
			s.Actions["act"] = sast.Action{AppliesTo: &sast.AppliesTo{Principals: []sast.EntityTypeRef{"A", "B"}, Resources: []sast.EntityTypeRef{"B", "C"}, Context: sast.RecordType{"x": sast.Attribute{Type: sast.Set(sast.Long())}}}}
			resolveAndRun(t, "hierarchy", strings.Join(desc, "; "), s)
			t.Sample(strings.Join(desc, "; "))
		},
	}
}

// (b) common-type bodies: T_i in {Long, T_j, Set<T_j>, {a: T_j}, NS::T_j}: 13^3
func commonTypeFamily() *core.Family {
	opts := 1 + 3*4
	mk := func(o int) (sast.IsType, string) {
		if o == 0 {
			return sast.Long(), "Long"
		}
		j := (o - 1) % 3
		tn := "T" + string(names[j])
		switch (o - 1) / 3 {
		case 0:
			return sast.Type(types.Path(tn)), tn
		case 1:
			return sast.Set(sast.Type(types.Path(tn))), "Set<" + tn + ">"
		case 2:
			return sast.RecordType{"a": sast.Attribute{Type: sast.Type(types.Path(tn)), Optional: j == 1}}, "{a: " + tn + "}"
		}
		return sast.Type(types.Path("NS::" + tn)), "NS::" + tn
	}
	n := int64(opts * opts * opts)
	return &core.Family{
		Name:       "common-type-bodies",
		Desc:       fmt.Sprintf("all %d assignments of bodies {Long, Tj, Set<Tj>, {a: Tj}, NS::Tj} to three common types declared in namespace NS and (for j=C) also at top level, used by an entity attribute, a tag type and an action context (every direct and indirect cycle included)", n),
		N:          n,
		Isolated:   true,
		CrashClass: func(i int64) string { return "cyclic-or-acyclic-common-types" },
		Run: func(t *core.T, i int64) {
			x := int(i)
			ns := sast.Namespace{CommonTypes: sast.CommonTypes{}, Entities: sast.Entities{}, Actions: sast.Actions{}}
			var desc []string
			for k := 0; k < 3; k++ {
				body, d := mk(x % opts)
				x /= opts
				tn := types.Ident("T" + string(names[k]))
				ns.CommonTypes[tn] = sast.CommonType{Type: body}
				desc = append(desc, fmt.Sprintf("type %s = %s", tn, d))
			}
			ns.Entities["E"] = sast.Entity{Shape: sast.RecordType{"f": sast.Attribute{Type: sast.Type("TA")}, "g": sast.Attribute{Type: sast.Set(sast.Type("NS::TB")), Optional: true}}, Tags: sast.Type("TC")}
			ns.Actions["act"] = sast.Action{AppliesTo: &sast.AppliesTo{Principals: []sast.EntityTypeRef{"E"}, Resources: []sast.EntityTypeRef{"E"}, Context: sast.Type("TB")}}
			s := &sast.Schema{Namespaces: sast.Namespaces{"NS": ns}}
			resolveAndRun(t, "common-types", "namespace NS { "+strings.Join(desc, "; ")+" }", s)
			t.Sample(strings.Join(desc, "; "))
		},
	}
}

// (b2) common types spread over three namespaces (top level, A, and the NESTED A::B): an
// unqualified reference resolves to the type of the current namespace if declared there and
// otherwise falls back to the top level - never to an ancestor namespace - and a qualified
// reference is resolved in the namespace it names; a cycle (or a dangling name captured by
// the wrong namespace) can cross the boundaries through either spelling.
func commonTypeNamespaceFamily() *core.Family {
	nsNames := []types.Path{"", "A", "A::B"}
	opts := 1 + 3*4
	mk := func(o int) (sast.IsType, string) {
		if o == 0 {
			return sast.Long(), "Long"
		}
		j := (o - 1) % 3
		tn := "T" + string(names[j])
		switch (o - 1) / 3 {
		case 0:
			return sast.Type(types.Path(tn)), tn
		case 1:
			return sast.Type(types.Path("A::" + tn)), "A::" + tn
		case 2:
			return sast.Type(types.Path("A::B::" + tn)), "A::B::" + tn
		}
		return sast.RecordType{"x": sast.Attribute{Type: sast.Type(types.Path(tn))}}, "{x: " + tn + "}"
	}
	per := opts * opts * opts
	n := int64(27 * per)
	return &core.Family{
		Name:       "common-types-across-namespaces",
		Desc:       fmt.Sprintf("every placement of three common types in {top level, namespace A, nested namespace A::B} (27) x all %d assignments of bodies {Long, Tj, A::Tj, A::B::Tj, {x: Tj}}: cycles and dangling names through unqualified references (current namespace, else top level) and through qualified references into flat and nested namespaces; used by entities and actions of all three namespaces", per),
		N:          n,
		Isolated:   true,
		CrashClass: func(i int64) string { return "common-types-across-namespaces" },
		Run: func(t *core.T, i int64) {
			x := int(i)
			place := x / per
			x %= per
			nss := []sast.Namespace{}
			for range nsNames {
				nss = append(nss, sast.Namespace{CommonTypes: sast.CommonTypes{}, Entities: sast.Entities{}, Actions: sast.Actions{}})
			}
			var desc []string
			var where [3]int
			for k := 0; k < 3; k++ {
				body, d := mk(x % opts)
				x /= opts
				tn := types.Ident("T" + string(names[k]))
				w := place % 3
				place /= 3
				where[k] = w
				nss[w].CommonTypes[tn] = sast.CommonType{Type: body}
				desc = append(desc, fmt.Sprintf("%s{ type %s = %s }", nsNames[w], tn, d))
			}
			// users: next to each type an entity that names it unqualified, and one top-level entity
			// that names all three by their qualified names
			allShape := sast.RecordType{}
			for k := 0; k < 3; k++ {
				tn := "T" + string(names[k])
				w := where[k]
				nss[w].Entities[types.Ident("U"+string(names[k]))] = sast.Entity{Shape: sast.RecordType{"f": sast.Attribute{Type: sast.Type(types.Path(tn))}}, Tags: sast.Set(sast.Type(types.Path(tn)))}
				q := tn
				if nsNames[w] != "" {
					q = string(nsNames[w]) + "::" + tn
				}
				allShape[types.String("f"+string(names[k]))] = sast.Attribute{Type: sast.Type(types.Path(q)), Optional: k == 1}
			}
			nss[0].Entities["E"] = sast.Entity{Shape: allShape}
			nss[0].Actions["act"] = sast.Action{AppliesTo: &sast.AppliesTo{Principals: []sast.EntityTypeRef{"E"}, Resources: []sast.EntityTypeRef{"E"}, Context: allShape}}
			s := &sast.Schema{CommonTypes: nss[0].CommonTypes, Entities: nss[0].Entities, Actions: nss[0].Actions, Namespaces: sast.Namespaces{"A": nss[1], "A::B": nss[2]}}
			resolveAndRun(t, "common-types-ns", strings.Join(desc, "; "), s)
			t.Sample(strings.Join(desc, "; "))
		},
	}
}

// (d2) bodies with TWO references: a record type whose two attributes name common types, each
// reference in either spelling (unqualified, or qualified with the namespace the types live
// in). One target named twice, by one spelling or by both, gives a dependency graph with
// parallel edges; with a cycle elsewhere in the graph every in-degree / visited-set
// bookkeeping of the cycle check is exercised.
func commonTypeTwoRefFamily(tier string) *core.Family {
	nsNames := []types.Path{"", "A", "A::B"}
	type ref struct {
		t sast.IsType
		d string
	}
	refs := func(ns types.Path) []ref {
		out := []ref{{sast.Long(), "Long"}}
		for j := 0; j < 3; j++ {
			tn := "T" + string(names[j])
			out = append(out, ref{sast.Type(types.Path(tn)), tn})
			if ns != "" {
				out = append(out, ref{sast.Type(types.Path(string(ns) + "::" + tn)), string(ns) + "::" + tn})
			}
		}
		return out
	}
	type body struct {
		t sast.IsType
		d string
	}
	bodies := func(ns types.Path) []body {
		rs := refs(ns)
		out := []body{{sast.Long(), "Long"}}
		for _, a := range rs {
			for _, b := range rs {
				out = append(out, body{sast.RecordType{"x": sast.Attribute{Type: a.t}, "y": sast.Attribute{Type: sast.Set(b.t), Optional: true}}, "{x: " + a.d + ", y?: Set<" + b.d + ">}"})
			}
		}
		return out
	}
	var per [3]int
	var third [3][]int // the bodies the third type ranges over (all of them in the thorough tier)
	total := 0
	var offs [4]int
	for w, ns := range nsNames {
		nb := len(bodies(ns))
		if tier == "thorough" {
			for k := 0; k < nb; k++ {
				third[w] = append(third[w], k)
			}
		} else {
			// refs(ns) is [Long, Ta, Tb, Tc] at the top level, else [Long, Ta, NS::Ta, Tb, NS::Tb, Tc, NS::Tc];
			// body 1 + a*nr + b is {x: refs[a], y?: Set<refs[b]>}.
			// Long; {Ta, Long}; {Ta, NS::Ta}; {Tb, NS::Tb}; {Tc, Tc}
			nr := len(refs(ns))
			if ns == "" {
				third[w] = []int{0, 1 + 1*nr + 0, 1 + 1*nr + 1, 1 + 2*nr + 2, 1 + 3*nr + 3}
			} else {
				third[w] = []int{0, 1 + 1*nr + 0, 1 + 1*nr + 2, 1 + 3*nr + 4, 1 + 5*nr + 5}
			}
		}
		per[w] = nb * nb * len(third[w])
		offs[w+1] = offs[w] + per[w]
		total += per[w]
	}
	return &core.Family{
		Name:       "common-types-with-two-references",
		Desc:       fmt.Sprintf("three common types together in the top level, in A, or in A::B; bodies Long or {x: R1, y?: Set<R2>} with R1, R2 over {Long, Tj, NS::Tj} (every pair of targets and of spellings, incl. one target named twice by both spellings): %d schemas; used by an entity and an action context next to them", total),
		N:          int64(total),
		Isolated:   true,
		CrashClass: func(i int64) string { return "common-types-with-two-references" },
		Run: func(t *core.T, i int64) {
			x := int(i)
			w := 0
			for x >= offs[w+1] {
				w++
			}
			x -= offs[w]
			ns := nsNames[w]
			bs := bodies(ns)
			idx := [3]int{x % len(bs), x / len(bs) % len(bs), third[w][x/len(bs)/len(bs)]}
			n := sast.Namespace{CommonTypes: sast.CommonTypes{}, Entities: sast.Entities{}, Actions: sast.Actions{}}
			var desc []string
			shape := sast.RecordType{}
			for k := 0; k < 3; k++ {
				tn := types.Ident("T" + string(names[k]))
				n.CommonTypes[tn] = sast.CommonType{Type: bs[idx[k]].t}
				desc = append(desc, fmt.Sprintf("type %s = %s", tn, bs[idx[k]].d))
				shape[types.String("f"+string(names[k]))] = sast.Attribute{Type: sast.Type(types.Path(tn))}
			}
			n.Entities["E"] = sast.Entity{Shape: shape}
			n.Actions["act"] = sast.Action{AppliesTo: &sast.AppliesTo{Principals: []sast.EntityTypeRef{"E"}, Resources: []sast.EntityTypeRef{"E"}, Context: shape}}
			s := &sast.Schema{}
			if ns == "" {
				s.CommonTypes, s.Entities, s.Actions = n.CommonTypes, n.Entities, n.Actions
			} else {
				s.Namespaces = sast.Namespaces{ns: n}
			}
			d := fmt.Sprintf("namespace %q { %s }", ns, strings.Join(desc, "; "))
			resolveAndRun(t, "common-types-two-refs", d, s)
			t.Sample(d)
		},
	}
}

// (e) typechecker totality: every policy of C15's policy space (all operator forms over
// typed leaves, well- and ill-typed) plus three-element set literals over entity-type
// unions, record unions and scalars: Validator.Policy returns in both modes.
func typecheckerFamily() *core.Family {
	const chunk = 256
	n := (c15.TotalityN() + chunk - 1) / chunk
	return &core.Family{
		Name: "typechecker-totality",
		Desc: fmt.Sprintf("%d policies over the C15 schema: every unary / binary operator form over typed leaves (existing, optional and missing attributes, literals and extension values of every type) and every 3-element set literal over 17 operands (entities of three types, if-then-else unions of two and three entity types, record unions, scalars, variables) inside contains / == / in; Validator.Policy returns in strict and permissive mode (no panic)", c15.TotalityN()),
		N:    n,
		Run: func(t *core.T, i int64) {
			vs, vp, err := c15.TotalityValidators()
			if err != nil {
				t.Fail("harness-schema", "C15 schema", "resolves", err.Error())
				return
			}
			for k := i * chunk; k < (i+1)*chunk && k < c15.TotalityN(); k++ {
				desc, p := c15.TotalityPolicy(k)
				t.Protect("typechecker:Policy:strict", desc, func() { _ = vs.Policy("p", p) })
				t.Protect("typechecker:Policy:permissive", desc, func() { _ = vp.Policy("p", p) })
			}
			t.AddStates(chunk)
			t.Nontrivial()
		},
	}
}

// (f) degenerate names: attribute names that are empty, one character, contain a dot, or look
// like a request variable; an entity type named Action with attributes; every access path of
// depth 1-3 over them from every request variable, read plainly, guarded and under `has`.
// The validator builds paths and messages from these names; it must return in both modes.
func degenerateNamesFamily() *core.Family {
	const text = `
entity U { "": { o?: Long, "": { o?: Long } }, a: { o?: Long }, "a.b": { o?: Long }, context: { o?: Long }, o?: Long } tags { o?: Long };
entity Action { "": { o?: Long, "": { o?: Long } }, a: { o?: Long }, "a.b": { o?: Long }, context: { o?: Long }, o?: Long };
action act appliesTo { principal: U, resource: U, context: { "": { o?: Long, "": { o?: Long } }, a: { o?: Long }, "a.b": { o?: Long }, context: { o?: Long }, o?: Long } };
`
	keys := []string{"", "a", "a.b", "context", "o", "zz"}
	vars := []string{"principal", "action", "resource", "context"}
	type path struct {
		v    string
		keys []string
	}
	var paths []path
	for _, v := range vars {
		for _, k1 := range keys {
			paths = append(paths, path{v, []string{k1}})
			for _, k2 := range keys {
				paths = append(paths, path{v, []string{k1, k2}})
				for _, k3 := range []string{"", "o"} {
					paths = append(paths, path{v, []string{k1, k2, k3}})
				}
			}
		}
	}
	mk := func(p path, n int) xast.Node {
		e := map[string]xast.Node{"principal": xast.Principal(), "action": xast.Action(), "resource": xast.Resource(), "context": xast.Context()}[p.v]
		for _, k := range p.keys[:n] {
			e = e.Access(types.String(k))
		}
		return e
	}
	return &core.Family{
		Name: "degenerate-names",
		Desc: fmt.Sprintf("%d access paths of depth 1-3 over the attribute names %q from every request variable (entity type Action declared with attributes; optional members at every level): read, compared, under has, guarded by has of the same and of the parent path; Validator.Policy returns in both modes", len(paths), keys),
		N:    int64(len(paths)),
		Run: func(t *core.T, i int64) {
			var sc schema.Schema
			if err := sc.UnmarshalCedar([]byte(text)); err != nil {
				t.Fail("harness-schema", text, "parses", err.Error())
				return
			}
			rs, err := sc.Resolve()
			if err != nil {
				t.Fail("harness-schema", text, "resolves", err.Error())
				return
			}
			vs, vp := validate.New(rs, validate.WithStrict()), validate.New(rs, validate.WithPermissive())
			p := paths[i]
			n := len(p.keys)
			full := mk(p, n)
			parent := mk(p, n-1)
			last := types.String(p.keys[n-1])
			conds := []xast.Node{
				full.Equal(xast.Long(1)),
				full,
				parent.Has(last),
				parent.Has(last).And(full.Equal(xast.Long(1))),
				full.Equal(xast.Long(1)).And(parent.Has(last)),
				xast.Not(parent.Has(last)).Or(full.Equal(xast.Long(1))),
				xast.IfThenElse(parent.Has(last), full.Equal(xast.Long(1)), xast.True()),
				full.Has("o"),
				full.Has("o").And(full.Access("o").Equal(xast.Long(1))),
			}
			desc := fmt.Sprintf("%s%q", p.v, p.keys)
			for k, c := range conds {
				for _, unless := range []bool{false, true} {
					pol := xast.Permit()
					if unless {
						pol = pol.Unless(c)
					} else {
						pol = pol.When(c)
					}
					d := fmt.Sprintf("%s condition %d unless=%v", desc, k, unless)
					t.Protect("degenerate-names:Policy:strict", d, func() { _ = vs.Policy("p", pol) })
					t.Protect("degenerate-names:Policy:permissive", d, func() { _ = vp.Policy("p", pol) })
				}
			}
			t.AddStates(int64(2 * len(conds)))
			t.Nontrivial()
			t.Sample(desc)
		},
	}
}

// (g) tag types: getTag / hasTag on one entity type and on unions of two, where the tag types
// are scalars, records, entities and sets of entities (equal, different, missing): the
// typechecker joins and compares these types.
func tagTypeFamily() *core.Family {
	const text = `
entity A tags { level: Long };
entity B tags { level: Long };
entity B2 tags { level: String, extra?: Bool };
entity C tags A;
entity C2 tags A;
entity D tags Set<A>;
entity D2 tags Set<{ level: Long }>;
entity E tags String;
entity F;
action act appliesTo { principal: [A, B, B2, C, C2, D, D2, E, F], resource: [A, B, B2, C, C2, D, D2, E, F], context: { flag: Bool } };
`
	tys := []types.EntityType{"A", "B", "B2", "C", "C2", "D", "D2", "E", "F"}
	return &core.Family{
		Name: "tag-type-unions",
		Desc: fmt.Sprintf("%d x %d (principal type, resource type) pairs over entity types whose tags are records, entities, sets of entities, sets of records, strings or absent: getTag / hasTag on each variable and on the union `if c then principal else resource` (directly, and inside a record so that strict mode accepts the union), guarded and unguarded; Validator.Policy returns in both modes", len(tys), len(tys)),
		N:    int64(len(tys) * len(tys)),
		Run: func(t *core.T, i int64) {
			var sc schema.Schema
			if err := sc.UnmarshalCedar([]byte(text)); err != nil {
				t.Fail("harness-schema", text, "parses", err.Error())
				return
			}
			rs, err := sc.Resolve()
			if err != nil {
				t.Fail("harness-schema", text, "resolves", err.Error())
				return
			}
			vs, vp := validate.New(rs, validate.WithStrict()), validate.New(rs, validate.WithPermissive())
			pt, rt := tys[int(i)/len(tys)], tys[int(i)%len(tys)]
			flag := xast.Context().Access("flag")
			union := xast.IfThenElse(flag, xast.Principal(), xast.Resource())
			viaRecord := xast.IfThenElse(flag, xast.Record(xast.Pairs{{Key: "e", Value: xast.Principal()}}), xast.Record(xast.Pairs{{Key: "e", Value: xast.Resource()}})).Access("e")
			k := xast.String("k")
			var conds []xast.Node
			for _, x := range []xast.Node{xast.Principal(), xast.Resource(), union, viaRecord} {
				conds = append(conds,
					x.GetTag(k).Equal(xast.Long(1)),
					x.HasTag(k),
					x.HasTag(k).And(x.GetTag(k).Equal(x.GetTag(k))),
					x.HasTag(k).And(x.GetTag(k).Access("level").Equal(xast.Long(1))),
					x.HasTag(k).And(x.GetTag(k).Has("level")),
					x.HasTag(k).And(xast.Principal().In(x.GetTag(k))),
					x.HasTag(k).And(x.GetTag(k).Contains(xast.Principal())),
					x.HasTag(k).And(x.GetTag(k).Like(types.NewPattern(types.Wildcard{}))),
					x.GetTag(k).Equal(xast.Principal().GetTag(k)),
				)
			}
			desc := fmt.Sprintf("principal is %s, resource is %s", pt, rt)
			for ci, c := range conds {
				pol := xast.Permit().PrincipalIs(pt).ResourceIs(rt).When(c)
				d := fmt.Sprintf("%s, condition %d", desc, ci)
				t.Protect("tag-types:Policy:strict", d, func() { _ = vs.Policy("p", pol) })
				t.Protect("tag-types:Policy:permissive", d, func() { _ = vp.Policy("p", pol) })
			}
			t.AddStates(int64(2 * len(conds)))
			t.Nontrivial()
			t.Sample(desc)
		},
	}
}

// (c) action-group digraphs over 3 actions: 2^9
func actionFamily() *core.Family {
	return &core.Family{
		Name:       "action-group-graphs",
		Desc:       "all 512 membership digraphs over actions {a,b,c} (self-membership and cycles included), plus qualified / undefined parents",
		N:          512 + 4,
		Isolated:   true,
		CrashClass: func(i int64) string { return "cyclic-or-acyclic-action-groups" },
		Run: func(t *core.T, i int64) {
			acts := []types.String{"a", "b", "c"}
			s := &sast.Schema{Entities: sast.Entities{"U": sast.Entity{}, "R": sast.Entity{ParentTypes: []sast.EntityTypeRef{"R"}}}, Actions: sast.Actions{}}
			var desc []string
			for a := 0; a < 3; a++ {
				var ps []sast.ParentRef
				if i < 512 {
					for b := 0; b < 3; b++ {
						if i>>(a*3+b)&1 == 1 {
							ps = append(ps, sast.ParentRefFromID(acts[b]))
						}
					}
				} else {
					switch i - 512 {
					case 0:
						ps = append(ps, sast.NewParentRef("Action", acts[(a+1)%3]))
					case 1:
						ps = append(ps, sast.NewParentRef("NS::Action", "zz"))
					case 2:
						ps = append(ps, sast.ParentRefFromID("undefined"))
					case 3:
						ps = append(ps, sast.NewParentRef("U", "x"))
					}
				}
				s.Actions[acts[a]] = sast.Action{Parents: ps, AppliesTo: &sast.AppliesTo{Principals: []sast.EntityTypeRef{"U"}, Resources: []sast.EntityTypeRef{"R"}}}
				desc = append(desc, fmt.Sprintf("action %s in %v", acts[a], ps))
			}
			resolveAndRun(t, "action-groups", strings.Join(desc, "; "), s)
			t.Sample(strings.Join(desc, "; "))
		},
	}
}

// (d) undefined references in every reference position; shadowing of every declaration kind.
func referenceFamily() *core.Family {
	type variant struct {
		name string
		mk   func() *sast.Schema
	}
	base := func() *sast.Schema {
		return &sast.Schema{
			Entities:    sast.Entities{"U": sast.Entity{}, "G": sast.Entity{}},
			Enums:       sast.Enums{"Color": sast.Enum{Values: []types.String{"red", "green"}}},
			CommonTypes: sast.CommonTypes{"T": sast.CommonType{Type: sast.Long()}},
			Actions:     sast.Actions{"view": sast.Action{AppliesTo: &sast.AppliesTo{Principals: []sast.EntityTypeRef{"U"}, Resources: []sast.EntityTypeRef{"G"}}}},
			Namespaces: sast.Namespaces{"NS": sast.Namespace{
				Entities:    sast.Entities{"V": sast.Entity{ParentTypes: []sast.EntityTypeRef{"U"}}},
				CommonTypes: sast.CommonTypes{"W": sast.CommonType{Type: sast.Type("T")}},
				Actions:     sast.Actions{"edit": sast.Action{Parents: []sast.ParentRef{sast.NewParentRef("Action", "view")}}},
			}},
		}
	}
	refs := []sast.IsType{sast.Type("Nope"), sast.Type("NS::Nope"), sast.EntityTypeRef("Nope"), sast.Type("__cedar::Nope"), sast.Type("__cedar::Long"), sast.Type("U"), sast.Type("Color"), sast.Type("NS::V"), sast.Type(""), sast.EntityTypeRef(""), sast.Set(sast.Type("Nope")), sast.RecordType{"x": sast.Attribute{Type: sast.Type("Nope")}}, sast.ExtensionType("nope"), sast.Type("Long"), sast.Type("T")}
	var vs []variant
	for ri, r := range refs {
		ri, r := ri, r
		vs = append(vs,
			variant{fmt.Sprintf("attr-type-%d", ri), func() *sast.Schema {
				s := base()
				s.Entities["U"] = sast.Entity{Shape: sast.RecordType{"a": sast.Attribute{Type: r}}}
				return s
			}},
			variant{fmt.Sprintf("tags-type-%d", ri), func() *sast.Schema { s := base(); s.Entities["U"] = sast.Entity{Tags: r}; return s }},
			variant{fmt.Sprintf("common-type-%d", ri), func() *sast.Schema { s := base(); s.CommonTypes["T"] = sast.CommonType{Type: r}; return s }},
			variant{fmt.Sprintf("context-type-%d", ri), func() *sast.Schema {
				s := base()
				s.Actions["view"] = sast.Action{AppliesTo: &sast.AppliesTo{Principals: []sast.EntityTypeRef{"U"}, Resources: []sast.EntityTypeRef{"G"}, Context: r}}
				return s
			}},
			variant{fmt.Sprintf("ns-common-type-%d", ri), func() *sast.Schema {
				s := base()
				ns := s.Namespaces["NS"]
				ns.CommonTypes["W"] = sast.CommonType{Type: r}
				s.Namespaces["NS"] = ns
				return s
			}},
		)
	}
	for _, pt := range []sast.EntityTypeRef{"Nope", "NS::Nope", "Color", "T", "", "NS::V", "U"} {
		pt := pt
		vs = append(vs,
			variant{"parent-type-" + string(pt), func() *sast.Schema {
				s := base()
				s.Entities["G"] = sast.Entity{ParentTypes: []sast.EntityTypeRef{pt}}
				return s
			}},
			variant{"principal-type-" + string(pt), func() *sast.Schema {
				s := base()
				s.Actions["view"] = sast.Action{AppliesTo: &sast.AppliesTo{Principals: []sast.EntityTypeRef{pt}, Resources: []sast.EntityTypeRef{pt}}}
				return s
			}},
		)
	}
	// shadowing: a namespaced declaration with the basename of a top-level declaration of each kind
	for _, nm := range []types.Ident{"U", "Color", "T", "Long", "Set", "Action"} {
		nm := nm
		vs = append(vs,
			variant{"ns-entity-named-" + string(nm), func() *sast.Schema {
				s := base()
				ns := s.Namespaces["NS"]
				ns.Entities[nm] = sast.Entity{}
				s.Namespaces["NS"] = ns
				return s
			}},
			variant{"ns-type-named-" + string(nm), func() *sast.Schema {
				s := base()
				ns := s.Namespaces["NS"]
				ns.CommonTypes[nm] = sast.CommonType{Type: sast.Long()}
				s.Namespaces["NS"] = ns
				return s
			}},
			variant{"ns-enum-named-" + string(nm), func() *sast.Schema {
				s := base()
				ns := s.Namespaces["NS"]
				ns.Enums = sast.Enums{nm: sast.Enum{Values: []types.String{"x"}}}
				s.Namespaces["NS"] = ns
				return s
			}},
			variant{"top-entity-and-enum-named-" + string(nm), func() *sast.Schema {
				s := base()
				s.Entities[nm] = sast.Entity{}
				s.Enums[nm] = sast.Enum{Values: []types.String{"x"}}
				return s
			}},
		)
	}
	vs = append(vs,
		variant{"ns-action-named-view", func() *sast.Schema {
			s := base()
			ns := s.Namespaces["NS"]
			ns.Actions["view"] = sast.Action{}
			s.Namespaces["NS"] = ns
			return s
		}},
		variant{"empty-schema", func() *sast.Schema { return &sast.Schema{} }},
		variant{"nil-appliesTo-lists", func() *sast.Schema {
			s := base()
			s.Actions["view"] = sast.Action{AppliesTo: &sast.AppliesTo{}}
			return s
		}},
		variant{"enum-no-values", func() *sast.Schema { s := base(); s.Enums["Color"] = sast.Enum{}; return s }},
		variant{"enum-as-principal", func() *sast.Schema {
			s := base()
			s.Actions["view"] = sast.Action{AppliesTo: &sast.AppliesTo{Principals: []sast.EntityTypeRef{"Color"}, Resources: []sast.EntityTypeRef{"Color"}}}
			return s
		}},
	)
	return &core.Family{
		Name:       "references-and-shadowing",
		Desc:       fmt.Sprintf("%d variants of a base schema: 15 type references (undefined, qualified, built-in, entity, enum, empty) in every type position, 7 entity-type references in parent / principal / resource position, shadowing of every declaration kind, degenerate declarations", len(vs)),
		N:          int64(len(vs)),
		Isolated:   true,
		CrashClass: func(i int64) string { return vs[i].name },
		Run: func(t *core.T, i int64) {
			v := vs[i]
			var s *sast.Schema
			if t.Protect("references:build", v.name, func() { s = v.mk() }) {
				return
			}
			resolveAndRun(t, "references", v.name, s)
			t.Sample(v.name)
		},
	}
}

func Check() *core.Check {
	return &core.Check{
		ID:        "C16",
		HangAfter: 60 * time.Second, // cases take milliseconds (see max_case_s in the evidence)
		Title:     "Schema resolution and validation terminate without crashing on every input",
		Rule: "bounded-exhaustive over a 3-name universe, each dimension exhaustively with the others at a base value: all 512 entity parent-type digraphs, all 2197 common-type body assignments (every cycle), all 512 action-group digraphs, undefined / qualified / built-in / nil references in every reference position, shadowing of every declaration kind; every schema that resolves is run through a battery of policies (every scope form and in / is / is-in between every pair of types; literals that are sets, records and extension values as JSON-decoded policies contain them; unknown and receiver-less extension calls), entities and requests in both modes; everything must return (no panic; no fatal error: cases run in isolated worker processes); " +
			"a case is non-trivial if the schema resolved (so the validation battery ran)",
		Assumptions: []string{"pairs of dimensions are not combined (one dimension at a time)", "a nil type inside a programmatically built schema AST is outside the domain (no decoder produces one)"},
		Families: func(tier string) []*core.Family {
			return []*core.Family{referenceFamily(), hierarchyFamily(), commonTypeFamily(), commonTypeNamespaceFamily(), commonTypeTwoRefFamily(tier), actionFamily(), typecheckerFamily(), degenerateNamesFamily(), tagTypeFamily()}
		},
	}
}
