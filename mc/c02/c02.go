// Package c02: authorization decision — default deny, forbid overrides permit, errors skip (E1 + E2 + E6).
package c02

import (
	"context"
	"fmt"
	"io"
	"iter"
	"sort"
	"strings"
	"time"

	cedar "github.com/cedar-policy/cedar-go"
	"github.com/cedar-policy/cedar-go/types"
	"github.com/cedar-policy/cedar-go/verif/core"
	"github.com/cedar-policy/cedar-go/verif/gen"
	"github.com/cedar-policy/cedar-go/verif/refsem"
	"github.com/cedar-policy/cedar-go/x/exp/batch"
)

// outcome classes, declared by hand per realisation (the oracle), and re-checked
// against a solo evaluation as a harness sanity test.
const (
	sat = iota
	unsat
	erring
)

type atom struct {
	class int
	body  string // everything after the effect keyword
}

var atoms = []atom{
	// satisfied
	{sat, "(principal, action, resource);"},
	{sat, `(principal == U::"alice", action, resource);`},
	{sat, "(principal, action, resource) when { true };"},
	{sat, "(principal, action, resource) unless { false };"},
	{sat, "(principal, action, resource) when { context.a == 1 } unless { context.a == 2 };"},
	{sat, `(principal in G::"g2", action in [Action::"view", Action::"x"], resource is G in G::"g2");`},
	// unsatisfied
	{unsat, `(principal == U::"bob", action, resource);`},
	{unsat, "(principal, action, resource) when { false };"},
	{unsat, "(principal, action, resource) unless { true };"},
	{unsat, "(principal, action, resource) when { true } when { context.a == 2 };"},
	{unsat, "(principal, action, resource is U);"},
	{unsat, `(principal, action in [Action::"other"], resource);`},
	{unsat, "(principal, action, resource) when { false } when { context.missing };"},
	{unsat, `(principal == U::"bob", action, resource) when { context.missing };`},
	{unsat, "(principal, action, resource) when { false && context.missing };"},
	// erroring
	{erring, `(principal, action, resource) when { context.a < "x" };`},
	{erring, "(principal, action, resource) when { context.big + 1 > 0 };"},
	{erring, "(principal, action, resource) when { context.missing };"},
	{erring, `(principal, action, resource) when { U::"ghost".a == 1 };`},
	{erring, "(principal, action, resource) when { context.a };"},
	{erring, "(principal, action, resource) when { true } when { context.missing };"},
	{erring, "(principal, action, resource) unless { context.a };"},
	{erring, `(principal, action, resource) when { decimal("x") == decimal("1.0") };`},
	{erring, `(principal, action, resource) when { principal.nope };`},
}

var byClass [3][]int

// nHand is the number of hand-written realisations; atoms[nHand:] are the generated
// condition lists (every sequence of up to 3 when/unless clauses over 6 bodies), whose
// class is computed by the clause-conjunction rule of the property statement.
var nHand int

type clauseBody struct {
	text  string
	class int // sat: evaluates to true, unsat: to false, erring: fails or is not a boolean
}

var clauseBodies = []clauseBody{
	{"true", sat}, {"false", unsat}, {"context.a == 1", sat}, {"context.a == 2", unsat}, {"context.missing", erring}, {"context.a", erring},
}

func init() {
	nHand = len(atoms)
	for i, a := range atoms {
		byClass[a.class] = append(byClass[a.class], i)
	}
	nb := len(clauseBodies) * 2
	var rec func(text string, class int, decided bool, depth int)
	rec = func(text string, class int, decided bool, depth int) {
		if depth > 0 {
			atoms = append(atoms, atom{class, "(principal, action, resource)" + text + ";"})
		}
		if depth == 3 {
			return
		}
		for k := 0; k < nb; k++ {
			b := clauseBodies[k/2]
			when := k%2 == 0
			kw := " unless { "
			if when {
				kw = " when { "
			}
			c, d := class, decided
			if !d {
				switch {
				case b.class == erring:
					c, d = erring, true
				case (b.class == sat) != when:
					c, d = unsat, true
				}
			}
			rec(text+kw+b.text+" }", c, d, depth+1)
		}
	}
	rec("", sat, false, 0)
}

// condFamily: every generated condition list, as a permit and as a forbid, next to one
// opponent policy in both document orders.
func condFamily() *core.Family {
	opp := []item{{false, 0}, {true, 0}, {false, byClass[erring][0]}}
	ng := len(atoms) - nHand
	return &core.Family{
		Name: "condition-lists-with-opponent",
		Desc: fmt.Sprintf("every list of 1..3 when/unless clauses over the bodies {true, false, context.a == 1, context.a == 2, context.missing, context.a (not a boolean)} (%d policies) x {permit, forbid} x an opponent {satisfied permit, satisfied forbid, erroring permit} x both document orders", ng),
		N:    int64(ng * 2 * len(opp) * 2),
		Run: func(t *core.T, i int64) {
			x := int(i)
			first := x%2 == 0
			x /= 2
			o := opp[x%len(opp)]
			x /= len(opp)
			me := item{forbid: x%2 == 1, atom: nHand + x/2}
			if first {
				checkSeq(t, []item{me, o})
			} else {
				checkSeq(t, []item{o, me})
			}
		},
	}
}

var separators = []string{"", "\n", " ", "// c\n", "\n\n", "@id(\"x\")\n", "\t", "@a(\"1\") @b(\"2\") "}

var refEnv = func() *refsem.Env {
	s := gen.Stores()[1]
	return &refsem.Env{Store: s, Principal: refsem.Entity("U", "alice"), Action: refsem.Entity("Action", "view"), Resource: refsem.Entity("G", "g1"),
		Context: refsem.Rec(refsem.KV{K: "a", V: refsem.Long(1)}, refsem.KV{K: "big", V: refsem.Long(gen.MaxI)})}
}()
var entities = refEnv.Store.ToImpl()
var request = cedar.Request{Principal: types.NewEntityUID("U", "alice"), Action: types.NewEntityUID("Action", "view"), Resource: types.NewEntityUID("G", "g1"),
	Context: refEnv.Context.ToImpl().(types.Record)}

// request2 differs from request in every part that the realisations read
var request2 = cedar.Request{Principal: types.NewEntityUID("U", "bob"), Action: types.NewEntityUID("Action", "edit"), Resource: types.NewEntityUID("U", "alice"),
	Context: types.NewRecord(types.RecordMap{"a": types.Long(2), "missing": types.True, "big": types.Long(0)})}

type item struct {
	forbid bool
	atom   int
}

type built struct {
	doc  string
	ids  []string
	pos  []cedar.Position
	want expect
}

type expect struct {
	allow   bool
	reasons []string // id@pos
	errors  []string
}

func posStr(p cedar.Position) string {
	return fmt.Sprintf("%s:%d:%d:%d", p.Filename, p.Offset, p.Line, p.Column)
}

func build(items []item) built {
	var sb strings.Builder
	var b built
	line, col := 1, 1
	adv := func(s string) {
		for _, r := range s {
			if r == '\n' {
				line++
				col = 1
			} else {
				col++
			}
		}
		sb.WriteString(s)
	}
	var perm, forb, errs []string
	for i, it := range items {
		sep := separators[(i+it.atom)%len(separators)]
		// an annotation is part of the policy: its position is the '@'
		if strings.HasPrefix(sep, "@") {
			p := cedar.Position{Filename: "doc.cedar", Offset: sb.Len(), Line: line, Column: col}
			b.pos = append(b.pos, p)
			adv(sep)
		} else {
			adv(sep)
			b.pos = append(b.pos, cedar.Position{Filename: "doc.cedar", Offset: sb.Len(), Line: line, Column: col})
		}
		if it.forbid {
			adv("forbid ")
		} else {
			adv("permit ")
		}
		adv(atoms[it.atom].body)
		adv("\n")
		id := fmt.Sprintf("policy%d", i)
		b.ids = append(b.ids, id)
		tag := id + "@" + posStr(b.pos[i])
		switch atoms[it.atom].class {
		case sat:
			if it.forbid {
				forb = append(forb, tag)
			} else {
				perm = append(perm, tag)
			}
		case erring:
			errs = append(errs, tag)
		}
	}
	b.doc = sb.String()
	sort.Strings(perm)
	sort.Strings(forb)
	sort.Strings(errs)
	b.want.errors = errs
	if len(forb) > 0 {
		b.want.reasons = forb
	} else if len(perm) > 0 {
		b.want.allow = true
		b.want.reasons = perm
	}
	return b
}

func observed(dec cedar.Decision, diag cedar.Diagnostic) (expect, string) {
	var e expect
	e.allow = bool(dec)
	bad := ""
	for _, r := range diag.Reasons {
		e.reasons = append(e.reasons, string(r.PolicyID)+"@"+posStr(r.Position))
	}
	for _, r := range diag.Errors {
		e.errors = append(e.errors, string(r.PolicyID)+"@"+posStr(r.Position))
		if r.Message == "" {
			bad = "empty error message for " + string(r.PolicyID)
		}
	}
	sort.Strings(e.reasons)
	sort.Strings(e.errors)
	return e, bad
}

func (e expect) String() string {
	return fmt.Sprintf("allow=%v reasons=%v errors=%v", e.allow, e.reasons, e.errors)
}

type orderedIter struct {
	ids   []cedar.PolicyID
	pols  []*cedar.Policy
	order []int
}

func (o orderedIter) All() iter.Seq2[cedar.PolicyID, *cedar.Policy] {
	return func(yield func(cedar.PolicyID, *cedar.Policy) bool) {
		for _, i := range o.order {
			if !yield(o.ids[i], o.pols[i]) {
				return
			}
		}
	}
}

// onceIter is a PolicyIterator over a stream: the policies can be walked once (a decoder, a
// cursor, a channel); every later All() yields nothing. shiftIter yields the same policies in
// a different rotation on every call.
type onceIter struct {
	orderedIter
	used *bool
}

func (o onceIter) All() iter.Seq2[cedar.PolicyID, *cedar.Policy] {
	return func(yield func(cedar.PolicyID, *cedar.Policy) bool) {
		if *o.used {
			return
		}
		*o.used = true
		o.orderedIter.All()(yield)
	}
}

type shiftIter struct {
	orderedIter
	calls *int
}

func (o shiftIter) All() iter.Seq2[cedar.PolicyID, *cedar.Policy] {
	return func(yield func(cedar.PolicyID, *cedar.Policy) bool) {
		k := len(o.order)
		r := *o.calls
		*o.calls++
		for j := 0; j < k; j++ {
			i := o.order[(j+r)%k]
			if !yield(o.ids[i], o.pols[i]) {
				return
			}
		}
	}
}

func orders(k int) [][]int {
	if k <= 4 {
		return core.Perms(k)
	}
	id := make([]int, k)
	rev := make([]int, k)
	for i := range id {
		id[i] = i
		rev[i] = k - 1 - i
	}
	out := [][]int{id, rev}
	for r := 1; r < k; r++ {
		rot := make([]int, k)
		for i := range rot {
			rot[i] = (i + r) % k
		}
		out = append(out, rot)
	}
	return out
}

func describe(items []item) string {
	var parts []string
	for _, it := range items {
		eff := "permit"
		if it.forbid {
			eff = "forbid"
		}
		parts = append(parts, eff+" "+atoms[it.atom].body)
	}
	return strings.Join(parts, " | ")
}

func classSig(items []item) string {
	var parts []string
	for _, it := range items {
		eff := "P"
		if it.forbid {
			eff = "F"
		}
		parts = append(parts, eff+[]string{"sat", "unsat", "err"}[atoms[it.atom].class])
	}
	sort.Strings(parts)
	return strings.Join(parts, "+")
}

var decoyPermit, decoyForbid = mustPolicy("permit(principal, action, resource);"), mustPolicy("forbid(principal, action, resource);")

func mustPolicy(src string) *cedar.Policy {
	var p cedar.Policy
	if err := p.UnmarshalCedar([]byte(src)); err != nil {
		panic(err)
	}
	return &p
}

func checkSeq(t *core.T, items []item) {
	b := build(items)
	in := func(seam string) string { return seam + ": " + b.doc }
	ps, err := cedar.NewPolicySetFromBytes("doc.cedar", []byte(b.doc))
	if err != nil {
		t.Fail("harness-doc-parse", b.doc, "parses", err.Error())
		return
	}
	cmp := func(seam string, dec cedar.Decision, diag cedar.Diagnostic) {
		got, bad := observed(dec, diag)
		if got.String() != b.want.String() {
			t.Fail(seam+":"+diffKind(b.want, got), in(seam), b.want.String(), got.String())
		} else if bad != "" {
			t.Fail(seam+":empty-message", in(seam), "non-empty messages", bad)
		}
	}
	dec, diag := cedar.Authorize(ps, entities, request)
	cmp("Authorize(PolicySet)", dec, diag)
	dec, diag = ps.IsAuthorized(entities, request)
	cmp("IsAuthorized", dec, diag)
	pm := ps.Map()
	dec, diag = cedar.Authorize(pm, entities, request)
	cmp("Authorize(PolicyMap)", dec, diag)
	// the policy set just used answers a DIFFERENT request exactly as a freshly parsed one does
	// (nothing learnt from the first request is carried over), and the first request again
	{
		fresh, _ := cedar.NewPolicySetFromBytes("doc.cedar", []byte(b.doc))
		d2a, g2a := cedar.Authorize(ps, entities, request2)
		d2b, g2b := cedar.Authorize(fresh, entities, request2)
		o2a, _ := observed(d2a, g2a)
		o2b, _ := observed(d2b, g2b)
		if o2a.String() != o2b.String() {
			t.Fail("reused-policy-set-differs-from-fresh", in("second request on the same PolicySet"), o2b.String(), o2a.String())
		}
		dec, diag = cedar.Authorize(ps, entities, request)
		cmp("Authorize(PolicySet) again after another request", dec, diag)
	}
	// the same contents reached through a history of the container: every id first holds a
	// satisfied policy of the opposite effect, the set answers a request (cold variant: it does
	// not), every id is replaced by its real policy, a further satisfied policy of each effect
	// is added, used and removed again. The answer depends on the current contents only.
	for _, warm := range []bool{false, true} {
		h := cedar.NewPolicySet()
		for i, id := range b.ids {
			d := decoyPermit
			if !items[i].forbid {
				d = decoyForbid
			}
			h.Add(cedar.PolicyID(id), d)
		}
		if warm {
			cedar.Authorize(h, entities, request)
			h.IsAuthorized(entities, request2)
		}
		for _, id := range b.ids {
			h.Add(cedar.PolicyID(id), ps.Get(cedar.PolicyID(id)))
		}
		seam := "Authorize(PolicySet built by replacing every id, cold)"
		if warm {
			seam = "Authorize(PolicySet built by replacing every id after it answered a request)"
		}
		dec, diag = cedar.Authorize(h, entities, request)
		cmp(seam, dec, diag)
		h.Add("zz-extra-forbid", decoyForbid)
		h.Add("zz-extra-permit", decoyPermit)
		if warm {
			cedar.Authorize(h, entities, request)
		}
		h.Remove("zz-extra-forbid")
		h.Remove("zz-extra-permit")
		dec, diag = cedar.Authorize(h, entities, request)
		cmp(seam+" then add+remove of two more", dec, diag)
	}
	// the same document read statement by statement through the streaming Decoder: all
	// policies are decoded first and authorized afterwards
	{
		dm := cedar.PolicyMap{}
		d := cedar.NewDecoder(strings.NewReader(b.doc))
		for k := 0; ; k++ {
			var p cedar.Policy
			if err := d.Decode(&p); err != nil {
				if err != io.EOF {
					t.Fail("Decoder:error", in("Decoder"), "decodes", err.Error())
				}
				break
			}
			p.SetFilename("doc.cedar")
			dm[cedar.PolicyID(fmt.Sprintf("policy%d", k))] = &p
		}
		if len(dm) != len(items) {
			t.Fail("Decoder:policy-count", in("Decoder"), fmt.Sprint(len(items)), fmt.Sprint(len(dm)))
		} else {
			dec, diag = cedar.Authorize(dm, entities, request)
			cmp("Authorize(Decoder)", dec, diag)
		}
	}
	// a harness PolicyIterator: every yield order (k<=4), else identity/reversal/rotations
	oi := orderedIter{}
	for _, id := range b.ids {
		oi.ids = append(oi.ids, cedar.PolicyID(id))
		oi.pols = append(oi.pols, ps.Get(cedar.PolicyID(id)))
	}
	ords := orders(len(items))
	for _, o := range ords {
		oi.order = o
		dec, diag = cedar.Authorize(oi, entities, request)
		cmp("Authorize(custom-iterator)", dec, diag)
	}
	if len(ords) > 0 {
		oi.order = ords[0]
		dec, diag = cedar.Authorize(onceIter{oi, new(bool)}, entities, request)
		cmp("Authorize(single-use-iterator)", dec, diag)
		dec, diag = cedar.Authorize(shiftIter{oi, new(int)}, entities, request)
		cmp("Authorize(iterator-in-another-order-on-every-call)", dec, diag)
	}
	// batch with no variables has its own copy of the loop
	n := 0
	err = batch.Authorize(context.Background(), ps, entities, batch.Request{Principal: request.Principal, Action: request.Action, Resource: request.Resource, Context: request.Context},
		func(r batch.Result) error {
			n++
			got, _ := observed(r.Decision, r.Diagnostic)
			// batch with a concrete request is an authorizer like the others: decision, reasons and errors
			if got.String() != b.want.String() {
				t.Fail("batch.Authorize:"+diffKind(b.want, got), in("batch.Authorize"), b.want.String(), got.String())
			}
			return nil
		})
	if err != nil || n != 1 {
		t.Fail("batch.Authorize:callbacks", in("batch.Authorize"), "1 callback, nil error", fmt.Sprintf("%d callbacks, err=%v", n, err))
	}
	t.AddStates(1)
	t.AddTrans(int64(4 + len(ords)))
	if len(b.want.reasons) > 0 || len(b.want.errors) > 0 {
		t.Nontrivial()
	}
	t.SampleF(func() string { return describe(items) + "  => " + b.want.String() })
}

func diffKind(want, got expect) string {
	switch {
	case want.allow != got.allow:
		return fmt.Sprintf("decision(want-allow=%v)", want.allow)
	case fmt.Sprint(want.reasons) != fmt.Sprint(got.reasons):
		return "reasons"
	default:
		return "errors"
	}
}

// atomSanity: every realisation, alone, classifies as declared — by the reference
// evaluator on the parsed policy... the parse itself is C07's subject, so the check
// here is on the implementation alone: Authorize of the single policy.
func atomFamily() *core.Family {
	return &core.Family{
		Name: "atoms-alone",
		Desc: fmt.Sprintf("%d realisations (%d hand-written + every list of 1..3 when/unless clauses over 6 bodies) x {permit, forbid}, each alone", len(atoms), nHand),
		N:    int64(2 * len(atoms)),
		Run: func(t *core.T, i int64) {
			checkSeq(t, []item{{forbid: i%2 == 1, atom: int(i / 2)}})
		},
	}
}

func seqFamily(maxLen int) *core.Family {
	// index space: sum_{k=0..maxLen} 6^k sequences over the 6 effect x outcome classes
	var sizes []int64
	total := int64(0)
	p := int64(1)
	for k := 0; k <= maxLen; k++ {
		sizes = append(sizes, p)
		total += p
		p *= 6
	}
	return &core.Family{
		Name: fmt.Sprintf("class-sequences-le%d", maxLen),
		Desc: fmt.Sprintf("every sequence of <=%d policies over {permit,forbid}x{satisfied,unsatisfied,erroring} (%d), realisation chosen by (position+class); x iterator kinds {PolicySet, IsAuthorized, PolicyMap, custom iterator in every order (k<=4; identity/reversal/rotations above), batch}", maxLen, total),
		N:    total,
		Run: func(t *core.T, i int64) {
			k := 0
			for i >= sizes[k] {
				i -= sizes[k]
				k++
			}
			items := make([]item, k)
			for j := 0; j < k; j++ {
				c := int(i % 6)
				i /= 6
				cls := c % 3
				items[j] = item{forbid: c >= 3, atom: byClass[cls][(j+c)%len(byClass[cls])]}
			}
			checkSeq(t, items)
		},
	}
}

// many policies: counts of satisfied permits / satisfied forbids / erroring policies that
// cross 8, 16 and 32 (slice growth, map growth, ids policy10.. sorting after policy1).
func manyFamily() *core.Family {
	counts := []int{0, 1, 2, 9, 17, 33}
	nc := len(counts)
	return &core.Family{
		Name: "many-policies",
		Desc: fmt.Sprintf("documents with p satisfied permits, f satisfied forbids, e erroring policies (alternating effects) and 3 unsatisfied ones, interleaved, for p, f, e in %v (up to 102 policies): decision, the complete reason set and the complete error set on every seam", counts),
		N:    int64(nc * nc * nc),
		Run: func(t *core.T, i int64) {
			x := int(i)
			np, nf, ne := counts[x%nc], counts[x/nc%nc], counts[x/nc/nc]
			var items []item
			k := 0
			add := func(forbid bool, cls int) {
				items = append(items, item{forbid: forbid, atom: byClass[cls][k%len(byClass[cls])]})
				k++
			}
			for a := 0; a < np || a < nf || a < ne; a++ {
				if a < np {
					add(false, sat)
				}
				if a < nf {
					add(true, sat)
				}
				if a < ne {
					add(a%2 == 0, erring)
				}
				if a < 3 {
					add(a%2 == 1, unsat)
				}
			}
			checkSeq(t, items)
		},
	}
}

func pairFamily() *core.Family {
	n := 2 * nHand
	return &core.Family{
		Name: "realisation-pairs",
		Desc: fmt.Sprintf("every ordered pair of (effect, hand-written realisation) atoms (%d^2)", n),
		N:    int64(n * n),
		Run: func(t *core.T, i int64) {
			a, b := int(i)/n, int(i)%n
			checkSeq(t, []item{{forbid: a%2 == 1, atom: a / 2}, {forbid: b%2 == 1, atom: b / 2}})
		},
	}
}

func Check() *core.Check {
	return &core.Check{
		ID:        "C02",
		HangAfter: 120 * time.Second, // cases take at most seconds (max_case_s in the evidence); see core.Family.HangAfter
		Title:     "Authorization decision: default deny, forbid overrides permit, errors skip",
		Rule: "bounded-exhaustive enumeration of policy sequences over the 6 effect x outcome classes (each outcome realised in every way the code distinguishes), parsed from one generated document; decision, reasons and errors (ids and source positions) compared with the decision table on 5 seams and under every iteration order of a harness PolicyIterator; " +
			"a case is non-trivial if the expected diagnostic has at least one reason or error",
		Assumptions: []string{"the outcome class of each realisation is declared by hand from the language semantics (and checked alone in family atoms-alone)", "one entity store and one request (stores/requests vary in C01/C03)"},
		Families: func(tier string) []*core.Family {
			n := 6
			if tier == "thorough" {
				n = 8
			}
			return []*core.Family{atomFamily(), pairFamily(), condFamily(), manyFamily(), seqFamily(n)}
		},
	}
}
