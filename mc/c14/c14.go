//go:build verif

// Package c14: results are deterministic functions of their inputs (E2 + E5).
// Built only with the verification overlay: every map iteration of the library asks
// verifrt.Chooser for its order, and the explorer owns that choice.
package c14

import (
	"context"
	"encoding/json"
	"fmt"
	"sort"
	"strings"

	cedar "github.com/cedar-policy/cedar-go"
	"github.com/cedar-policy/cedar-go/internal/verifrt"
	"github.com/cedar-policy/cedar-go/types"
	"github.com/cedar-policy/cedar-go/verif/core"
	"github.com/cedar-policy/cedar-go/verif/gen"
	"github.com/cedar-policy/cedar-go/x/exp/batch"
	"github.com/cedar-policy/cedar-go/x/exp/schema"
)

var ents = gen.Stores()[1].ToImpl()

var req = cedar.Request{Principal: types.NewEntityUID("U", "alice"), Action: types.NewEntityUID("Action", "view"), Resource: types.NewEntityUID("G", "g1"),
	Context: types.NewRecord(types.RecordMap{"a": types.Long(1), "b": types.String("x"), "s": types.NewSet(types.Long(3), types.Long(1), types.Long(2))})}

const policyDoc = `
@id("first") @owner("me") @zz("3")
permit(principal, action, resource) when { {x: 1 + "a", y: context.missing, z: 2}.z == 2 };
forbid(principal, action, resource) when { {b: context.nope, a: principal.nope}.a == 1 };
permit(principal in G::"g2", action, resource) when { {k3: 3, k1: 1, k2: [3, 1, 2]}.k2.contains(context.a) };
permit(principal, action, resource) when { principal.nope2 > 1 };
forbid(principal, action, resource) unless { context.s.containsAll([1, 2, 3]) && {"é": 1, "a b": 2, z: 3} == {z: 3, "a b": 2, "é": 1} };
`

const policyJSON = `{"effect":"permit","annotations":{"zeta":"1","alpha":"2","mid":"3"},"principal":{"op":"All"},"action":{"op":"All"},"resource":{"op":"All"},"conditions":[{"kind":"when","body":{"==":{"left":{"Record":{"c":{"Value":3},"a":{"+":{"left":{"Value":1},"right":{"Value":"x"}}},"b":{".":{"left":{"Var":"context"},"attr":"missing"}}}},"right":{"Value":{"z":1,"y":[3,2,1],"x":{"__entity":{"type":"U","id":"a"}}}}}}}]}`

const policySetJSON = `{"staticPolicies":{"p3":` + policyJSON + `,"p1":{"effect":"forbid","principal":{"op":"All"},"action":{"op":"All"},"resource":{"op":"All"},"conditions":[{"kind":"when","body":{"Record":{"q":{"Value":1},"p":{"Value":2}}}}]},"p2":{"effect":"permit","annotations":{"b":"1","a":"2"},"principal":{"op":"All"},"action":{"op":"All"},"resource":{"op":"All"}}}}`

const entitiesJSON = `[{"uid":{"type":"U","id":"b"},"parents":[{"type":"G","id":"z"},{"type":"G","id":"a"},{"type":"G","id":"m"}],"attrs":{"z":1,"a":[3,1,2],"m":{"y":1,"x":2}},"tags":{"t2":1,"t1":2}},{"uid":{"type":"U","id":"a"},"parents":[],"attrs":{},"tags":{}},{"uid":{"type":"G","id":"a"},"parents":[],"attrs":{"k":"v"},"tags":{}}]`

const schemaText = `
@z("1") @a("2")
namespace NS {
  type T2 = { b: Long, a?: Set<String> };
  type T1 = Long;
  entity G;
  entity U in [G, H] { z: decimal, a: ipaddr, m: { y: T1, x: T2 } } tags String;
  entity H;
  entity E enum ["x", "y"];
  @doc("d") action view, edit in [all] appliesTo { principal: [U, G], resource: [H, G], context: { ok: Bool, also?: T2 } };
  action all;
}
namespace B { entity X; }
entity Top;
`

// names that differ only in letter case (equal under a case-insensitive or a by-length
// comparison): an ordering that uses a coarser key than the exact bytes leaves them in map order
const collidingPolicyDoc = `
@Zeta("1") @zeta("2") @ZETA("3") @zetA("4")
permit(principal, action, resource) when { {Ab: 1, ab: 2, AB: 3, aB: context.missing}.ab == 2 };
@b("1") @B("2")
forbid(principal, action, resource) when { {Key: context.nope, key: principal.nope, KEY: 1 + "a"}.key == 1 };
`

const collidingEntitiesJSON = `[{"uid":{"type":"U","id":"a"},"parents":[{"type":"G","id":"x"},{"type":"G","id":"X"},{"type":"g","id":"x"}],"attrs":{"Z":1,"z":2,"zz":{"K":1,"k":2}},"tags":{"T":1,"t":2}},{"uid":{"type":"U","id":"A"},"parents":[],"attrs":{},"tags":{}},{"uid":{"type":"u","id":"a"},"parents":[],"attrs":{},"tags":{}}]`

const collidingSchemaText = `
@Doc("1") @doc("2") @DOC("3")
namespace NS {
  @Doc("1") @doc("2") type T = { Z: Long, z: Long };
  @a("1") @A("2") type t = Long;
  @Doc("1") @doc("2") entity U in [u, G] { @Doc("1") @doc("2") Z: T, z?: t } tags String;
  entity u;
  entity G;
  @e("1") @E("2") entity En enum ["x", "X"];
  @Doc("1") @doc("2") action View, view in [All, all] appliesTo { principal: [U, u], resource: [G, u], context: { Ok: Bool, ok?: T } };
  action All;
  action all;
}
@n("1") @N("2") namespace ns { entity U; }
@Top("1") @top("2") entity Top;
`

// child -> parents; every graph has nodes with >= 2 parents
var hierarchyGraphs = []map[string][]string{
	{"a": {"b", "c"}, "b": {"d"}, "c": {"d", "f"}, "d": {"e"}, "e": nil, "f": {"t"}, "t": nil},
	{"a": {"c", "b"}, "c": {"d"}, "b": {"d", "f"}, "d": {"e"}, "e": nil, "f": {"t"}, "t": nil},             // same shape, other labelling
	{"a": {"b", "c"}, "b": {"d", "e"}, "c": {"d", "e"}, "d": {"f", "a"}, "e": {"f"}, "f": {"t"}, "t": nil}, // layered diamonds with a cycle
	{"a": {"p1", "p2", "p3", "p4"}, "p1": nil, "p2": {"p1"}, "p3": {"t", "p2"}, "p4": {"p3"}, "t": nil},    // fan
}

type workload struct {
	name string
	run  func() (string, error)
}

func diagString(d cedar.Decision, g cedar.Diagnostic) string {
	var rs, es []string
	for _, r := range g.Reasons {
		rs = append(rs, string(r.PolicyID))
	}
	for _, e := range g.Errors {
		es = append(es, string(e.PolicyID)+": "+e.Message)
	}
	sort.Strings(rs)
	sort.Strings(es)
	return fmt.Sprintf("%v reasons=%v errors=%q", d, rs, es)
}

func workloads() []workload {
	return []workload{
		{"authorize", func() (string, error) {
			ps, err := cedar.NewPolicySetFromBytes("f.cedar", []byte(policyDoc))
			if err != nil {
				return "", err
			}
			d, g := cedar.Authorize(ps, ents, req)
			return diagString(d, g), nil
		}},
		{"batch-authorize", func() (string, error) {
			ps, err := cedar.NewPolicySetFromBytes("f.cedar", []byte(policyDoc))
			if err != nil {
				return "", err
			}
			var out []string
			err = batch.Authorize(context.Background(), ps, ents, batch.Request{Principal: batch.Variable("p"), Action: req.Action, Resource: batch.Variable("r"),
				Context:   types.NewRecord(types.RecordMap{"a": batch.Variable("x"), "b": types.String("x"), "s": types.NewSet(batch.Variable("x"), types.Long(2), types.Long(3))}),
				Variables: batch.Variables{"p": {types.NewEntityUID("U", "alice"), types.NewEntityUID("U", "bob")}, "r": {types.NewEntityUID("G", "g1")}, "x": {types.Long(1), types.Long(2)}}},
				func(r batch.Result) error {
					var vs []string
					for k, v := range r.Values {
						vs = append(vs, string(k)+"="+v.String())
					}
					sort.Strings(vs)
					out = append(out, fmt.Sprintf("%v -> %s", vs, diagString(r.Decision, r.Diagnostic)))
					return nil
				})
			sort.Strings(out)
			return strings.Join(out, "\n"), err
		}},
		{"batch-request-errors", func() (string, error) {
			ps, err := cedar.NewPolicySetFromBytes("f.cedar", []byte(policyDoc))
			if err != nil {
				return "", err
			}
			cb := func(batch.Result) error { return nil }
			// three variables used and not bound; three bound and not used
			e1 := batch.Authorize(context.Background(), ps, ents, batch.Request{Principal: batch.Variable("p"), Action: req.Action, Resource: batch.Variable("r"),
				Context: types.NewRecord(types.RecordMap{"a": batch.Variable("x")}), Variables: batch.Variables{}}, cb)
			e2 := batch.Authorize(context.Background(), ps, ents, batch.Request{Principal: req.Principal, Action: req.Action, Resource: req.Resource, Context: req.Context,
				Variables: batch.Variables{"u1": {types.Long(1)}, "u2": {types.Long(1)}, "u3": {types.Long(2)}}}, cb)
			// two variables with equally many values, each with an ill-typed value at the end: which
			// results are delivered before the error, and which error it is
			var got []string
			e3 := batch.Authorize(context.Background(), ps, ents, batch.Request{Principal: batch.Variable("p"), Action: req.Action, Resource: batch.Variable("r"), Context: req.Context,
				Variables: batch.Variables{"p": {types.NewEntityUID("U", "alice"), types.Long(5)}, "r": {types.NewEntityUID("G", "g1"), types.Long(6)}}},
				func(r batch.Result) error {
					got = append(got, fmt.Sprintf("%v %v -> %v", r.Request.Principal, r.Request.Resource, r.Decision))
					return nil
				})
			sort.Strings(got)
			return fmt.Sprint(e1, " / ", e2, " / ", e3, got), nil
		}},
		{"authorize-over-multi-parent-hierarchies", func() (string, error) {
			// several small hierarchies in which nodes have two or more parents (diamonds, a
			// cycle, a fan): the traversal iterates parent SETS, whose order is a map order;
			// every ordered pair is decided through scope `in`, `in [..]`, `is .. in` and the
			// `in` operator, and the whole table must not depend on that order.
			var sb strings.Builder
			for gi, g := range hierarchyGraphs {
				em := types.EntityMap{}
				var names []string
				for n := range g {
					names = append(names, n)
				}
				sort.Strings(names)
				uidOf := func(n string) types.EntityUID { return types.NewEntityUID("N", types.String(n)) }
				for _, n := range names {
					var ps []types.EntityUID
					for _, p := range g[n] {
						ps = append(ps, uidOf(p))
					}
					em[uidOf(n)] = types.Entity{UID: uidOf(n), Parents: types.NewEntityUIDSet(ps...)}
				}
				for _, a := range names {
					for _, b := range names {
						doc := fmt.Sprintf(`permit(principal in N::%q, action, resource);
permit(principal, action in [N::"zz", N::%q], resource);
permit(principal, action, resource is N in N::%q);
permit(principal, action, resource) when { principal in N::%q && principal in [N::"zz", N::%q] };`, b, b, b, b, b)
						ps, err := cedar.NewPolicySetFromBytes("h.cedar", []byte(doc))
						if err != nil {
							return "", err
						}
						d, dg := cedar.Authorize(ps, em, cedar.Request{Principal: uidOf(a), Action: uidOf(a), Resource: uidOf(a)})
						fmt.Fprintf(&sb, "g%d %s in %s: %s\n", gi, a, b, diagString(d, dg))
					}
				}
			}
			return sb.String(), nil
		}},
		{"evaluator-errors-over-sets", func() (string, error) {
			// operators that walk a SET whose members can each fail: the reported message must not
			// depend on the order in which the members are visited
			doc := `permit(principal, action, resource) when { principal in [1, "a"] };
permit(principal, action, resource) when { principal in [resource, 1, "a", true] };
permit(principal, action, resource) when { [1, "a", true].containsAll([principal.missing, context.missing]) };
permit(principal, action, resource) when { context.s.containsAny([1]) && principal in context.s };`
			ps, err := cedar.NewPolicySetFromBytes("e.cedar", []byte(doc))
			if err != nil {
				return "", err
			}
			r := req
			r.Context = types.NewRecord(types.RecordMap{"s": types.NewSet(types.Long(1), types.String("a"), types.True, types.NewSet())})
			d, g := cedar.Authorize(ps, ents, r)
			return diagString(d, g), nil
		}},
		{"batch-with-colliding-set-members", func() (string, error) {
			// a set that contains a variable next to members that collide in the set's hash table
			// (1 / true / decimal 0.0001 share a slot chain): the substituted request handed to
			// the callback is rebuilt from the template and must render identically every time
			ps, err := cedar.NewPolicySetFromBytes("f.cedar", []byte(policyDoc))
			if err != nil {
				return "", err
			}
			dec, _ := types.ParseDecimal("0.0001")
			var out []string
			err = batch.Authorize(context.Background(), ps, ents, batch.Request{Principal: req.Principal, Action: req.Action, Resource: req.Resource,
				Context:   types.NewRecord(types.RecordMap{"a": types.Long(1), "b": types.String("x"), "s": types.NewSet(types.Long(1), types.True, dec, batch.Variable("x"), types.NewDurationFromMillis(1))}),
				Variables: batch.Variables{"x": {types.Long(7), types.True}}},
				func(r batch.Result) error {
					js, _ := json.Marshal(r.Request.Context)
					out = append(out, fmt.Sprintf("%s | %s | %s", r.Request.Context.MarshalCedar(), js, diagString(r.Decision, r.Diagnostic)))
					return nil
				})
			sort.Strings(out)
			return strings.Join(out, "\n"), err
		}},
		{"marshal-parsed-policies", func() (string, error) {
			ps, err := cedar.NewPolicySetFromBytes("f.cedar", []byte(policyDoc))
			if err != nil {
				return "", err
			}
			js, err := ps.MarshalJSON()
			return string(ps.MarshalCedar()) + "\n" + string(js), err
		}},
		{"policy-json-decode-reencode", func() (string, error) {
			var p cedar.Policy
			if err := p.UnmarshalJSON([]byte(policyJSON)); err != nil {
				return "", err
			}
			js, err := p.MarshalJSON()
			ps := cedar.NewPolicySet()
			ps.Add("p", &p)
			d, g := cedar.Authorize(ps, ents, req)
			return string(p.MarshalCedar()) + "\n" + string(js) + "\n" + diagString(d, g), err
		}},
		{"policyset-json-decode-reencode", func() (string, error) {
			var ps cedar.PolicySet
			if err := json.Unmarshal([]byte(policySetJSON), &ps); err != nil {
				return "", err
			}
			js, err := ps.MarshalJSON()
			d, g := cedar.Authorize(&ps, ents, req)
			return string(ps.MarshalCedar()) + "\n" + string(js) + "\n" + diagString(d, g), err
		}},
		{"entities-json-decode-reencode", func() (string, error) {
			var em types.EntityMap
			if err := json.Unmarshal([]byte(entitiesJSON), &em); err != nil {
				return "", err
			}
			js, err := json.Marshal(em)
			var one []byte
			if err == nil {
				one, err = json.Marshal(em[types.NewEntityUID("U", "b")])
			}
			return string(js) + "\n" + string(one), err
		}},
		{"values-marshal", func() (string, error) {
			v := types.NewRecord(types.RecordMap{"z": types.NewSet(types.String("b"), types.String("a"), types.Long(1), types.True), "a": types.NewRecord(types.RecordMap{"y": types.Long(1), "x": types.Long(2)}),
				"m": types.NewSet(types.NewEntityUID("U", "b"), types.NewEntityUID("U", "a"), types.NewSet(types.Long(2), types.Long(1)))})
			js, err := json.Marshal(v)
			// members that collide at the LAST slot of the hash space (raw value -1 as long, decimal,
			// duration, datetime): all but one wrap around to slots 0, 1, 2
			dm1, _ := types.NewDecimal(-1, -4)
			w := types.NewSet(types.Long(-1), dm1, types.NewDurationFromMillis(-1), types.NewDatetimeFromMillis(-1), types.Long(0), types.Long(1))
			wjs, _ := json.Marshal(types.NewRecord(types.RecordMap{"w": w}))
			var wback types.Value
			_ = types.UnmarshalJSON(wjs, &wback)
			wjs2, _ := json.Marshal(wback)
			return string(v.MarshalCedar()) + "\n" + string(js) + "\n" + v.String() + "\n" + string(w.MarshalCedar()) + w.String() + string(wjs) + string(wjs2), err
		}},
		{"schema-text-decode-reencode", func() (string, error) {
			var s schema.Schema
			if err := s.UnmarshalCedar([]byte(schemaText)); err != nil {
				return "", err
			}
			c, err := s.MarshalCedar()
			if err != nil {
				return "", err
			}
			js, err := s.MarshalJSON()
			if err != nil {
				return "", err
			}
			r, err := s.Resolve()
			if err != nil {
				return "", err
			}
			var names []string
			for k := range r.Entities {
				names = append(names, string(k))
			}
			sort.Strings(names)
			return string(c) + "\n" + string(js) + "\n" + fmt.Sprint(names), nil
		}},
		{"colliding-names-policies", func() (string, error) {
			pl, err := cedar.NewPolicyListFromBytes("c.cedar", []byte(collidingPolicyDoc))
			if err != nil {
				return "", err
			}
			ps := cedar.NewPolicySet()
			var out []string
			for i, p := range pl {
				js, err := p.MarshalJSON()
				if err != nil {
					return "", err
				}
				var q cedar.Policy
				if err := q.UnmarshalJSON(js); err != nil {
					return "", err
				}
				js2, _ := q.MarshalJSON()
				out = append(out, string(p.MarshalCedar()), string(js), string(q.MarshalCedar()), string(js2))
				ps.Add(cedar.PolicyID([]string{"P", "p"}[i%2]), p)
			}
			psj, err := ps.MarshalJSON()
			if err != nil {
				return "", err
			}
			dec, diag := cedar.Authorize(ps, types.EntityMap{}, req)
			return strings.Join(out, "\n") + string(ps.MarshalCedar()) + string(psj) + diagString(dec, diag), nil
		}},
		{"colliding-names-entities", func() (string, error) {
			var em types.EntityMap
			if err := json.Unmarshal([]byte(collidingEntitiesJSON), &em); err != nil {
				return "", err
			}
			js, err := json.Marshal(em)
			if err != nil {
				return "", err
			}
			var out []string
			for _, id := range []types.EntityUID{types.NewEntityUID("U", "a"), types.NewEntityUID("U", "A"), types.NewEntityUID("u", "a")} {
				e := em[id]
				ej, _ := json.Marshal(e)
				out = append(out, string(ej), string(e.Attributes.MarshalCedar()), e.Tags.String())
			}
			return string(js) + strings.Join(out, "\n"), nil
		}},
		{"colliding-names-schema", func() (string, error) {
			var s schema.Schema
			if err := s.UnmarshalCedar([]byte(collidingSchemaText)); err != nil {
				return "", err
			}
			c, err := s.MarshalCedar()
			if err != nil {
				return "", err
			}
			js, err := s.MarshalJSON()
			if err != nil {
				return "", err
			}
			var s2 schema.Schema
			if err := s2.UnmarshalJSON(js); err != nil {
				return "", err
			}
			c2, err := s2.MarshalCedar()
			if err != nil {
				return "", err
			}
			js2, err := s2.MarshalJSON()
			if err != nil {
				return "", err
			}
			_, rerr := s.Resolve()
			return string(c) + "\n" + string(js) + "\n" + string(c2) + "\n" + string(js2) + "\n" + fmt.Sprint(rerr), nil
		}},
		{"failed-decodes-leave-the-same-state", func() (string, error) {
			// one bad member among good ones: the error and whatever the target holds afterwards
			// are the same on every run
			var out []string
			doc := `{"staticPolicies":{"p3":` + policyJSON + `,"p0":null,"p1":{"effect":"forbid","principal":{"op":"All"},"action":{"op":"All"},"resource":{"op":"All"}},"p2":{"effect":"permit","principal":{"op":"All"},"action":{"op":"All"},"resource":{"op":"All"}}}}`
			for _, used := range []bool{false, true} {
				ps := cedar.NewPolicySet()
				if used {
					var q cedar.Policy
					_ = q.UnmarshalCedar([]byte("forbid ( principal, action, resource );"))
					ps.Add("old", &q)
				}
				err := ps.UnmarshalJSON([]byte(doc))
				js, _ := ps.MarshalJSON()
				dec, diag := cedar.Authorize(ps, ents, req)
				out = append(out, fmt.Sprint(err), string(ps.MarshalCedar()), string(js), diagString(dec, diag))
			}
			var em types.EntityMap
			err := json.Unmarshal([]byte(`[{"uid":{"type":"U","id":"a"},"parents":[],"attrs":{},"tags":{}},{"uid":{"type":"U","id":"b"},"parents":[],"attrs":{"x":{"__extn":{"fn":"nope","arg":"1"}}},"tags":{}},{"uid":{"type":"U","id":"c"},"parents":[],"attrs":{},"tags":{}}]`), &em)
			ej, _ := json.Marshal(em)
			out = append(out, fmt.Sprint(err), string(ej))
			var sc schema.Schema
			_ = sc.UnmarshalCedar([]byte(schemaText))
			err = sc.UnmarshalJSON([]byte(`{"A":{"entityTypes":{"X":{}},"actions":{}},"B":{"entityTypes":{"Y":{"shape":{"type":"Nope"}}},"actions":{}},"C":{"entityTypes":{"Z":{}},"actions":{}}}`))
			sj, _ := sc.MarshalJSON()
			st, _ := sc.MarshalCedar()
			out = append(out, fmt.Sprint(err), string(sj), string(st))
			return strings.Join(out, "\n"), nil
		}},
		{"schema-json-decode-reencode", func() (string, error) {
			var s0 schema.Schema
			if err := s0.UnmarshalCedar([]byte(schemaText)); err != nil {
				return "", err
			}
			verifrtOff(func() {})
			js0, err := marshalSchemaJSONCanonical(&s0)
			if err != nil {
				return "", err
			}
			var s schema.Schema
			if err := s.UnmarshalJSON(js0); err != nil {
				return "", err
			}
			c, err := s.MarshalCedar()
			if err != nil {
				return "", err
			}
			js, err := s.MarshalJSON()
			return string(c) + "\n" + string(js), err
		}},
	}
}

// the seed JSON of the schema workload is produced once, outside exploration
var schemaSeedJSON []byte

func verifrtOff(f func()) {
	c := verifrt.Chooser
	verifrt.Chooser = nil
	f()
	verifrt.Chooser = c
}

func marshalSchemaJSONCanonical(s *schema.Schema) ([]byte, error) {
	if schemaSeedJSON != nil {
		return schemaSeedJSON, nil
	}
	var b []byte
	var err error
	verifrtOff(func() { b, err = s.MarshalJSON() })
	if err == nil {
		schemaSeedJSON = b
	}
	return b, err
}

func exploreWorkload(t *core.T, w workload, bound int) {
	var base string
	var baseErr error
	first := true
	st := core.Explore(t, bound, 0, func(c *core.Ctx) {
		verifrt.Chooser = func(site string, orders int) int { return c.Choose(site, orders) }
		defer func() { verifrt.Chooser = nil }()
		var got string
		var err error
		if t.Protect("panic:"+w.name, w.name, func() { got, err = w.run() }) {
			return
		}
		if first {
			base, baseErr = got, err
			first = false
			if err != nil {
				t.Fail("workload-error:"+w.name, w.name, "runs", err.Error())
			}
			return
		}
		if got != base || (err == nil) != (baseErr == nil) {
			dev := c.Deviations()
			t.Fail(fmt.Sprintf("nondeterministic:%s:order-of:%s", w.name, strings.Join(dev, "+")), fmt.Sprintf("workload %s, map iteration order deviated at %v (choices %v)", w.name, dev, c.Choices()), base, fmt.Sprintf("%s %v", got, err))
		}
	})
	// replay check: the same choice sequence must give identical observations
	verifrt.Chooser = nil
	again, _ := w.run()
	if again != base {
		t.Fail("harness-unowned-nondeterminism:"+w.name, w.name, base, again)
	}
	t.Obs(w.name + ":" + base)
	if st.Execs > 1 {
		t.Nontrivial()
	}
	t.Sample(fmt.Sprintf("%s: %d executions, %d map-iteration choice points, max %d per execution; output %d bytes", w.name, st.Execs, st.Points, st.MaxDepth, len(base)))
}

// insertion orders: every permutation of <=4 policies / entities gives identical results.
// keptEncoders: every encoder, on an object A and on a different object B of the same kind.
// "Encoding the same object always gives the same bytes" includes the bytes a caller still
// holds: what one call returned must not change when another call (same encoder or another,
// same object or another) runs afterwards.
type keptEncoder struct {
	name string
	a, b func() ([]byte, error)
}

func keptEncoders() []keptEncoder {
	plA, errA := cedar.NewPolicyListFromBytes("a.cedar", []byte(policyDoc))
	plB, errB := cedar.NewPolicyListFromBytes("b.cedar", []byte(collidingPolicyDoc))
	if errA != nil || errB != nil || len(plA) < 2 || len(plB) < 1 {
		panic(fmt.Sprint("kept-encodings: harness documents do not parse: ", errA, errB))
	}
	psA, psB := cedar.NewPolicySet(), cedar.NewPolicySet()
	for i, p := range plA {
		psA.Add(cedar.PolicyID(fmt.Sprintf("a%d", i)), p)
	}
	for i, p := range plB {
		psB.Add(cedar.PolicyID(fmt.Sprintf("b%d", i)), p)
	}
	var emB types.EntityMap
	if err := json.Unmarshal([]byte(collidingEntitiesJSON), &emB); err != nil {
		panic(err)
	}
	var scA, scB schema.Schema
	if err := scA.UnmarshalCedar([]byte(schemaText)); err != nil {
		panic(err)
	}
	if err := scB.UnmarshalCedar([]byte(collidingSchemaText)); err != nil {
		panic(err)
	}
	vA, vB := types.Value(req.Context), types.Value(types.NewSet(types.String("x"), types.NewRecord(types.RecordMap{"k": types.NewEntityUID("U", "b")})))
	ok := func(f func() []byte) func() ([]byte, error) { return func() ([]byte, error) { return f(), nil } }
	var eA, eB types.Entity
	for _, k := range sortedUIDs(ents) {
		eA = ents[k]
		break
	}
	for _, k := range sortedUIDs(emB) {
		eB = emB[k]
		break
	}
	return []keptEncoder{
		{"Policy.MarshalCedar", ok(plA[0].MarshalCedar), ok(plB[0].MarshalCedar)},
		{"Policy.MarshalJSON", plA[0].MarshalJSON, plB[0].MarshalJSON},
		{"Policy.MarshalCedar(second policy)", ok(plA[1].MarshalCedar), ok(plA[0].MarshalCedar)},
		{"PolicyList.MarshalCedar", ok(plA.MarshalCedar), ok(plB.MarshalCedar)},
		{"PolicySet.MarshalCedar", ok(psA.MarshalCedar), ok(psB.MarshalCedar)},
		{"PolicySet.MarshalJSON", psA.MarshalJSON, psB.MarshalJSON},
		{"Value.MarshalCedar", ok(vA.MarshalCedar), ok(vB.MarshalCedar)},
		{"Value.MarshalJSON", func() ([]byte, error) { return json.Marshal(vA) }, func() ([]byte, error) { return json.Marshal(vB) }},
		{"Entity.MarshalJSON", eA.MarshalJSON, eB.MarshalJSON},
		{"EntityMap.MarshalJSON", func() ([]byte, error) { return json.Marshal(ents) }, func() ([]byte, error) { return json.Marshal(emB) }},
		{"Schema.MarshalCedar", scA.MarshalCedar, scB.MarshalCedar},
		{"Schema.MarshalJSON", scA.MarshalJSON, scB.MarshalJSON},
	}
}

func sortedUIDs(m types.EntityMap) []types.EntityUID {
	var ks []types.EntityUID
	for k := range m {
		ks = append(ks, k)
	}
	sort.Slice(ks, func(i, j int) bool { return ks[i].String() < ks[j].String() })
	return ks
}

func keptEncodingsFamily() *core.Family {
	encs := keptEncoders()
	n := len(encs)
	return &core.Family{
		Name:   "kept-encodings",
		Desc:   fmt.Sprintf("every ordered pair of %d encoders: the bytes the first returned for object A are kept (not copied) while the second encodes a different object B and then A; the kept bytes are unchanged and a re-encoding of A equals them", n),
		N:      int64(n * n),
		Serial: true,
		Run: func(t *core.T, i int64) {
			first, second := encs[int(i)/n], encs[int(i)%n]
			in := first.name + " of A, then " + second.name + " of B and of A"
			kept, err := first.a()
			if err != nil {
				t.Fail("kept-encodings:harness-object-does-not-encode", in, "encodes", err.Error())
				return
			}
			want := string(kept)
			_, _ = second.b()
			_, _ = second.a()
			_, _ = second.b()
			if string(kept) != want {
				t.Fail("returned-bytes-change-after-a-later-call:"+first.name, in, want, string(kept))
			}
			again, _ := first.a()
			if string(again) != want {
				t.Fail("re-encoding-differs:"+first.name, in, want, string(again))
			}
			t.AddStates(1)
			t.AddTrans(5)
			t.Nontrivial()
			t.Sample(in)
		},
	}
}

func insertionOrders(t *core.T, i int64) {
	texts := []string{
		`@a("1") permit(principal, action, resource) when { context.a == 1 };`,
		`forbid(principal, action, resource) when { context.missing };`,
		`permit(principal in G::"g2", action, resource);`,
		`forbid(principal, action, resource) when { {a: context.nope, b: 1 + "x"}.a };`,
	}
	n := int(i) + 1
	var base string
	for pi, perm := range core.Perms(n) {
		ps := cedar.NewPolicySet()
		em := types.EntityMap{}
		for _, k := range perm {
			var p cedar.Policy
			if err := p.UnmarshalCedar([]byte(texts[k])); err != nil {
				t.Fail("harness-text", texts[k], "", err.Error())
				return
			}
			ps.Add(cedar.PolicyID(fmt.Sprintf("p%d", k)), &p)
		}
		keys := make([]types.EntityUID, 0)
		for k := range ents {
			keys = append(keys, k)
		}
		sort.Slice(keys, func(a, b int) bool { return keys[a].String() < keys[b].String() })
		for j := range keys {
			k := keys[(j+pi)%len(keys)]
			em[k] = ents[k]
		}
		d, g := cedar.Authorize(ps, em, req)
		js, _ := ps.MarshalJSON()
		ejs, _ := json.Marshal(em)
		got := diagString(d, g) + "\n" + string(ps.MarshalCedar()) + "\n" + string(js) + "\n" + string(ejs)
		if pi == 0 {
			base = got
		} else if got != base {
			t.Fail("insertion-order-visible", fmt.Sprintf("policies added in order %v", perm), base, got)
		}
		t.AddStates(1)
	}
	t.Nontrivial()
	t.Sample(fmt.Sprintf("%d policies: %d insertion orders", n, len(core.Perms(n))))
}

func Check() *core.Check {
	return &core.Check{
		ID:    "C14",
		Title: "Results are deterministic functions of their inputs",
		Rule: "the library is rebuilt with every map iteration (for-range over a map, maps.Keys/Values/All: all sites found by the type checker) routed through a runtime that asks the explorer for the order; for each workload every execution with at most the stated number of deviations from the canonical order is run (all n! orders for n<=4 keys, else reversal / rotations / adjacent transpositions) and every observation (decision, reason set, error set with messages, every produced byte string) must equal the canonical execution's; plus every insertion order of <=4 policies and of the entities; " +
			"a workload is non-trivial if its exploration ran more than one execution (some map with >1 key was iterated)",
		Assumptions: []string{"the library has no other source of nondeterminism (no goroutines, clocks or random sources: scanned by the C19 check)", "map iterations over expressions with calls would not be owned; the instrumenter reports none"},
		Families: func(tier string) []*core.Family {
			ws := workloads()
			bound := 1
			if tier == "thorough" {
				bound = 2
			}
			fams := []*core.Family{
				{
					Name:   "insertion-orders",
					Desc:   "every permutation of 1..4 policies added to a PolicySet and rotations of the entity insertion order: identical decision, diagnostics and encodings",
					N:      4,
					Serial: true,
					Run:    insertionOrders,
				},
				keptEncodingsFamily(),
			}
			if tier == "thorough" {
				// every workload completely at one deviation first; two deviations afterwards, each
				// workload with an equal share of what is left of the budget
				fams = append(fams, &core.Family{
					Name:   "map-order-exploration-1-deviation",
					Desc:   fmt.Sprintf("%d workloads x every execution in which at most 1 map iteration (any site, any position) deviates from sorted order", len(ws)),
					N:      int64(len(ws)),
					Serial: true,
					Run:    func(t *core.T, i int64) { exploreWorkload(t, ws[i], 1) },
				})
			}
			return append(fams, []*core.Family{
				{
					Name:   "map-order-exploration",
					Desc:   fmt.Sprintf("%d workloads (authorize / batch-authorize a set whose policies fail in two record fields at once; marshal; decode-then-re-encode of policy, policy set, entity and schema documents) x every execution with <=%d deviating map-iteration orders", len(ws), bound),
					N:      int64(len(ws)),
					Serial: true,
					Run: func(t *core.T, i int64) {
						if tier == "thorough" {
							t.ShareBudget(int64(len(ws)) - i)
						}
						exploreWorkload(t, ws[i], bound)
					},
				},
			}...)
		},
	}
}
