// Package c11: value equality, hashing, sets and records obey their algebraic laws (E1 + E3).
package c11

import (
	"encoding/json"
	"fmt"
	"github.com/cedar-policy/cedar-go/internal/mapset"
	"github.com/cedar-policy/cedar-go/verif/c13"
	"sort"
	"strings"

	cedar "github.com/cedar-policy/cedar-go"
	"github.com/cedar-policy/cedar-go/types"
	"github.com/cedar-policy/cedar-go/verif/core"
	. "github.com/cedar-policy/cedar-go/verif/refsem"
	xast "github.com/cedar-policy/cedar-go/x/exp/ast"
	"github.com/cedar-policy/cedar-go/x/exp/eval"
)

// U: built to collide in the internal hash (true / 1 / decimal 0.0001 / 1 ms / datetime 1
// all hash to 1; false / 0 / datetime 0 to 0; 2 and 3 occupy the probe slots after 1; -1
// hashes to 2^64-1 so probing wraps; Set{1}, Set{true} have summed hash 1).
var U = []Val{
	Bool(true), Long(1), Decimal(1), Duration(1), Datetime(1),
	Bool(false), Long(0), Datetime(0),
	Long(2), Long(3), Long(-1),
	Set(Long(1)), Set(Bool(true)), Set(), Rec(),
	Str("a"), Entity("U", "a"),
}

var implU []types.Value

func init() {
	for _, v := range U {
		implU = append(implU, v.ToImpl())
	}
}

func pow(b, e int) int64 {
	r := int64(1)
	for i := 0; i < e; i++ {
		r *= int64(b)
	}
	return r
}

// seqAt decodes index i of the space of all sequences of length <= maxLen over n symbols.
func seqAt(i int64, n int) []int {
	l := 0
	for i >= pow(n, l) {
		i -= pow(n, l)
		l++
	}
	s := make([]int, l)
	for j := l - 1; j >= 0; j-- {
		s[j] = int(i % int64(n))
		i /= int64(n)
	}
	return s
}

func seqCount(n, maxLen int) int64 {
	t := int64(0)
	for l := 0; l <= maxLen; l++ {
		t += pow(n, l)
	}
	return t
}

func seqStr(s []int) string {
	var parts []string
	for _, x := range s {
		parts = append(parts, U[x].Key())
	}
	return "NewSet(" + strings.Join(parts, ", ") + ")"
}

func build(s []int) (types.Set, Val) {
	vs := make([]types.Value, len(s))
	rs := make([]Val, len(s))
	for i, x := range s {
		vs[i] = implU[x]
		rs[i] = U[x]
	}
	return types.NewSet(vs...), Set(rs...)
}

func multiset(vs []types.Value) (string, error) {
	var keys []string
	for _, v := range vs {
		rv, err := FromImpl(v)
		if err != nil {
			return "", err
		}
		keys = append(keys, rv.Key())
	}
	sort.Strings(keys)
	return strings.Join(keys, " | "), nil
}

func modelMultiset(m Val) string {
	var keys []string
	for _, e := range m.Elems {
		keys = append(keys, e.Key())
	}
	sort.Strings(keys)
	return strings.Join(keys, " | ")
}

var env0 = eval.Env{Entities: types.EntityMap{}, Principal: types.NewEntityUID("U", "a"), Action: types.NewEntityUID("A", "a"), Resource: types.NewEntityUID("R", "a"), Context: types.Record{}}

// parseValue evaluates Cedar text of a value through the policy parser.
func parseValue(text string) (Val, error) {
	var p cedar.Policy
	if err := p.UnmarshalCedar([]byte("permit(principal,action,resource) when { " + text + " };")); err != nil {
		return Val{}, err
	}
	v, err := eval.Eval((*xast.Policy)(p.AST()).Conditions[0].Body, env0)
	if err != nil {
		return Val{}, err
	}
	return FromImpl(v)
}

func checkSet(t *core.T, s []int, deep bool) {
	impl, model := build(s)
	in := func() string { return seqStr(s) }
	if impl.Len() != len(model.Elems) {
		t.Fail("set-len", in(), fmt.Sprint(len(model.Elems)), fmt.Sprint(impl.Len()))
	}
	for ui, u := range implU {
		if got, want := impl.Contains(u), model.SetContains(U[ui]); got != want {
			t.Fail(fmt.Sprintf("set-contains:%s", U[ui].K), in()+".Contains("+U[ui].Key()+")", fmt.Sprint(want), fmt.Sprint(got))
		}
	}
	wantMS := modelMultiset(model)
	for name, vs := range map[string][]types.Value{"Slice": impl.Slice(), "All": collect(impl), "Iterate": iterate(impl)} {
		ms, err := multiset(vs)
		if err != nil || ms != wantMS {
			t.Fail("set-members:"+name, in()+"."+name+"()", wantMS, fmt.Sprintf("%s %v", ms, err))
		}
	}
	if !impl.Equal(impl) {
		t.Fail("set-equal-reflexive", in(), "true", "false")
	}
	if deep {
		// text and JSON forms decode to an equal value
		if rv, err := parseValue(string(impl.MarshalCedar())); err != nil || !rv.Equal(model) {
			t.Fail("set-cedar-text-roundtrip", in()+" => "+string(impl.MarshalCedar()), model.Key(), fmt.Sprintf("%v %v", rv.Key(), err))
		}
		js, err := json.Marshal(impl)
		var back types.Value
		if err == nil {
			err = types.UnmarshalJSON(js, &back)
		}
		if err != nil {
			t.Fail("set-json-roundtrip", in()+" => "+string(js), model.Key(), err.Error())
		} else if rv, cerr := FromImpl(back); cerr != nil || !rv.Equal(model) || !back.Equal(impl) || !impl.Equal(back) {
			t.Fail("set-json-roundtrip", in()+" => "+string(js), model.Key(), fmt.Sprintf("%v %v", rv.Key(), cerr))
		}
	}
	t.AddStates(1)
	if len(model.Elems) < len(s) || len(s) > 1 {
		t.Nontrivial()
	}
}

func collect(s types.Set) []types.Value {
	var out []types.Value
	for v := range s.All() {
		out = append(out, v)
	}
	return out
}

func iterate(s types.Set) []types.Value {
	var out []types.Value
	s.Iterate(func(v types.Value) bool { out = append(out, v); return true })
	return out
}

func setFamily(maxLen int) *core.Family {
	n := len(U)
	return &core.Family{
		Name: fmt.Sprintf("sets-from-sequences-le%d", maxLen),
		Desc: fmt.Sprintf("every sequence of length <=%d over the %d-value colliding universe: Len, Contains for every member of the universe, Slice/All/Iterate as multisets, text and JSON forms", maxLen, n),
		N:    seqCount(n, maxLen),
		Run: func(t *core.T, i int64) {
			s := seqAt(i, n)
			checkSet(t, s, len(s) <= 3)
			t.SampleF(func() string { return seqStr(s) })
		},
	}
}

// pairs of sets: Equal / == / contains / containsAll / containsAny agree with the model.
// large containers: sets and records whose size crosses the thresholds at which the
// open-addressed table (or a Go map behind it) grows, built in three insertion orders,
// with members that collide in the hash (Long k / Decimal k / Duration k share a hash).
func largeFamily() *core.Family {
	sizes := []int{0, 1, 2, 3, 4, 5, 6, 7, 8, 9, 10, 12, 15, 16, 17, 24, 31, 32, 33, 48, 63, 64, 65, 100, 127, 128, 129, 200, 255, 256, 257}
	member := func(k int) (types.Value, Val) {
		switch k % 3 {
		case 0:
			return types.Long(int64(k / 3)), Long(int64(k / 3))
		case 1:
			d, _ := types.NewDecimal(int64(k/3), -4) // k/3 ten-thousandths: the same raw units as Long(k/3)
			return d, Decimal(int64(k / 3))
		}
		return types.NewDurationFromMillis(int64(k / 3)), Duration(int64(k / 3))
	}
	return &core.Family{
		Name: "large-containers",
		Desc: fmt.Sprintf("sets of n members (longs, decimals and durations with equal raw value: hash collisions at every slot) and records of n keys for n in %v, built ascending, descending and interleaved: Len, Contains of every member and of absent ones, pairwise Equal and hash agreement, iteration multiset, duplicate insertion, text and JSON round trip", sizes),
		N:    int64(len(sizes)),
		Run: func(t *core.T, i int64) {
			n := sizes[i]
			in := fmt.Sprintf("n=%d", n)
			var vs []types.Value
			var ms []Val
			for k := 0; k < n; k++ {
				v, m := member(k)
				vs = append(vs, v)
				ms = append(ms, m)
			}
			model := Set(ms...)
			orders := [][]types.Value{append([]types.Value{}, vs...), nil, nil, nil}
			for k := n - 1; k >= 0; k-- {
				orders[1] = append(orders[1], vs[k])
			}
			for k := 0; k < n; k += 2 {
				orders[2] = append(orders[2], vs[k])
			}
			for k := 1; k < n; k += 2 {
				orders[2] = append(orders[2], vs[k])
			}
			orders[3] = append(append([]types.Value{}, vs...), vs...) // every member twice
			var sets []types.Set
			for _, o := range orders {
				sets = append(sets, types.NewSet(o...))
			}
			for oi, s := range sets {
				if s.Len() != n {
					t.Fail("set-len:large", fmt.Sprintf("%s order %d", in, oi), fmt.Sprint(n), fmt.Sprint(s.Len()))
				}
				for k := 0; k < n; k++ {
					if !s.Contains(vs[k]) {
						t.Fail("set-contains:large", fmt.Sprintf("%s order %d member %d", in, oi, k), "true", "false")
						break
					}
				}
				for k := n; k < n+3; k++ {
					v, _ := member(k)
					if s.Contains(v) {
						t.Fail("set-contains:large", fmt.Sprintf("%s order %d absent %d", in, oi, k), "false", "true")
					}
				}
				ms2, err := multiset(collect(s))
				if err != nil || ms2 != modelMultiset(model) {
					t.Fail("set-members:large", fmt.Sprintf("%s order %d", in, oi), "the n members once each", fmt.Sprint(err))
				}
				for oj, s2 := range sets {
					if !s.Equal(s2) || !types.NewSet(s).Contains(s2) {
						t.Fail("set-equal:large", fmt.Sprintf("%s orders %d,%d", in, oi, oj), "equal", "not equal / not found as a member")
					}
				}
				if n > 0 {
					smaller := types.NewSet(orders[oi][1:]...)
					if oi < 3 && (s.Equal(smaller) || smaller.Equal(s)) {
						t.Fail("set-equal:large", fmt.Sprintf("%s order %d vs one member fewer", in, oi), "not equal", "equal")
					}
				}
				if rv, err := parseValue(string(s.MarshalCedar())); err != nil || !rv.Equal(model) {
					t.Fail("set-cedar-text-roundtrip:large", fmt.Sprintf("%s order %d", in, oi), "equal value", fmt.Sprint(err))
				}
				js, err := json.Marshal(s)
				var back types.Value
				if err == nil {
					err = types.UnmarshalJSON(js, &back)
				}
				if err != nil || !back.Equal(s) || !s.Equal(back) {
					t.Fail("set-json-roundtrip:large", fmt.Sprintf("%s order %d", in, oi), "equal value", fmt.Sprint(err))
				}
			}
			// records with n keys, two insertion orders
			m1, m2 := types.RecordMap{}, types.RecordMap{}
			for k := 0; k < n; k++ {
				m1[types.String(fmt.Sprintf("k%d", k))] = vs[k]
			}
			for k := n - 1; k >= 0; k-- {
				m2[types.String(fmt.Sprintf("k%d", k))] = vs[k]
			}
			r1, r2 := types.NewRecord(m1), types.NewRecord(m2)
			if r1.Len() != n || !r1.Equal(r2) || !types.NewSet(r1).Contains(r2) {
				t.Fail("record-equal:large", in, "equal records of n keys", fmt.Sprint(r1.Len()))
			}
			for k := 0; k < n; k++ {
				if v, ok := r1.Get(types.String(fmt.Sprintf("k%d", k))); !ok || !v.Equal(vs[k]) {
					t.Fail("record-get:large", fmt.Sprintf("%s key %d", in, k), "the value", fmt.Sprint(v, ok))
					break
				}
			}
			if n > 0 {
				delete(m2, "k0")
				if r1.Equal(types.NewRecord(m2)) {
					t.Fail("record-equal:large", in+" vs one key fewer", "not equal", "equal")
				}
			}
			js, err := json.Marshal(r1)
			var back types.Value
			if err == nil {
				err = types.UnmarshalJSON(js, &back)
			}
			if err != nil || !back.Equal(r1) {
				t.Fail("record-json-roundtrip:large", in, "equal value", fmt.Sprint(err))
			}
			t.AddStates(1)
			t.Nontrivial()
			t.Sample(in)
		},
	}
}

// mapset (the set behind Entity.Parents and the evaluator's visited sets): every sequence
// of <= 5 Add / Remove operations over {1,2,3} on a zero-value MapSet, every observable
// compared with a Go-map model after each step; every pair of such sets of <= 3 steps
// for Equal / Intersects in both directions and against the immutable view; EntityUIDSet
// built from every sequence of <= 4 uids over a universe whose ids are shared across types.
func mapsetFamily() *core.Family {
	const nOps = 6 // Add 1..3, Remove 1..3
	var seqs [][]int
	var rec func(cur []int)
	rec = func(cur []int) {
		seqs = append(seqs, append([]int{}, cur...))
		if len(cur) == 5 {
			return
		}
		for o := 0; o < nOps; o++ {
			rec(append(cur, o))
		}
	}
	rec(nil)
	uids := []types.EntityUID{types.NewEntityUID("A", "x"), types.NewEntityUID("B", "x"), types.NewEntityUID("A", "y"), types.NewEntityUID("A::B", "x")}
	apply := func(seq []int) (*mapset.MapSet[int], map[int]bool, string) {
		var s mapset.MapSet[int]
		model := map[int]bool{}
		bad := ""
		for step, o := range seq {
			item := o%3 + 1
			if o < 3 {
				if got, want := s.Add(item), !model[item]; got != want && bad == "" {
					bad = fmt.Sprintf("step %d Add(%d) returned %v", step, item, got)
				}
				model[item] = true
			} else {
				if got, want := s.Remove(item), model[item]; got != want && bad == "" {
					bad = fmt.Sprintf("step %d Remove(%d) returned %v", step, item, got)
				}
				delete(model, item)
			}
		}
		return &s, model, bad
	}
	observe := func(s mapset.Container[int], all func() []int) string {
		var ms []int
		for i := 0; i <= 4; i++ {
			if s.Contains(i) {
				ms = append(ms, i)
			}
		}
		a := all()
		sort.Ints(a)
		return fmt.Sprintf("len=%d contains=%v all=%v", s.Len(), ms, a)
	}
	modelObs := func(m map[int]bool) string {
		var ms []int
		for i := 0; i <= 4; i++ {
			if m[i] {
				ms = append(ms, i)
			}
		}
		return fmt.Sprintf("len=%d contains=%v all=%v", len(ms), ms, ms)
	}
	n := int64(len(seqs))
	return &core.Family{
		Name: "mapset-model",
		Desc: fmt.Sprintf("internal/mapset against a Go-map model: %d Add/Remove sequences of length <= 5 over {1,2,3} on a zero-value MapSet (return values, Len, Contains, All, Iterate with early break, Slice, JSON round trip, the Immutable view), Equal / Intersects between every pair of sequences of length <= 3, and EntityUIDSet from every uid sequence of length <= 4 with ids shared across types", len(seqs)),
		N:    n,
		Run: func(t *core.T, i int64) {
			seq := seqs[i]
			in := fmt.Sprintf("ops %v (0-2: Add 1-3, 3-5: Remove 1-3)", seq)
			s, model, bad := apply(seq)
			if bad != "" {
				t.Fail("mapset-return-value", in, "as the map model", bad)
			}
			want := modelObs(model)
			collect := func(it func(func(int) bool)) []int {
				var out []int
				it(func(x int) bool { out = append(out, x); return true })
				return out
			}
			views := map[string]string{
				"All":     observe(s, func() []int { return collect(s.All()) }),
				"Iterate": observe(s, func() []int { return collect(s.Iterate) }),
				"Slice":   observe(s, func() []int { return append([]int{}, s.Slice()...) }),
			}
			im := mapset.Immutable(s.Slice()...)
			views["Immutable"] = observe(im, func() []int { return collect(im.All()) })
			js, err := json.Marshal(s)
			var back mapset.MapSet[int]
			if err == nil {
				err = json.Unmarshal(js, &back)
			}
			if err != nil {
				t.Fail("mapset-json", in, "round trips", err.Error())
			} else {
				views["JSON round trip"] = observe(back, func() []int { return collect(back.All()) })
			}
			var imBack mapset.ImmutableMapSet[int]
			if err := json.Unmarshal(js, &imBack); err != nil {
				t.Fail("mapset-json", in, "round trips (immutable)", err.Error())
			} else {
				views["Immutable JSON round trip"] = observe(imBack, func() []int { return collect(imBack.All()) })
			}
			for name, got := range views {
				if got != want {
					t.Fail("mapset-observable:"+name, in, want, got)
				}
			}
			// early break: at most one element is delivered
			cnt := 0
			s.Iterate(func(int) bool { cnt++; return false })
			for range s.All() {
				cnt++
				break
			}
			if lim := 2; cnt > lim || (len(model) > 0 && cnt != 2) {
				t.Fail("mapset-early-break", in, "one element per interrupted iteration", fmt.Sprint(cnt))
			}
			if len(seq) <= 3 {
				for _, seq2 := range seqs {
					if len(seq2) > 3 {
						continue
					}
					s2, model2, _ := apply(seq2)
					eq := len(model) == len(model2)
					inter := false
					for k := range model {
						if !model2[k] {
							eq = false
						} else {
							inter = true
						}
					}
					im2 := mapset.Immutable(s2.Slice()...)
					if s.Equal(s2) != eq || s.Equal(im2) != eq || im.Equal(s2) != eq || im.Equal(im2) != eq {
						t.Fail("mapset-equal", fmt.Sprintf("%s vs %v", in, seq2), fmt.Sprint(eq), "differs")
					}
					if s.Intersects(s2) != inter || im.Intersects(im2) != inter || s2.Intersects(im) != inter {
						t.Fail("mapset-intersects", fmt.Sprintf("%s vs %v", in, seq2), fmt.Sprint(inter), "differs")
					}
				}
			}
			// size thresholds: a set of m members against sets of k members, disjoint or sharing exactly one
			if i < 14 {
				sizes := []int{0, 1, 2, 8, 9, 16, 17, 31, 32, 33, 34, 64, 65, 128}
				m := sizes[int(i)%len(sizes)]
				big := mapset.Make[int]()
				for x := 0; x < m; x++ {
					big.Add(x)
				}
				for _, k := range sizes {
					for _, shared := range []bool{false, true} {
						other := mapset.Make[int]()
						for x := 0; x < k; x++ {
							other.Add(1000 + x)
						}
						if shared && m > 0 {
							other.Add(m - 1)
						}
						wantInter := shared && m > 0
						imBig, imOther := mapset.Immutable(big.Slice()...), mapset.Immutable(other.Slice()...)
						if big.Intersects(other) != wantInter || other.Intersects(big) != wantInter || imBig.Intersects(imOther) != wantInter || imOther.Intersects(big) != wantInter {
							t.Fail("mapset-intersects:sizes", fmt.Sprintf("%d members vs %d members, shared=%v", m, other.Len(), shared), fmt.Sprint(wantInter), "differs")
						}
						wantEq := m == other.Len()
						for x := 0; x < m && wantEq; x++ {
							wantEq = other.Contains(x) // membership itself is checked by the sequences above
						}
						if m > 0 && k > 0 {
							wantEq = false
						}
						if big.Equal(other) != wantEq || other.Equal(imBig) != wantEq {
							t.Fail("mapset-equal:sizes", fmt.Sprintf("%d members vs %d members, shared=%v", m, other.Len(), shared), fmt.Sprint(wantEq), "differs")
						}
					}
				}
				same := mapset.FromItems(big.Slice()...)
				if !big.Equal(same) || !same.Equal(mapset.Immutable(big.Slice()...)) || big.Len() != m {
					t.Fail("mapset-equal:sizes", fmt.Sprintf("%d members vs a copy", m), "true", "false")
				}
			}
			// EntityUIDSet from the uid sequence encoded by the same index (length <= 4)
			if len(seq) <= 4 {
				var us []types.EntityUID
				mu := map[types.EntityUID]bool{}
				for _, o := range seq {
					u := uids[o%len(uids)]
					us = append(us, u)
					mu[u] = true
				}
				es := types.NewEntityUIDSet(us...)
				if es.Len() != len(mu) {
					t.Fail("entityuidset-len", fmt.Sprint(us), fmt.Sprint(len(mu)), fmt.Sprint(es.Len()))
				}
				for _, u := range uids {
					if es.Contains(u) != mu[u] {
						t.Fail("entityuidset-contains", fmt.Sprintf("%v contains %v", us, u), fmt.Sprint(mu[u]), fmt.Sprint(es.Contains(u)))
					}
				}
				if len(us) > 0 {
					us[0] = types.NewEntityUID("Z", "mutated")
					if es.Contains(us[0]) || es.Len() != len(mu) {
						t.Fail("entityuidset-aliases-input", fmt.Sprint(us), "unchanged", "changed with the input slice")
					}
				}
				ejs, err := json.Marshal(es)
				var eback types.EntityUIDSet
				if err == nil {
					err = json.Unmarshal(ejs, &eback)
				}
				if err != nil || !eback.Equal(es) || !es.Equal(eback) {
					t.Fail("entityuidset-json", string(ejs), "round trips to an equal set", fmt.Sprint(err))
				}
			}
			t.AddStates(1)
			t.Nontrivial()
			t.Sample(in)
		},
	}
}

// returned byte slices belong to the caller: scribbling over what MarshalCedar / MarshalJSON
// returned must not change what the value (or any other value) renders as afterwards.
func ownedBytes() *core.Family {
	return &core.Family{
		Name: "returned-bytes-are-owned",
		Desc: fmt.Sprintf("every value of the universe and of its closure (%d values): the bytes returned by MarshalCedar and MarshalJSON are overwritten by the caller; String / MarshalCedar / MarshalJSON of that value, of a set and of a record holding it are unchanged afterwards", len(implU)),
		N:    int64(len(implU)),
		Run: func(t *core.T, i int64) {
			v := implU[i]
			holders := []types.Value{v, types.NewSet(v, types.Long(7)), types.NewRecord(types.RecordMap{"k": v})}
			render := func() string {
				var sb strings.Builder
				for _, h := range holders {
					js, _ := json.Marshal(h)
					sb.WriteString(h.String() + "|" + string(h.MarshalCedar()) + "|" + string(js) + "\n")
				}
				return sb.String()
			}
			before := render()
			for _, h := range holders {
				b := h.MarshalCedar()
				for k := range b {
					b[k] = 'X'
				}
				if m, ok := h.(json.Marshaler); ok {
					jb, _ := m.MarshalJSON()
					for k := range jb {
						jb[k] = 'Y'
					}
				}
			}
			if after := render(); after != before {
				t.Fail("returned-bytes-alias-internal-state:"+U[i].K.String(), U[i].Key(), before, after)
			}
			t.Nontrivial()
			t.AddStates(1)
			t.Sample(U[i].Key())
		},
	}
}

// the bytes a value was decoded FROM belong to the caller too: every decoder of the value
// types is given a private buffer that is overwritten after the call (core.Scribbled); the
// decoded value, and a set and a record built around it, still equal a value decoded from an
// untouched buffer, and render the same.
func decodeInputsReused() *core.Family {
	type dec struct {
		name string
		run  func(src []byte) (types.Value, error)
	}
	decs := []dec{
		{"EntityUID.UnmarshalCedar", func(b []byte) (types.Value, error) { var e types.EntityUID; err := e.UnmarshalCedar(b); return e, err }},
		{"EntityUID.UnmarshalBinary", func(b []byte) (types.Value, error) { var e types.EntityUID; err := e.UnmarshalBinary(b); return e, err }},
		{"EntityUID.UnmarshalJSON", func(b []byte) (types.Value, error) { var e types.EntityUID; err := e.UnmarshalJSON(b); return e, err }},
		{"types.UnmarshalJSON", func(b []byte) (types.Value, error) {
			var v types.Value
			err := types.UnmarshalJSON(b, &v)
			return v, err
		}},
		{"Set.UnmarshalJSON", func(b []byte) (types.Value, error) { var v types.Set; err := v.UnmarshalJSON(b); return v, err }},
		{"Record.UnmarshalJSON", func(b []byte) (types.Value, error) { var v types.Record; err := v.UnmarshalJSON(b); return v, err }},
		{"IPAddr.UnmarshalJSON", func(b []byte) (types.Value, error) { var v types.IPAddr; err := v.UnmarshalJSON(b); return v, err }},
		{"Decimal.UnmarshalJSON", func(b []byte) (types.Value, error) { var v types.Decimal; err := v.UnmarshalJSON(b); return v, err }},
		{"Datetime.UnmarshalJSON", func(b []byte) (types.Value, error) { var v types.Datetime; err := v.UnmarshalJSON(b); return v, err }},
		{"Duration.UnmarshalJSON", func(b []byte) (types.Value, error) { var v types.Duration; err := v.UnmarshalJSON(b); return v, err }},
	}
	docs := []string{
		`User::"alice"`, `NS::Sub::Type::"a\"b\u{e9}"`, `A::""`,
		`{"type":"User","id":"alice"}`, `{"__entity":{"type":"NS::User","id":"al ice"}}`,
		`"plain string"`, `12345`, `true`, `["a","b",["c"]]`, `{"key one":"v","k2":{"__entity":{"type":"T","id":"i"}},"k3":{"inner key":[1,"s"]}}`,
		`"10.0.0.0/8"`, `{"__extn":{"fn":"ip","arg":"2001:db8::1"}}`, `"12.3400"`, `{"fn":"decimal","arg":"-0.5"}`, `"2024-02-29T10:00:00.000Z"`, `"1d2h3m4s5ms"`,
	}
	return &core.Family{
		Name: "decode-input-bytes-reused",
		Desc: fmt.Sprintf("%d decoders of the value types x %d documents: the buffer the value was decoded from is overwritten by the caller afterwards; the value (alone, in a set, in a record) still equals one decoded from an untouched buffer", len(decs), len(docs)),
		N:    int64(len(decs) * len(docs)),
		Run: func(t *core.T, i int64) {
			d := decs[int(i)/len(docs)]
			doc := docs[int(i)%len(docs)]
			want, werr := d.run([]byte(doc))
			if werr != nil {
				return // not a document of this decoder
			}
			var got types.Value
			if err := core.Scribbled([]byte(doc), func(b []byte) error { var e error; got, e = d.run(b); return e }); err != nil {
				t.Fail("decode-differs-on-private-buffer:"+d.name, doc, "decodes", err.Error())
				return
			}
			render := func(v types.Value) string {
				js, _ := json.Marshal(types.NewRecord(types.RecordMap{"k": v, "s": types.NewSet(v, types.Long(1))}))
				return v.String() + "|" + string(v.MarshalCedar()) + "|" + string(js)
			}
			if !got.Equal(want) || !want.Equal(got) || render(got) != render(want) {
				t.Fail("decoded-value-aliases-input-bytes:"+d.name, doc, render(want), render(got))
			}
			t.Nontrivial()
			t.AddStates(1)
			t.Sample(d.name + " <- " + doc)
		},
	}
}

func pairFamily(maxLen int) *core.Family {
	n := len(U)
	cnt := seqCount(n, maxLen)
	return &core.Family{
		Name: fmt.Sprintf("set-pairs-le%d", maxLen),
		Desc: fmt.Sprintf("all pairs of sets built from sequences of length <=%d (%d^2): Equal both ways, ==, contains, containsAll, containsAny through eval.Eval", maxLen, cnt),
		N:    cnt * cnt,
		Run: func(t *core.T, i int64) {
			sa, sb := seqAt(i/cnt, n), seqAt(i%cnt, n)
			ia, ma := build(sa)
			ib, mb := build(sb)
			in := func() string { return seqStr(sa) + " vs " + seqStr(sb) }
			want := ma.Equal(mb)
			if ia.Equal(ib) != want || ib.Equal(ia) != want {
				t.Fail("set-equal", in(), fmt.Sprint(want), fmt.Sprintf("%v / %v", ia.Equal(ib), ib.Equal(ia)))
			}
			all, any := true, false
			for _, x := range mb.Elems {
				if ma.SetContains(x) {
					any = true
				} else {
					all = false
				}
			}
			type q struct {
				name string
				n    xast.Node
				want bool
			}
			va, vb := xast.Value(ia), xast.Value(ib)
			for _, c := range []q{{"==", va.Equal(vb), want}, {"!=", va.NotEqual(vb), !want}, {"contains", va.Contains(vb), ma.SetContains(mb)}, {"containsAll", va.ContainsAll(vb), all}, {"containsAny", va.ContainsAny(vb), any}} {
				v, err := eval.Eval(c.n.AsIsNode(), env0)
				if err != nil || v != types.Boolean(c.want) {
					t.Fail("set-operator:"+c.name, in(), fmt.Sprint(c.want), fmt.Sprintf("%v %v", v, err))
				}
			}
			t.AddStates(1)
			t.AddTrans(7)
			if want && fmt.Sprint(sa) != fmt.Sprint(sb) {
				t.Nontrivial()
			}
			t.SampleF(in)
		},
	}
}

// records: every map over 3 keys x 4 values (absent allowed), all pairs.
func recordFamily() *core.Family {
	keys := []string{"a", "b", ""}
	vals := []Val{Long(1), Bool(true), Set(Long(1)), Rec(KV{"a", Long(1)})}
	nrec := int64(5 * 5 * 5)
	mk := func(i int64) (types.Record, Val, string) {
		var kvs []KV
		m := types.RecordMap{}
		for k := 0; k < 3; k++ {
			d := i % 5
			i /= 5
			if d > 0 {
				kvs = append(kvs, KV{keys[k], vals[d-1]})
				m[types.String(keys[k])] = vals[d-1].ToImpl()
			}
		}
		r := Rec(kvs...)
		return types.NewRecord(m), r, r.Key()
	}
	return &core.Family{
		Name: "record-pairs",
		Desc: "every record over 3 keys x {absent, 4 colliding values} (125), all pairs: Equal both ways, Len, Get, Map, ==, text and JSON forms",
		N:    nrec * nrec,
		Run: func(t *core.T, i int64) {
			ia, ma, da := mk(i / nrec)
			ib, mb, db := mk(i % nrec)
			in := func() string { return da + " vs " + db }
			want := ma.Equal(mb)
			if ia.Equal(ib) != want || ib.Equal(ia) != want {
				t.Fail("record-equal", in(), fmt.Sprint(want), fmt.Sprintf("%v / %v", ia.Equal(ib), ib.Equal(ia)))
			}
			if ia.Len() != len(ma.Keys) {
				t.Fail("record-len", da, fmt.Sprint(len(ma.Keys)), fmt.Sprint(ia.Len()))
			}
			for _, k := range append(keys, "zz") {
				gv, gok := ia.Get(types.String(k))
				mv, mok := ma.Get(k)
				if gok != mok {
					t.Fail("record-get", da+".Get("+k+")", fmt.Sprint(mok), fmt.Sprint(gok))
				} else if gok {
					if rv, err := FromImpl(gv); err != nil || !rv.Equal(mv) {
						t.Fail("record-get-value", da+".Get("+k+")", mv.Key(), fmt.Sprint(rv.Key(), err))
					}
				}
			}
			if rv, err := FromImpl(types.NewRecord(ia.Map())); err != nil || !rv.Equal(ma) {
				t.Fail("record-map", da, ma.Key(), fmt.Sprint(rv.Key(), err))
			}
			v, err := eval.Eval(xast.Value(ia).Equal(xast.Value(ib)).AsIsNode(), env0)
			if err != nil || v != types.Boolean(want) {
				t.Fail("record-operator-==", in(), fmt.Sprint(want), fmt.Sprint(v, err))
			}
			if i%nrec == 0 {
				if rv, err := parseValue(string(ia.MarshalCedar())); err != nil || !rv.Equal(ma) {
					t.Fail("record-cedar-text-roundtrip", da+" => "+string(ia.MarshalCedar()), ma.Key(), fmt.Sprint(rv.Key(), err))
				}
				js, err := json.Marshal(ia)
				var back types.Record
				if err == nil {
					err = json.Unmarshal(js, &back)
				}
				if err != nil || !back.Equal(ia) || !ia.Equal(back) {
					t.Fail("record-json-roundtrip", da+" => "+string(js), "equal record", fmt.Sprint(err))
				}
			}
			t.AddStates(1)
			if want && i/nrec != i%nrec {
				t.Nontrivial()
			}
			if !want {
				t.Nontrivial()
			}
			t.SampleF(in)
		},
	}
}

// closure: equality over a closure of the universe is exactly structural, type-distinguishing.
func closureFamily() *core.Family {
	var C []Val
	C = append(C, U...)
	C = append(C, Decimal(0), Decimal(10000), Duration(0), Long(10000), Str(""), Str("1"), Str("true"), Entity("U", "b"), Entity("V", "a"), Entity("U", ""),
		IP4(0, 0, 0, 1, 32), IP4(0, 0, 0, 1, 31), IP4(0, 0, 0, 0, 0), IP6([16]byte{15: 1}, 128), IP6([16]byte{}, 0), IP6([16]byte{12: 0, 13: 0, 14: 0, 15: 1}, 32),
		Set(Long(1), Bool(true)), Set(Bool(true), Long(1), Decimal(1)), Set(Set(Long(1))), Set(Set(Bool(true))), Set(Set()), Set(Rec()), Set(Long(2), Long(3)), Set(Long(3), Long(2), Long(1)), Set(Long(-1), Long(0)),
		Rec(KV{"a", Long(1)}), Rec(KV{"a", Bool(true)}), Rec(KV{"b", Long(1)}), Rec(KV{"a", Long(1)}, KV{"b", Long(1)}), Rec(KV{"a", Set(Long(1))}), Rec(KV{"a", Set(Bool(true))}), Rec(KV{"a", Rec()}), Rec(KV{"", Long(1)}),
		Rec(KV{"__entity", Rec(KV{"type", Str("U")}, KV{"id", Str("a")})}), Rec(KV{"type", Str("U")}, KV{"id", Str("a")}),
	)
	var I []types.Value
	for _, v := range C {
		I = append(I, v.ToImpl())
	}
	n := int64(len(C))
	return &core.Family{
		Name: "closure-equality",
		Desc: fmt.Sprintf("all ordered pairs of a %d-value closure of the universe (every type, nested sets/records, IP families and prefixes): Equal == structural equality (hence reflexive, symmetric, transitive, type-distinguishing); text and JSON forms of each value decode to an equal value", n),
		N:    n * n,
		Run: func(t *core.T, i int64) {
			a, b := i/n, i%n
			want := C[a].Equal(C[b])
			in := func() string { return C[a].Key() + " vs " + C[b].Key() }
			if I[a].Equal(I[b]) != want {
				t.Fail(fmt.Sprintf("value-equal:%s-vs-%s", C[a].K, C[b].K), in(), fmt.Sprint(want), fmt.Sprint(!want))
			}
			v, err := eval.Eval(xast.Value(I[a]).Equal(xast.Value(I[b])).AsIsNode(), env0)
			if err != nil || v != types.Boolean(want) {
				t.Fail(fmt.Sprintf("operator-==:%s-vs-%s", C[a].K, C[b].K), in(), fmt.Sprint(want), fmt.Sprint(v, err))
			}
			// a set of the two has 1 or 2 members accordingly
			if s := types.NewSet(I[a], I[b]); (s.Len() == 1) != want {
				t.Fail(fmt.Sprintf("set-dedup:%s-vs-%s", C[a].K, C[b].K), in(), fmt.Sprint(want), fmt.Sprint(s.Len()))
			}
			if a == b {
				if rv, err := parseValue(string(I[a].MarshalCedar())); err != nil || !rv.Equal(C[a]) {
					t.Fail("cedar-text-roundtrip:"+C[a].K.String(), C[a].Key()+" => "+string(I[a].MarshalCedar()), C[a].Key(), fmt.Sprint(rv.Key(), err))
				}
				js, err := json.Marshal(I[a])
				var back types.Value
				if err == nil {
					err = types.UnmarshalJSON(js, &back)
				}
				if err != nil {
					t.Fail("json-roundtrip:"+C[a].K.String(), C[a].Key()+" => "+string(js), "decodes", err.Error())
				} else if rv, cerr := FromImpl(back); cerr != nil || !rv.Equal(C[a]) {
					t.Fail("json-roundtrip:"+C[a].K.String()+":"+C[a].Key(), C[a].Key()+" => "+string(js), C[a].Key(), fmt.Sprint(rv.Key(), cerr))
				}
			}
			t.AddStates(1)
			t.Nontrivial()
			t.SampleF(in)
		},
	}
}

// ---------------------------------------------------------------------------
// immutability (E3): histories of constructor-input / accessor-output mutations

type world struct {
	slice   []types.Value   // the slice handed to NewSet
	rmap    types.RecordMap // the map handed to NewRecord
	sets    []types.Set
	recs    []types.Record
	outS    [][]types.Value
	outM    []types.RecordMap
	prints  []string // fingerprints at creation
	created []string
}

func fingerprint(v types.Value) string {
	rv, err := FromImpl(v)
	if err != nil {
		return "malformed:" + err.Error()
	}
	js, _ := json.Marshal(v)
	return rv.Key() + " # " + string(v.MarshalCedar()) + " # " + string(js)
}

var opNames = []string{
	"s=NewSet(slice...)", "slice[0]=2", "slice[1]=true", "x=s.Slice()", "x[0]=\"z\"", "x=append(x[:0],3)", "iterate s with early break", "marshal s",
	"r=NewRecord(map)", "map[a]=2", "delete(map,b)", "map[c]=1", "m=r.Map()", "m[a]=\"z\"", "delete(m,a)", "iterate r with early break", "s2=NewSet(s.Slice()...) then mutate its input",
	"slice=append(slice,7)",
}

func apply(w *world, op int) {
	lastS := func() (types.Set, bool) {
		if len(w.sets) == 0 {
			return types.Set{}, false
		}
		return w.sets[len(w.sets)-1], true
	}
	lastR := func() (types.Record, bool) {
		if len(w.recs) == 0 {
			return types.Record{}, false
		}
		return w.recs[len(w.recs)-1], true
	}
	switch op {
	case 0:
		s := types.NewSet(w.slice...)
		w.sets = append(w.sets, s)
		w.prints = append(w.prints, fingerprint(s))
		w.created = append(w.created, fmt.Sprintf("set#%d", len(w.sets)-1))
	case 1:
		if len(w.slice) > 0 {
			w.slice[0] = types.Long(2)
		}
	case 2:
		if len(w.slice) > 1 {
			w.slice[1] = types.True
		}
	case 17:
		w.slice = append(w.slice, types.Long(7))
	case 3:
		if s, ok := lastS(); ok {
			w.outS = append(w.outS, s.Slice())
		}
	case 4:
		if len(w.outS) > 0 && len(w.outS[len(w.outS)-1]) > 0 {
			w.outS[len(w.outS)-1][0] = types.String("z")
		}
	case 5:
		if len(w.outS) > 0 {
			x := w.outS[len(w.outS)-1]
			w.outS[len(w.outS)-1] = append(x[:0], types.Long(3))
		}
	case 6:
		if s, ok := lastS(); ok {
			for range s.All() {
				break
			}
			s.Iterate(func(types.Value) bool { return false })
		}
	case 7:
		if s, ok := lastS(); ok {
			_ = s.MarshalCedar()
			_, _ = s.MarshalJSON()
			_ = s.String()
		}
	case 8:
		r := types.NewRecord(w.rmap)
		w.recs = append(w.recs, r)
		w.prints = append(w.prints, fingerprint(r))
		w.created = append(w.created, fmt.Sprintf("rec#%d", len(w.recs)-1))
	case 9:
		if w.rmap != nil {
			w.rmap["a"] = types.Long(2)
		}
	case 10:
		delete(w.rmap, "b")
	case 11:
		if w.rmap != nil {
			w.rmap["c"] = types.Long(1)
		}
	case 12:
		if r, ok := lastR(); ok {
			w.outM = append(w.outM, r.Map())
		}
	case 13:
		if len(w.outM) > 0 && w.outM[len(w.outM)-1] != nil {
			w.outM[len(w.outM)-1]["a"] = types.String("z")
		}
	case 14:
		if len(w.outM) > 0 {
			delete(w.outM[len(w.outM)-1], "a")
		}
	case 15:
		if r, ok := lastR(); ok {
			for range r.All() {
				break
			}
			r.Iterate(func(types.String, types.Value) bool { return false })
			for range r.Keys() {
				break
			}
		}
	case 16:
		if s, ok := lastS(); ok {
			in := s.Slice()
			s2 := types.NewSet(in...)
			w.sets = append(w.sets, s2)
			w.prints = append(w.prints, fingerprint(s2))
			w.created = append(w.created, fmt.Sprintf("set#%d", len(w.sets)-1))
			if len(in) > 0 {
				in[0] = types.String("q")
			}
		}
	}
}

func newWorld(init int) *world {
	w := &world{}
	switch init {
	case 0:
		w.slice = []types.Value{types.Long(1), types.Long(3), types.String("a")}
		w.rmap = types.RecordMap{"a": types.Long(1), "b": types.NewSet(types.Long(1))}
	case 2: // empty but non-nil inputs with spare capacity: the degenerate sizes of every copy-on-construct path
		w.slice = make([]types.Value, 0, 4)
		w.rmap = types.RecordMap{}
	case 3: // nil inputs
		w.slice = nil
		w.rmap = nil
	case 4: // single-element inputs, spare capacity
		w.slice = append(make([]types.Value, 0, 4), types.Long(1))
		w.rmap = types.RecordMap{"a": types.Long(1)}
	default:
		w.slice = []types.Value{types.True, types.Long(1), types.NewSet(types.Long(1))}
		w.rmap = types.RecordMap{"a": types.NewRecord(types.RecordMap{"k": types.Long(1)}), "b": types.Long(2)}
		apply(w, 0)
		apply(w, 8)
	}
	return w
}

func immutability(depth int) *core.Family {
	return &core.Family{
		Name:   "immutability-histories",
		Desc:   fmt.Sprintf("BFS depth<=%d over %d operations (construct from slice/map, mutate the input, take Slice()/Map(), mutate the output, append to the input, iterate with early break, re-marshal) from 5 initial states (3-element inputs, values already built, empty non-nil inputs with spare capacity, nil inputs, single-element inputs); invariant: the public fingerprint (reference form + Cedar text + JSON) of every value created so far is unchanged", depth, len(opNames)),
		N:      5,
		Serial: true,
		Run: func(t *core.T, i int64) {
			st := core.BFS(t, len(opNames), depth, 0, func(ct *core.T, path []int) (string, bool) {
				w := newWorld(int(i))
				hist := func() string {
					var parts []string
					for _, o := range path {
						parts = append(parts, opNames[o])
					}
					return fmt.Sprintf("init%d: %s", i, strings.Join(parts, " ; "))
				}
				for _, o := range path {
					apply(w, o)
				}
				// invariant: every created value still has the fingerprint it had at creation
				si, ri := 0, 0
				okAll := true
				for k, name := range w.created {
					var got string
					if strings.HasPrefix(name, "set") {
						got = fingerprint(w.sets[si])
						si++
					} else {
						got = fingerprint(w.recs[ri])
						ri++
					}
					if got != w.prints[k] {
						last := "init"
						if len(path) > 0 {
							last = opNames[path[len(path)-1]]
						}
						ct.Fail("value-mutated:"+name[:3]+":by:"+last, hist(), w.prints[k], got)
						okAll = false
					}
				}
				// canonical state: the inputs' current contents and which values/outputs exist
				var sb strings.Builder
				fmt.Fprintf(&sb, "%v|", w.slice)
				keys := make([]string, 0, len(w.rmap))
				for k, v := range w.rmap {
					keys = append(keys, string(k)+"="+v.String())
				}
				sort.Strings(keys)
				fmt.Fprintf(&sb, "%v|%d|%d|", keys, len(w.sets), len(w.recs))
				if len(w.outS) > 0 {
					fmt.Fprintf(&sb, "outS=%v|", w.outS[len(w.outS)-1])
				}
				if len(w.outM) > 0 {
					mk := make([]string, 0)
					for k, v := range w.outM[len(w.outM)-1] {
						mk = append(mk, string(k)+"="+v.String())
					}
					sort.Strings(mk)
					fmt.Fprintf(&sb, "outM=%v|", mk)
				}
				if len(w.sets) > 0 {
					fmt.Fprintf(&sb, "lastS=%s|", w.prints[len(w.prints)-1])
				}
				return sb.String(), okAll
			})
			if st.States > 1 {
				t.Nontrivial()
			}
			t.Sample(fmt.Sprintf("init %d: %d states, %d transitions", i, st.States, st.Transitions))
		},
	}
}

func Check() *core.Check {
	return &core.Check{
		ID:    "C11",
		Title: "Value equality, hashing, sets and records obey their algebraic laws",
		Rule: "bounded-exhaustive: sets from every sequence over a universe built to collide in the internal hash, all pairs of such sets and of small records, all pairs of a closure of the universe, compared with a sorted duplicate-free reference model (Len, Contains, iteration, Equal, ==, contains*, text and JSON forms); explicit-state BFS over constructor-input / accessor-output mutation histories with the invariant that no existing value changes; " +
			"a case is non-trivial if the sequence has duplicates or >1 members / the pair is equal-but-differently-built or unequal",
		Assumptions: []string{"the reference equality is structural and type-distinguishing (Cedar ==)"},
		Families: func(tier string) []*core.Family {
			if tier == "thorough" {
				return []*core.Family{closureFamily(), recordFamily(), setFamily(6), pairFamily(3), largeFamily(), mapsetFamily(), c13.UsedReceivers(), ownedBytes(), decodeInputsReused(), immutability(7)}
			}
			return []*core.Family{closureFamily(), recordFamily(), setFamily(5), pairFamily(2), largeFamily(), mapsetFamily(), c13.UsedReceivers(), ownedBytes(), decodeInputsReused(), immutability(5)}
		},
	}
}
