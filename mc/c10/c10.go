// Package c10: decoders and encoders are total: no panic, crash or hang on any input (E1 + E2 + E7).
package c10

import (
	"bytes"
	"context"
	"encoding/json"
	"fmt"
	"strconv"
	"strings"
	"time"
	"unicode/utf8"

	cedar "github.com/cedar-policy/cedar-go"
	publicast "github.com/cedar-policy/cedar-go/ast"
	"github.com/cedar-policy/cedar-go/types"
	"github.com/cedar-policy/cedar-go/verif/core"
	"github.com/cedar-policy/cedar-go/verif/gen"
	. "github.com/cedar-policy/cedar-go/verif/refsem"
	xast "github.com/cedar-policy/cedar-go/x/exp/ast"
	"github.com/cedar-policy/cedar-go/x/exp/batch"
	"github.com/cedar-policy/cedar-go/x/exp/eval"
	"github.com/cedar-policy/cedar-go/x/exp/schema"
)

var ents = gen.Stores()[1].ToImpl()
var req = cedar.Request{Principal: types.NewEntityUID("U", "alice"), Action: types.NewEntityUID("Action", "view"), Resource: types.NewEntityUID("G", "g1"),
	Context: types.NewRecord(types.RecordMap{"a": types.Long(1)})}

// usePolicy passes an accepted policy to every encoder and to the authorizers.
func usePolicy(t *core.T, sig, src string, p *cedar.Policy) {
	t.Protect(sig+":then:MarshalCedar", src, func() { _ = p.MarshalCedar() })
	t.Protect(sig+":then:MarshalJSON", src, func() { _, _ = p.MarshalJSON() })
	t.Protect(sig+":then:ast.MarshalCedar", src, func() { _ = (*publicast.Policy)(p.AST()).MarshalCedar() })
	t.Protect(sig+":then:Annotations", src, func() { _ = p.Annotations(); _ = p.Effect(); _ = p.Position() })
	t.Protect(sig+":then:Encoder", src, func() { var b bytes.Buffer; _ = cedar.NewEncoder(&b).Encode(p) })
	ps := cedar.NewPolicySet()
	ps.Add("p", p)
	t.Protect(sig+":then:Authorize", src, func() { _, _ = cedar.Authorize(ps, ents, req) })
	t.Protect(sig+":then:PolicySet.MarshalCedar", src, func() { _ = ps.MarshalCedar() })
	t.Protect(sig+":then:PolicySet.MarshalJSON", src, func() { _, _ = ps.MarshalJSON() })
	t.Protect(sig+":then:batch.Authorize", src, func() {
		_ = batch.Authorize(context.Background(), ps, ents, batch.Request{Principal: batch.Variable("p"), Action: req.Action, Resource: req.Resource, Context: req.Context,
			Variables: batch.Variables{"p": {req.Principal}}}, func(batch.Result) error { return nil })
	})
	t.Protect(sig+":then:PartialPolicy", src, func() {
		_, _ = eval.PartialPolicy(eval.Env{Entities: ents, Principal: eval.Variable("p"), Action: req.Action, Resource: req.Resource, Context: req.Context}, (*xast.Policy)(p.AST()))
	})
}

func useValue(t *core.T, sig, src string, v types.Value) {
	if v == nil {
		return
	}
	t.Protect(sig+":then:MarshalCedar", src, func() { _ = v.MarshalCedar(); _ = v.String() })
	t.Protect(sig+":then:MarshalJSON", src, func() { _, _ = json.Marshal(v) })
	t.Protect(sig+":then:Equal", src, func() { _ = v.Equal(v); _ = types.NewSet(v, v).Len() })
	t.Protect(sig+":then:Authorize", src, func() {
		ps := cedar.NewPolicySet()
		ps.Add("p", cedar.NewPolicyFromAST((*publicast.Policy)(xast.Permit().When(xast.Context().Access("v").Equal(xast.Value(v))))))
		_, _ = cedar.Authorize(ps, ents, cedar.Request{Principal: req.Principal, Action: req.Action, Resource: req.Resource, Context: types.NewRecord(types.RecordMap{"v": v})})
	})
}

func useSchema(t *core.T, sig, src string, s *schema.Schema) {
	t.Protect(sig+":then:MarshalCedar", src, func() { _, _ = s.MarshalCedar() })
	t.Protect(sig+":then:MarshalJSON", src, func() { _, _ = s.MarshalJSON() })
	t.Protect(sig+":then:Resolve", src, func() { _, _ = s.Resolve() })
}

// entry points -----------------------------------------------------------------

type entry struct {
	name string
	run  func(t *core.T, src []byte) (accepted bool)
}

func short(b []byte) string {
	if len(b) > 1500 {
		return fmt.Sprintf("%s…(%d bytes)", b[:1500], len(b))
	}
	return string(b)
}

var textPolicyEntries = []entry{
	{"Policy.UnmarshalCedar", func(t *core.T, src []byte) bool {
		var p cedar.Policy
		var err error
		if t.Protect("Policy.UnmarshalCedar", short(src), func() { err = p.UnmarshalCedar(src) }) || err != nil {
			return false
		}
		usePolicy(t, "Policy.UnmarshalCedar", short(src), &p)
		return true
	}},
	{"NewPolicyListFromBytes", func(t *core.T, src []byte) bool {
		var l cedar.PolicyList
		var err error
		if t.Protect("NewPolicyListFromBytes", short(src), func() { l, err = cedar.NewPolicyListFromBytes("f.cedar", src) }) || err != nil {
			return false
		}
		t.Protect("NewPolicyListFromBytes:then:MarshalCedar", short(src), func() { _ = l.MarshalCedar() })
		for _, p := range l {
			usePolicy(t, "NewPolicyListFromBytes", short(src), p)
		}
		return true
	}},
	{"NewPolicySetFromBytes", func(t *core.T, src []byte) bool {
		var ps *cedar.PolicySet
		var err error
		if t.Protect("NewPolicySetFromBytes", short(src), func() { ps, err = cedar.NewPolicySetFromBytes("f.cedar", src) }) || err != nil {
			return false
		}
		t.Protect("NewPolicySetFromBytes:then:use", short(src), func() { _ = ps.MarshalCedar(); _, _ = ps.MarshalJSON(); _, _ = cedar.Authorize(ps, ents, req) })
		return true
	}},
	{"Decoder.Decode", func(t *core.T, src []byte) bool {
		ok := false
		t.Protect("Decoder.Decode", short(src), func() {
			dec := cedar.NewDecoder(bytes.NewReader(src))
			for i := 0; i < 100; i++ {
				var p cedar.Policy
				if err := dec.Decode(&p); err != nil {
					return
				}
				ok = true
			}
		})
		return ok
	}},
}

var jsonPolicyEntries = []entry{
	{"Policy.UnmarshalJSON", func(t *core.T, src []byte) bool {
		var p cedar.Policy
		var err error
		if t.Protect("Policy.UnmarshalJSON", short(src), func() { err = p.UnmarshalJSON(src) }) || err != nil {
			return false
		}
		usePolicy(t, "Policy.UnmarshalJSON", short(src), &p)
		return true
	}},
	{"ast.Policy.UnmarshalJSON", func(t *core.T, src []byte) bool {
		var p publicast.Policy
		var err error
		if t.Protect("ast.Policy.UnmarshalJSON", short(src), func() { err = p.UnmarshalJSON(src) }) || err != nil {
			return false
		}
		t.Protect("ast.Policy.UnmarshalJSON:then:marshal", short(src), func() { _ = p.MarshalCedar(); _, _ = p.MarshalJSON() })
		return true
	}},
}

var jsonPolicySetEntries = []entry{
	{"PolicySet.UnmarshalJSON", func(t *core.T, src []byte) bool {
		ps := cedar.NewPolicySet()
		var err error
		if t.Protect("PolicySet.UnmarshalJSON", short(src), func() { err = ps.UnmarshalJSON(src) }) || err != nil {
			return false
		}
		t.Protect("PolicySet.UnmarshalJSON:then:use", short(src), func() {
			_ = ps.MarshalCedar()
			_, _ = ps.MarshalJSON()
			_, _ = cedar.Authorize(ps, ents, req)
			for _, p := range ps.All() {
				_ = p.MarshalCedar()
			}
		})
		return true
	}},
}

func valueEntry[T any](name string, use func(t *core.T, sig, src string, v *T)) entry {
	return entry{name, func(t *core.T, src []byte) bool {
		var v T
		var err error
		if t.Protect(name, short(src), func() { err = json.Unmarshal(src, &v) }) || err != nil {
			return false
		}
		if use != nil {
			use(t, name, short(src), &v)
		}
		return true
	}}
}

var jsonValueEntries = []entry{
	{"types.UnmarshalJSON", func(t *core.T, src []byte) bool {
		var v types.Value
		var err error
		if t.Protect("types.UnmarshalJSON", short(src), func() { err = types.UnmarshalJSON(src, &v) }) || err != nil {
			return false
		}
		useValue(t, "types.UnmarshalJSON", short(src), v)
		return true
	}},
	valueEntry("Set.UnmarshalJSON", func(t *core.T, sig, src string, v *types.Set) { useValue(t, sig, src, *v) }),
	valueEntry("Record.UnmarshalJSON", func(t *core.T, sig, src string, v *types.Record) { useValue(t, sig, src, *v) }),
	valueEntry("EntityUID.UnmarshalJSON", func(t *core.T, sig, src string, v *types.EntityUID) { useValue(t, sig, src, *v) }),
	valueEntry("Decimal.UnmarshalJSON", func(t *core.T, sig, src string, v *types.Decimal) { useValue(t, sig, src, *v) }),
	valueEntry("IPAddr.UnmarshalJSON", func(t *core.T, sig, src string, v *types.IPAddr) { useValue(t, sig, src, *v) }),
	valueEntry("Datetime.UnmarshalJSON", func(t *core.T, sig, src string, v *types.Datetime) { useValue(t, sig, src, *v) }),
	valueEntry("Duration.UnmarshalJSON", func(t *core.T, sig, src string, v *types.Duration) { useValue(t, sig, src, *v) }),
	valueEntry("Pattern.UnmarshalJSON", func(t *core.T, sig, src string, v *types.Pattern) {
		t.Protect(sig+":then:use", src, func() { _ = v.MarshalCedar(); _, _ = v.MarshalJSON(); _ = v.Match("abc") })
	}),
	valueEntry("Entity.UnmarshalJSON", func(t *core.T, sig, src string, v *types.Entity) {
		t.Protect(sig+":then:use", src, func() {
			_, _ = json.Marshal(*v)
			_ = v.Equal(*v)
			_, _ = cedar.Authorize(cedar.NewPolicySet(), types.EntityMap{v.UID: *v}, req)
		})
	}),
	valueEntry("EntityMap.UnmarshalJSON", func(t *core.T, sig, src string, v *types.EntityMap) {
		t.Protect(sig+":then:use", src, func() {
			_, _ = json.Marshal(*v)
			ps, _ := cedar.NewPolicySetFromBytes("f", []byte(`permit(principal in G::"g2", action, resource) when { principal.a == 1 && resource.hasTag("a") };`))
			_, _ = cedar.Authorize(ps, *v, req)
		})
	}),
	valueEntry("Request.UnmarshalJSON", func(t *core.T, sig, src string, v *types.Request) {
		t.Protect(sig+":then:use", src, func() {
			_, _ = json.Marshal(*v)
			ps, _ := cedar.NewPolicySetFromBytes("f", []byte(`permit(principal, action, resource) when { context.a == 1 };`))
			_, _ = cedar.Authorize(ps, ents, *v)
		})
	}),
	valueEntry[types.Diagnostic]("Diagnostic.UnmarshalJSON", nil),
	valueEntry[types.Decision]("Decision.UnmarshalJSON", nil),
}

var uidTextEntries = []entry{
	{"EntityUID.UnmarshalCedar", func(t *core.T, src []byte) bool {
		var u types.EntityUID
		var err error
		if t.Protect("EntityUID.UnmarshalCedar", short(src), func() { err = u.UnmarshalCedar(src) }) || err != nil {
			return false
		}
		useValue(t, "EntityUID.UnmarshalCedar", short(src), u)
		return true
	}},
}

var schemaTextEntries = []entry{
	{"Schema.UnmarshalCedar", func(t *core.T, src []byte) bool {
		var s schema.Schema
		var err error
		if t.Protect("Schema.UnmarshalCedar", short(src), func() { err = s.UnmarshalCedar(src) }) || err != nil {
			return false
		}
		useSchema(t, "Schema.UnmarshalCedar", short(src), &s)
		return true
	}},
}

var schemaJSONEntries = []entry{
	{"Schema.UnmarshalJSON", func(t *core.T, src []byte) bool {
		var s schema.Schema
		var err error
		if t.Protect("Schema.UnmarshalJSON", short(src), func() { err = s.UnmarshalJSON(src) }) || err != nil {
			return false
		}
		useSchema(t, "Schema.UnmarshalJSON", short(src), &s)
		return true
	}},
}

func runEntries(t *core.T, es []entry, src []byte) {
	acc := false
	for _, e := range es {
		if e.run(t, src) {
			acc = true
		}
	}
	if acc {
		t.Nontrivial()
	}
	t.AddStates(1)
	t.AddTrans(int64(len(es)))
}

// ---------------------------------------------------------------------------
// family 1: token strings

var policyTokens = []string{"permit", "forbid", "when", "unless", "principal", "context", "if", "then", "else", "in", "is", "has", "like", "true", "1", `"s"`, "U", "::", "(", ")", "[", "]", "{", "}", ",", ".", ";", "==", "<", "&&", "||", "!", "-", "+", "*", "@", ":", "ip", "isEmpty", "/*", "//", "9223372036854775808", `"\u{0}"`, `"*"`}

var schemaTokens = []string{"entity", "action", "type", "namespace", "in", "appliesTo", "principal", "resource", "context", "tags", "enum", "Set", "Long", "A", `"s"`, "{", "}", "[", "]", "<", ">", "(", ")", ":", ",", ";", "?", "=", "::", "@", "//", "é"}

func tokenFamily(name string, toks []string, maxLen int, heads, tails []string, es []entry) *core.Family {
	n := int64(0)
	p := int64(1)
	var sizes []int64
	for l := 0; l <= maxLen; l++ {
		sizes = append(sizes, p)
		n += p
		p *= int64(len(toks))
	}
	return &core.Family{
		Name: name,
		Desc: fmt.Sprintf("every sequence of <=%d tokens over a %d-token alphabet, in %d syntactic contexts (head/tail pairs)", maxLen, len(toks), len(heads)),
		N:    n,
		Run: func(t *core.T, i int64) {
			l := 0
			for i >= sizes[l] {
				i -= sizes[l]
				l++
			}
			var parts []string
			for j := 0; j < l; j++ {
				parts = append(parts, toks[i%int64(len(toks))])
				i /= int64(len(toks))
			}
			body := strings.Join(parts, " ")
			for h := range heads {
				runEntries(t, es, []byte(heads[h]+body+tails[h]))
			}
			t.Sample(heads[0] + body + tails[0])
		},
	}
}

func byteFamily() *core.Family {
	bs := []byte("{}[]\":,\\-0e.t@(/*\n\xff\x00 ")
	n := int64(1)
	for i := 0; i < 3; i++ {
		n *= int64(len(bs))
	}
	all := [][]entry{textPolicyEntries, jsonPolicyEntries, jsonPolicySetEntries, jsonValueEntries, uidTextEntries, schemaTextEntries, schemaJSONEntries}
	return &core.Family{
		Name: "byte-strings-le3",
		Desc: fmt.Sprintf("every byte string of length 3 (and its prefixes) over %d structural bytes, into every decoder", len(bs)),
		N:    n,
		Run: func(t *core.T, i int64) {
			b := []byte{bs[i%int64(len(bs))], bs[i/int64(len(bs))%int64(len(bs))], bs[i/int64(len(bs)*len(bs))]}
			for l := 0; l <= 3; l++ {
				if l < 3 && i/pow(len(bs), l) != 0 && l > 0 {
					// prefixes are covered when the remaining digits are zero
				}
				for _, es := range all {
					runEntries(t, es, b[:l])
				}
			}
			t.Sample(fmt.Sprintf("%q", b))
		},
	}
}

// every Unicode scalar value through the decoders and then through every encoder: the
// escaping routines are table-driven (printability classes), so a wrong table entry
// shows only for the code points of one block. 256 scalars per case, 16 per literal, in
// a string value, an entity id, a record key, a pattern, a policy string literal, an
// annotation value and an entity map of two entities (whose encoder sorts by UID text).
func unicodeEncoders() *core.Family {
	const block = 256
	n := int64(0x110000 / block)
	return &core.Family{
		Name: "unicode-through-encoders",
		Desc: "every Unicode scalar value U+0000..U+10FFFF (256 per case, 16 per literal) as JSON string / entity id / record key / pattern literal / policy string literal / annotation value: decoded by the JSON decoders, then passed through every encoder and the authorizer",
		N:    n,
		Run: func(t *core.T, i int64) {
			var chunks []string
			var cur []rune
			for r := rune(i * block); r < rune((i+1)*block); r++ {
				if !utf8.ValidRune(r) {
					continue
				}
				cur = append(cur, r)
				if len(cur) == 16 {
					chunks = append(chunks, string(cur))
					cur = nil
				}
			}
			if len(cur) > 0 {
				chunks = append(chunks, string(cur))
			}
			for _, c := range chunks {
				q, _ := json.Marshal(c)
				qs := string(q)
				runEntries(t, jsonValueEntries[:1], []byte(qs))
				runEntries(t, jsonValueEntries[:1], []byte(`{"k":`+qs+`,`+qs+`:1,"e":{"__entity":{"type":"U","id":`+qs+`}},"s":[`+qs+`,"x"]}`))
				runEntries(t, jsonValueEntries, []byte(`[{"uid":{"type":"U","id":`+qs+`},"parents":[{"type":"G","id":`+qs+`}],"attrs":{`+qs+`:`+qs+`},"tags":{`+qs+`:1}},{"uid":{"type":"G","id":`+qs+`},"parents":[],"attrs":{},"tags":{}}]`))
				runEntries(t, jsonValueEntries, []byte(`[{"Literal":`+qs+`},"Wildcard"]`))
				runEntries(t, jsonPolicyEntries, []byte(`{"effect":"permit","annotations":{"a":`+qs+`},"principal":{"op":"==","entity":{"type":"U","id":`+qs+`}},"action":{"op":"All"},"resource":{"op":"All"},"conditions":[{"kind":"when","body":{"==":{"left":{"Value":`+qs+`},"right":{"like":{"left":{".":{"left":{"Var":"context"},"attr":`+qs+`}},"pattern":[{"Literal":`+qs+`},"Wildcard"]}}}}}]}`))
			}
			t.Sample(fmt.Sprintf("U+%04X..U+%04X", i*block, (i+1)*block-1))
		},
	}
}

func pow(b, e int) int64 {
	r := int64(1)
	for i := 0; i < e; i++ {
		r *= int64(b)
	}
	return r
}

// ---------------------------------------------------------------------------
// family 2: deviations from valid documents

type seed struct {
	name    string
	doc     string
	entries []entry
}

func policyJSONSeeds() []seed {
	lv := []*Expr{Var("principal"), L(Long(-1)), L(Str("s")), L(Entity("U", "a")), L(Decimal(1)), L(Datetime(0)), L(Set(Long(1), Str("x"))), L(Rec(KV{"k", Long(1)}))}
	var conds []xast.Node
	specs := append(append(append([]gen.OpSpec{}, gen.Unary...), gen.Binary...), gen.Ternary...)
	for si, s := range specs {
		args := make([]*Expr, s.Arity)
		for j := range args {
			args[j] = lv[(si+j)%len(lv)]
		}
		e := s.Build(args)
		if e.Op == OExt && ExtArity(e.Str) < 0 {
			continue
		}
		conds = append(conds, e.ToAST())
	}
	conds = append(conds, Like(Var("context"), PatElem{Lit: "a"}, PatElem{Wild: true}, PatElem{Lit: "\\*"}).ToAST(), RecLit([]string{"a", "b"}, []*Expr{lv[0], lv[1]}).ToAST(), SetLit().ToAST())
	var out []seed
	// several policies, each with a slice of the conditions, and every scope form
	heads := []func() *xast.Policy{
		func() *xast.Policy { return xast.Permit() },
		func() *xast.Policy {
			return xast.Forbid().PrincipalEq(types.NewEntityUID("U", "a")).ActionInSet(types.NewEntityUID("Action", "a"), types.NewEntityUID("Action", "b")).ResourceIsIn("R", types.NewEntityUID("G", "g"))
		},
		func() *xast.Policy {
			return xast.Permit().PrincipalIs("U").ActionIn(types.NewEntityUID("Action", "all")).ResourceIn(types.NewEntityUID("G", "g")).Annotate("id", "x").Annotate("k", "")
		},
	}
	per := 9
	for i := 0; i*per < len(conds); i++ {
		p := heads[i%len(heads)]()
		for j, c := range conds[i*per : min(len(conds), (i+1)*per)] {
			if j%3 == 2 {
				p.Unless(c)
			} else {
				p.When(c)
			}
		}
		b, err := (*publicast.Policy)(p).MarshalJSON()
		if err != nil {
			panic(err)
		}
		out = append(out, seed{fmt.Sprintf("policy-json-%d", i), string(b), jsonPolicyEntries})
	}
	return out
}

const schemaSeedText = `
@doc("x")
namespace NS {
  type T = { a: Long, b?: Set<String>, "c d": { e: Bool } };
  entity G;
  entity E enum ["x", "y"];
  @a("1") entity U in [G] { d: decimal, ip: ipaddr, e: G, t: T, r: { x?: datetime } } tags String;
  action view, "edit it" in [all] appliesTo { principal: [U], resource: [G, U], context: { ok: Bool, t?: T } };
  action all;
}
entity Top;
action top appliesTo { principal: Top, resource: Top };
`

func otherSeeds() []seed {
	var out []seed
	out = append(out, seed{"policyset-json", `{"staticPolicies":{"p1":{"effect":"permit","principal":{"op":"All"},"action":{"op":"All"},"resource":{"op":"All"},"conditions":[{"kind":"when","body":{"==":{"left":{".":{"left":{"Var":"context"},"attr":"a"}},"right":{"Value":1}}}}]},"p2":{"effect":"forbid","principal":{"op":"==","entity":{"type":"U","id":"a"}},"action":{"op":"in","entities":[{"type":"Action","id":"a"}]},"resource":{"op":"is","entity_type":"R","in":{"entity":{"type":"G","id":"g"}}},"annotations":{"id":"x"}}}}`, jsonPolicySetEntries})
	out = append(out, seed{"value-json", `{"s":[1,"x",true,{"__entity":{"type":"U","id":"a"}},{"__extn":{"fn":"decimal","arg":"1.5"}},{"__extn":{"fn":"ip","arg":"10.0.0.0/8"}},{"__extn":{"fn":"datetime","arg":"2024-01-01"}},{"__extn":{"fn":"duration","arg":"1h"}}],"r":{"k":{"n":[[]]}},"e":{"type":"U","id":"a"}}`, jsonValueEntries})
	out = append(out, seed{"extn-json", `{"__extn":{"fn":"decimal","arg":"1.5"}}`, jsonValueEntries})
	out = append(out, seed{"entityuid-json", `{"__entity":{"type":"U","id":"a"}}`, jsonValueEntries})
	out = append(out, seed{"pattern-json", `["Wildcard",{"Literal":"a"},"Wildcard",{"Literal":"*"}]`, jsonValueEntries})
	out = append(out, seed{"entity-json", `{"uid":{"type":"U","id":"alice"},"parents":[{"type":"G","id":"g1"},{"__entity":{"type":"G","id":"g2"}}],"attrs":{"a":1,"d":{"__extn":{"fn":"decimal","arg":"1.5"}},"r":{"s":[1,2]}},"tags":{"t":"x"}}`, jsonValueEntries})
	out = append(out, seed{"entitymap-json", `[{"uid":{"type":"U","id":"alice"},"parents":[{"type":"G","id":"g1"}],"attrs":{"a":1},"tags":{"a":true}},{"uid":{"type":"G","id":"g1"},"parents":[{"type":"G","id":"g2"}],"attrs":{},"tags":{}},{"uid":{"type":"G","id":"g2"},"parents":[],"attrs":{},"tags":{}}]`, jsonValueEntries})
	out = append(out, seed{"request-json", `{"principal":{"type":"U","id":"alice"},"action":{"type":"Action","id":"view"},"resource":{"__entity":{"type":"G","id":"g1"}},"context":{"a":1,"s":[{"__extn":{"fn":"ip","arg":"::1"}}]}}`, jsonValueEntries})
	out = append(out, seed{"diagnostic-json", `{"reasons":[{"policy":"p","position":{"filename":"f","offset":1,"line":2,"column":3}}],"errors":[{"policy":"q","position":{"filename":"","offset":0,"line":0,"column":0},"message":"m"}]}`, jsonValueEntries})
	var s schema.Schema
	if err := s.UnmarshalCedar([]byte(schemaSeedText)); err == nil {
		if b, err := s.MarshalJSON(); err == nil {
			out = append(out, seed{"schema-json", string(b), schemaJSONEntries})
		}
	}
	return out
}

func jsonDeviations(bound int) *core.Family {
	seeds := append(policyJSONSeeds(), otherSeeds()...)
	trees := make([]*jnode, len(seeds))
	offs := make([]int64, len(seeds)+1)
	for i, s := range seeds {
		trees[i] = parseJSON(s.doc)
		offs[i+1] = offs[i] + int64(trees[i].count()*devPerPos) + 1
	}
	return &core.Family{
		Name: fmt.Sprintf("json-deviations-%d", bound),
		Desc: fmt.Sprintf("%d valid JSON documents covering every policy node shape, scope form, policy set, value / entity / entity map / request / diagnostic / schema construct; every document at distance <=%d: at each tree position replace the sub-value by each of %d literals, delete it, duplicate it, wrap it in an array", len(seeds), bound, len(replacements)),
		N:    offs[len(seeds)],
		Run: func(t *core.T, i int64) {
			si := 0
			for i >= offs[si+1] {
				si++
			}
			k := i - offs[si]
			sd := seeds[si]
			if k == 0 {
				runEntries(t, sd.entries, []byte(sd.doc))
				if !t.Failed() {
					t.Sample(sd.name + " (seed)")
				}
				return
			}
			k--
			d1 := trees[si].deviate(int(k)/devPerPos, int(k)%devPerPos)
			if d1 == nil {
				return
			}
			runEntries(t, sd.entries, []byte(d1.String()))
			if bound >= 2 {
				// second deviation: every position / deviation of the once-deviated tree
				n2 := d1.count()
				for p := 0; p < n2; p++ {
					for d := 0; d < devPerPos; d++ {
						if d2 := d1.deviate(p, d); d2 != nil {
							runEntries(t, sd.entries, []byte(d2.String()))
						}
					}
				}
			}
			t.SampleF(func() string { return sd.name + ": " + short([]byte(d1.String())) })
		},
	}
}

// text deviations: delete / duplicate / swap one token, truncate at every byte, splice invalid UTF-8 lead bytes.
func textDeviations() *core.Family {
	type tseed struct {
		name string
		doc  string
		es   []entry
	}
	policyDoc := `@id("x") permit(principal == U::"a", action in [Action::"a", Action::"b"], resource is R in G::"g") when { context.a == 1 && principal has b.c && [1, "s"].contains(context.x) || -9223372036854775808 < 2 * -3 } unless { if context.s like "a*\*" then ip("10.0.0.1").isInRange(ip("10.0.0.0/8")) else {k: 1, "k 2": decimal("1.5")}.k == 1 };
forbid(principal, action, resource) when { principal.hasTag("t") && principal.getTag("t").isEmpty() };`
	seeds := []tseed{{"policy-text", policyDoc, textPolicyEntries}, {"schema-text", schemaSeedText, schemaTextEntries}, {"entityuid-text", `NS::T::"a\"b\u{1F600}"`, uidTextEntries}}
	type dev struct {
		s   int
		src string
	}
	var all []dev
	for si, sd := range seeds {
		toks := strings.Fields(sd.doc)
		for i := range toks {
			del := append(append([]string{}, toks[:i]...), toks[i+1:]...)
			all = append(all, dev{si, strings.Join(del, " ")})
			dup := append(append(append([]string{}, toks[:i+1]...), toks[i]), toks[i+1:]...)
			all = append(all, dev{si, strings.Join(dup, " ")})
			if i+1 < len(toks) {
				sw := append([]string{}, toks...)
				sw[i], sw[i+1] = sw[i+1], sw[i]
				all = append(all, dev{si, strings.Join(sw, " ")})
			}
		}
		for i := 0; i <= len(sd.doc); i++ {
			all = append(all, dev{si, sd.doc[:i]})
			for _, b := range []string{"\xc3", "\xe2\x9c", "\xf0\x9f\x98", "\xff", "\x00", "\"", "/*", "\\"} {
				all = append(all, dev{si, sd.doc[:i] + b + sd.doc[i:]})
			}
		}
	}
	return &core.Family{
		Name: "text-deviations",
		Desc: fmt.Sprintf("3 valid text documents (policy, schema, entity uid): delete / duplicate / swap each token, truncate at every byte offset, splice an invalid UTF-8 lead byte, NUL, quote, comment opener or backslash at every offset (%d documents)", len(all)),
		N:    int64(len(all)),
		Run: func(t *core.T, i int64) {
			d := all[i]
			runEntries(t, seeds[d.s].es, []byte(d.src))
			t.SampleF(func() string { return short([]byte(d.src)) })
		},
	}
}

// ---------------------------------------------------------------------------
// family 3: depth sweep (isolated: a stack overflow is fatal)

type nest struct {
	name string
	mk   func(depth int) []byte
	es   []entry
}

func rep(s string, n int) string { return strings.Repeat(s, n) }

var nests = []nest{
	{"policy-parens", func(d int) []byte {
		return []byte("permit(principal,action,resource) when { " + rep("(", d) + "true" + rep(")", d) + " };")
	}, textPolicyEntries[:1]},
	{"policy-unary-not", func(d int) []byte {
		return []byte("permit(principal,action,resource) when { " + rep("!", d) + "true };")
	}, textPolicyEntries[:1]},
	{"policy-unary-minus", func(d int) []byte {
		return []byte("permit(principal,action,resource) when { " + rep("-", d) + "1 == 1 };")
	}, textPolicyEntries[:1]},
	{"policy-sets", func(d int) []byte {
		return []byte("permit(principal,action,resource) when { " + rep("[", d) + rep("]", d) + ".isEmpty() };")
	}, textPolicyEntries[:1]},
	{"policy-records", func(d int) []byte {
		return []byte("permit(principal,action,resource) when { " + rep("{a:", d) + "1" + rep("}", d) + " == 1 };")
	}, textPolicyEntries[:1]},
	{"policy-member-chain", func(d int) []byte {
		return []byte("permit(principal,action,resource) when { context" + rep(".a", d) + " };")
	}, textPolicyEntries[:1]},
	{"policy-if", func(d int) []byte {
		return []byte("permit(principal,action,resource) when { " + rep("if true then true else ", d) + "true };")
	}, textPolicyEntries[:1]},
	{"policy-and-chain", func(d int) []byte {
		return []byte("permit(principal,action,resource) when { true" + rep(" && true", d) + " };")
	}, textPolicyEntries[:1]},
	{"policy-add-chain", func(d int) []byte {
		return []byte("permit(principal,action,resource) when { 0" + rep(" + 0", d) + " == 0 };")
	}, textPolicyEntries[:1]},
	{"policy-many-policies", func(d int) []byte { return []byte(rep("permit(principal,action,resource);", d)) }, textPolicyEntries[1:]},
	{"json-policy-not", func(d int) []byte {
		return []byte(`{"effect":"permit","principal":{"op":"All"},"action":{"op":"All"},"resource":{"op":"All"},"conditions":[{"kind":"when","body":` + rep(`{"!":{"arg":`, d) + `{"Value":true}` + rep(`}}`, d) + `}]}`)
	}, jsonPolicyEntries[:1]},
	{"json-policy-set-node", func(d int) []byte {
		return []byte(`{"effect":"permit","principal":{"op":"All"},"action":{"op":"All"},"resource":{"op":"All"},"conditions":[{"kind":"when","body":` + rep(`{"Set":[`, d) + rep(`]}`, d) + `}]}`)
	}, jsonPolicyEntries[:1]},
	{"json-value-arrays", func(d int) []byte { return []byte(rep("[", d) + rep("]", d)) }, jsonValueEntries[:1]},
	{"json-value-records", func(d int) []byte { return []byte(rep(`{"a":`, d) + "1" + rep("}", d)) }, jsonValueEntries[:1]},
	{"json-entity-attr-arrays", func(d int) []byte {
		return []byte(`{"uid":{"type":"U","id":"a"},"parents":[],"attrs":{"a":` + rep("[", d) + rep("]", d) + `},"tags":{}}`)
	}, jsonValueEntries[9:10]},
	{"schema-text-sets", func(d int) []byte { return []byte("entity E { a: " + rep("Set<", d) + "Long" + rep(">", d) + " };") }, schemaTextEntries},
	{"schema-text-records", func(d int) []byte { return []byte("entity E { a: " + rep("{ a: ", d) + "Long" + rep(" }", d) + " };") }, schemaTextEntries},
	{"schema-json-sets", func(d int) []byte {
		return []byte(`{"":{"entityTypes":{"E":{"shape":{"type":"Record","attributes":{"a":` + rep(`{"type":"Set","element":`, d) + `{"type":"Long"}` + rep(`}`, d) + `}}}},"actions":{}}}`)
	}, schemaJSONEntries},
}

func lightDecode(t *core.T, name string, src []byte) {
	in := fmt.Sprintf("%s (%d bytes)", name, len(src))
	switch {
	case strings.HasPrefix(name, "policy-many"):
		var l cedar.PolicyList
		var err error
		if t.Protect("deep:NewPolicyListFromBytes", in, func() { l, err = cedar.NewPolicyListFromBytes("f", src) }) || err != nil {
			return
		}
		t.Protect("deep:PolicyList.MarshalCedar", in, func() { _ = l.MarshalCedar() })
	case strings.HasPrefix(name, "policy-"):
		var p cedar.Policy
		var err error
		if t.Protect("deep:Policy.UnmarshalCedar", in, func() { err = p.UnmarshalCedar(src) }) || err != nil {
			return
		}
		t.Protect("deep:Policy.MarshalCedar", in, func() { _ = p.MarshalCedar() })
		t.Protect("deep:Policy.MarshalJSON", in, func() { _, _ = p.MarshalJSON() })
		ps := cedar.NewPolicySet()
		ps.Add("p", &p)
		t.Protect("deep:Authorize", in, func() { _, _ = cedar.Authorize(ps, ents, req) })
	case strings.HasPrefix(name, "json-policy"):
		var p cedar.Policy
		var err error
		if t.Protect("deep:Policy.UnmarshalJSON", in, func() { err = p.UnmarshalJSON(src) }) || err != nil {
			return
		}
		t.Protect("deep:Policy.MarshalCedar", in, func() { _ = p.MarshalCedar() })
		t.Protect("deep:Policy.MarshalJSON", in, func() { _, _ = p.MarshalJSON() })
	case strings.HasPrefix(name, "json-entity"):
		var e types.Entity
		var err error
		if t.Protect("deep:Entity.UnmarshalJSON", in, func() { err = json.Unmarshal(src, &e) }) || err != nil {
			return
		}
		t.Protect("deep:Entity.MarshalJSON", in, func() { _, _ = json.Marshal(e) })
	case strings.HasPrefix(name, "json-value"):
		var v types.Value
		var err error
		if t.Protect("deep:types.UnmarshalJSON", in, func() { err = types.UnmarshalJSON(src, &v) }) || err != nil {
			return
		}
		t.Protect("deep:Value.Equal", in, func() { _ = v.Equal(v) })
		t.Protect("deep:Value.MarshalCedar", in, func() { _ = v.MarshalCedar(); _ = v.String() })
		t.Protect("deep:Value.MarshalJSON", in, func() { _, _ = json.Marshal(v) })
	case strings.HasPrefix(name, "schema-text"):
		var s schema.Schema
		var err error
		if t.Protect("deep:Schema.UnmarshalCedar", in, func() { err = s.UnmarshalCedar(src) }) || err != nil {
			return
		}
		t.Protect("deep:Schema.Resolve", in, func() { _, _ = s.Resolve() })
		t.Protect("deep:Schema.MarshalCedar", in, func() { _, _ = s.MarshalCedar() })
		t.Protect("deep:Schema.MarshalJSON", in, func() { _, _ = s.MarshalJSON() })
	case strings.HasPrefix(name, "schema-json"):
		var s schema.Schema
		var err error
		if t.Protect("deep:Schema.UnmarshalJSON", in, func() { err = s.UnmarshalJSON(src) }) || err != nil {
			return
		}
		t.Protect("deep:Schema.Resolve", in, func() { _, _ = s.Resolve() })
		t.Protect("deep:Schema.MarshalCedar", in, func() { _, _ = s.MarshalCedar() })
		t.Protect("deep:Schema.MarshalJSON", in, func() { _, _ = s.MarshalJSON() })
	}
}

func depthSweep(maxK int) *core.Family {
	perNest := maxK + 1
	return &core.Family{
		Name:       "depth-sweep",
		HangAfter:  -1, // cases legitimately take seconds at depth 2^22
		Desc:       fmt.Sprintf("nesting depth 2^k, k = 0..%d, for %d recursive constructs (parentheses, unary stacks, sets, records, member chains, if, operator chains, JSON nodes, JSON values, Set<Set<..>> in schema text and JSON), each in its own worker process", maxK, len(nests)),
		N:          int64(len(nests) * perNest),
		Isolated:   true,
		CrashClass: func(i int64) string { return nests[int(i)/perNest].name },
		Run: func(t *core.T, i int64) {
			n := nests[int(i)/perNest]
			k := int(i) % perNest
			src := n.mk(1 << k)
			t.Sample(fmt.Sprintf("%s depth 2^%d (%d bytes)", n.name, k, len(src)))
			// decoder + one text and one JSON encoder; a value nested 2^20 deep is not run through the
			// whole battery (the encoders copy the nested text at every level, which is quadratic)
			lightDecode(t, n.name, src)
			t.Nontrivial()
		},
	}
}

// (4) amplification sweep: small inputs (a few hundred bytes to a few kilobytes) shaped so
// that an algorithm which is not linear or quadratic in the input does exponentially or
// cubically more work on them: patterns with many wildcards over subjects with many partial
// matches, wide sets of equal and of distinct members, wide records, long `has` paths,
// ladders in the action and entity hierarchies of a schema (2^n paths). Each case runs in an
// isolated worker; on the unchanged tree every case takes milliseconds, and a case that does
// not return within HangAfter is re-run alone before it is reported (core stall detector).
type widthCase struct {
	name string
	mk   func(n int) []byte
}

var widths = []widthCase{
	{"policy-like-many-wildcards-near-misses", func(n int) []byte {
		return []byte(`permit(principal,action,resource) when { "` + rep("xa", 2*n) + `" like "` + rep("*a", n) + `*b" };`)
	}},
	{"policy-like-many-wildcards-all-same-letter", func(n int) []byte {
		return []byte(`permit(principal,action,resource) when { "` + rep("a", 3*n) + `" like "` + rep("a*", n) + `b" || context.b like "` + rep("*a", n) + `b*" };`)
	}},
	{"policy-like-context-subject", func(n int) []byte {
		return []byte(`permit(principal,action,resource) when { context.subject like "` + rep("*a", n) + `*b" };`)
	}},
	{"json-policy-like-many-wildcards", func(n int) []byte {
		pat := rep(`"Wildcard",{"Literal":"a"},`, n) + `"Wildcard",{"Literal":"b"}`
		return []byte(`{"effect":"permit","principal":{"op":"All"},"action":{"op":"All"},"resource":{"op":"All"},"conditions":[{"kind":"when","body":{"like":{"left":{"Value":"` + rep("xa", 2*n) + `"},"pattern":[` + pat + `]}}}]}`)
	}},
	{"policy-wide-set-of-equal-members", func(n int) []byte {
		return []byte(`permit(principal,action,resource) when { [` + rep(`[1,"a"],`, 8*n) + `[1,"a"]].containsAll([` + rep(`[1,"a"],`, 8*n) + `[2]]) };`)
	}},
	{"policy-wide-record", func(n int) []byte {
		var sb strings.Builder
		for i := 0; i < 8*n; i++ {
			fmt.Fprintf(&sb, "k%d: %d, ", i, i)
		}
		return []byte(`permit(principal,action,resource) when { {` + sb.String() + `z: 0} == {` + sb.String() + `z: 1} };`)
	}},
	{"policy-long-has-path", func(n int) []byte {
		// (n components, not more: the parser expands the path into n nested && nodes of growing
		// size, and Policy.MarshalJSON re-encodes every child at every level — polynomial, about
		// n^3.5: 3 s at 256 components, 5 min at 1024; slow, but not a hang)
		return []byte(`permit(principal,action,resource) when { context has a` + rep(".a", n) + ` };`)
	}},
	{"schema-text-action-ladder", func(n int) []byte {
		var sb strings.Builder
		sb.WriteString("entity U; action l0, r0 appliesTo { principal: U, resource: U };\n")
		for i := 1; i < n; i++ {
			fmt.Fprintf(&sb, "action l%d, r%d in [l%d, r%d];\n", i, i, i-1, i-1)
		}
		return []byte(sb.String())
	}},
	{"schema-text-entity-ladder", func(n int) []byte {
		var sb strings.Builder
		sb.WriteString("entity L0, R0;\n")
		for i := 1; i < n; i++ {
			fmt.Fprintf(&sb, "entity L%d, R%d in [L%d, R%d];\n", i, i, i-1, i-1)
		}
		fmt.Fprintf(&sb, "action a appliesTo { principal: L%d, resource: R%d };\n", n-1, n-1)
		return []byte(sb.String())
	}},
	{"schema-text-common-type-chain", func(n int) []byte {
		var sb strings.Builder
		sb.WriteString("type T0 = Long;\n")
		for i := 1; i < 4*n; i++ {
			fmt.Fprintf(&sb, "type T%d = Set<T%d>;\n", i, i-1)
		}
		fmt.Fprintf(&sb, "entity E { a: T%d };\n", 4*n-1)
		return []byte(sb.String())
	}},
}

func widthSweep(tier string) *core.Family {
	sizes := []int{4, 8, 12, 16, 20, 24, 28, 32, 40, 48, 64}
	if tier == "thorough" {
		sizes = append(sizes, 96, 128, 256)
	}
	wreq := req
	return &core.Family{
		Name:       "amplification-sweep",
		HangAfter:  30 * time.Second,
		Desc:       fmt.Sprintf("%d shapes that amplify the work of a non-polynomial algorithm (like patterns with n wildcards over subjects with 2n near misses, in text, in JSON and against a request value; wide sets of equal members; wide records; long has paths; action and entity ladders with 2^n paths; common-type chains) at n = %v, each decoded, re-encoded, resolved / authorized in an isolated worker; a case that does not return within 30 s is re-run alone and reported as a hang", len(widths), sizes),
		N:          int64(len(widths) * len(sizes)),
		Isolated:   true,
		CrashClass: func(i int64) string { return widths[int(i)/len(sizes)].name },
		Run: func(t *core.T, i int64) {
			w := widths[int(i)/len(sizes)]
			n := sizes[int(i)%len(sizes)]
			src := w.mk(n)
			t.Sample(fmt.Sprintf("%s n=%d (%d bytes)", w.name, n, len(src)))
			if strings.Contains(w.name, "context-subject") {
				// the subject comes from the request
				var p cedar.Policy
				if err := p.UnmarshalCedar(src); err != nil {
					t.Fail("harness-amplification-doc", string(src), "parses", err.Error())
					return
				}
				ps := cedar.NewPolicySet()
				ps.Add("p", &p)
				r := wreq
				r.Context = types.NewRecord(types.RecordMap{"subject": types.String(rep("xa", 2*n)), "b": types.String(rep("a", 3*n))})
				t.Protect("amplification:Authorize", string(src), func() { _, _ = cedar.Authorize(ps, ents, r) })
			}
			lightDecode(t, w.name, src)
			t.Nontrivial()
		},
	}
}

// (5) extension literals with every field at and around its bounds: the templates of the four
// literal syntaxes with each numeric field (and each pair of fields) replaced by values at,
// below and above its range, through the parsers, the value decoders, policy text (the
// constant is folded while the policy is decoded), policy JSON and the authorizer.
func literalFields() *core.Family {
	type tmpl struct {
		fn     string
		parts  []string // literal text between the fields
		fields []string // default field values
	}
	tmpls := []tmpl{
		{"datetime", []string{"", "-", "-", ""}, []string{"2024", "02", "28"}},
		{"datetime", []string{"", "-", "-", "T", ":", ":", "Z"}, []string{"2024", "02", "28", "10", "30", "45"}},
		{"datetime", []string{"", "-", "-", "T", ":", ":", ".", "Z"}, []string{"2024", "02", "28", "10", "30", "45", "123"}},
		{"datetime", []string{"", "-", "-", "T", ":", ":", "+", ""}, []string{"2024", "02", "28", "10", "30", "45", "0530"}},
		{"datetime", []string{"", "-", "-", "T", ":", ":", ".", "-", ""}, []string{"2024", "02", "28", "10", "30", "45", "123", "0800"}},
		{"duration", []string{"", "d", "h", "m", "s", "ms"}, []string{"1", "2", "3", "4", "5"}},
		{"decimal", []string{"", ".", ""}, []string{"12", "34"}},
		{"ip", []string{"", ".", ".", ".", "/", ""}, []string{"10", "0", "0", "1", "8"}},
		{"ip", []string{"", ":", ":", "::", "/", ""}, []string{"2001", "db8", "1", "1", "64"}},
	}
	vals := []string{"", "0", "00", "000", "0000", "1", "01", "9", "12", "13", "24", "28", "29", "30", "31", "32", "59", "60", "61", "99", "100", "128", "129", "255", "256", "999", "1000", "2359", "2400", "9999", "10000", "99999", "-1", "+1", "ffff", "10000000000000000000"}
	type cs struct {
		t      int
		f1, f2 int // f2 = -1: one field only
		v1, v2 int
	}
	var cases []cs
	for ti, tp := range tmpls {
		for f1 := range tp.fields {
			for v1 := range vals {
				cases = append(cases, cs{ti, f1, -1, v1, 0})
			}
			for f2 := f1 + 1; f2 < len(tp.fields); f2++ {
				for _, v1 := range []int{1, 2, 4, 9, 13, 15, 17, 19, 20} { // a boundary subset for pairs
					for _, v2 := range []int{1, 2, 4, 9, 13, 15, 17, 19, 20} {
						cases = append(cases, cs{ti, f1, f2, v1, v2})
					}
				}
			}
		}
	}
	const chunk = 16
	n := (len(cases) + chunk - 1) / chunk
	return &core.Family{
		Name: "extension-literal-fields",
		Desc: fmt.Sprintf("%d literals: 9 templates of datetime / duration / decimal / ip syntax with each field replaced by each of %d values at, below and above its range (empty, 0, 00, 13, 32, 60, 61, 256, 10000, signs, hex, 20 digits) and each pair of fields by a boundary subset: ParseX, the typed and untyped value decoders, policy text and JSON (folded while decoding), the authorizer on a request value", len(cases), len(vals)),
		N:    int64(n),
		Run: func(t *core.T, i int64) {
			for k := int(i) * chunk; k < (int(i)+1)*chunk && k < len(cases); k++ {
				c := cases[k]
				tp := tmpls[c.t]
				f := append([]string{}, tp.fields...)
				f[c.f1] = vals[c.v1]
				if c.f2 >= 0 {
					f[c.f2] = vals[c.v2]
				}
				var sb strings.Builder
				for j, p := range tp.parts {
					sb.WriteString(p)
					if j < len(f) {
						sb.WriteString(f[j])
					}
				}
				lit := sb.String()
				in := tp.fn + "(" + strconv.Quote(lit) + ")"
				t.Protect("literal:Parse", in, func() {
					switch tp.fn {
					case "datetime":
						if v, err := types.ParseDatetime(lit); err == nil {
							_ = v.String()
						}
					case "duration":
						if v, err := types.ParseDuration(lit); err == nil {
							_ = v.String()
						}
					case "decimal":
						if v, err := types.ParseDecimal(lit); err == nil {
							_ = v.String()
						}
					default:
						if v, err := types.ParseIPAddr(lit); err == nil {
							_ = v.String()
						}
					}
				})
				q, _ := json.Marshal(lit)
				runEntries(t, jsonValueEntries, []byte(`{"__extn":{"fn":"`+tp.fn+`","arg":`+string(q)+`}}`))
				runEntries(t, jsonValueEntries, []byte(`{"a":[{"__extn":{"fn":"`+tp.fn+`","arg":`+string(q)+`}}]}`))
				runEntries(t, textPolicyEntries[:1], []byte(`permit(principal,action,resource) when { `+tp.fn+`("`+lit+`") == `+tp.fn+`("`+lit+`") };`))
				runEntries(t, jsonPolicyEntries[:1], []byte(`{"effect":"permit","principal":{"op":"All"},"action":{"op":"All"},"resource":{"op":"All"},"conditions":[{"kind":"when","body":{"==":{"left":{"`+tp.fn+`":[{"Value":`+string(q)+`}]},"right":{"Value":1}}}}]}`))
				// the literal arrives in the request
				var p cedar.Policy
				if err := p.UnmarshalCedar([]byte(`permit(principal,action,resource) when { ` + tp.fn + `(context.lit) == ` + tp.fn + `(context.lit) };`)); err == nil {
					ps := cedar.NewPolicySet()
					ps.Add("p", &p)
					r := req
					r.Context = types.NewRecord(types.RecordMap{"lit": types.String(lit)})
					t.Protect("literal:Authorize", in, func() { _, _ = cedar.Authorize(ps, ents, r) })
				}
			}
			t.Sample(fmt.Sprintf("cases %d..%d", int(i)*chunk, (int(i)+1)*chunk-1))
		},
	}
}

func Check() *core.Check {
	return &core.Check{
		ID:        "C10",
		HangAfter: 60 * time.Second, // cases take milliseconds (see max_case_s in the evidence)
		Title:     "Decoders and encoders are total: no panic, crash or hang on any input",
		Rule: "three bounded-exhaustive families, no random fuzzing: (1) every token sequence up to the stated length over the token alphabets of the policy and schema languages, in several syntactic contexts, and every 3-byte string over structural bytes into every decoder; (2) every document within the stated number of deviations (replace / delete / duplicate / wrap at every JSON tree position; token and byte edits of text) from valid seed documents covering every construct; (3) nesting depth 2^k for every recursive construct, in isolated worker processes; oracle: the decoder returns, no panic, no fatal error, and every accepted value passes through every encoder and the authorizers without a panic; " +
			"a case is non-trivial if at least one decoder accepted the input (so the encoders and authorizers ran on it)",
		Assumptions: []string{"`all byte strings` beyond these bounded families are not covered", "a fatal error is only reported if it recurs 3 times in a fresh process with the default stack limit"},
		Families: func(tier string) []*core.Family {
			heads := []string{"permit(principal,action,resource) when { ", "permit(principal,action,resource) when { context.a ", "", "permit(principal, action, resource) when { true }; @a(\"b\") forbid("}
			tails := []string{" };", " };", "", ""}
			sheads := []string{"", "namespace N { entity E ", "entity E { a: "}
			stails := []string{"", " }", " };"}
			if tier == "thorough" {
				return []*core.Family{byteFamily(), tokenFamily("policy-token-strings", policyTokens, 4, heads, tails, textPolicyEntries[:2]), tokenFamily("schema-token-strings", schemaTokens, 4, sheads, stails, schemaTextEntries),
					jsonDeviations(2), textDeviations(), unicodeEncoders(), literalFields(), widthSweep(tier), depthSweep(22)}
			}
			return []*core.Family{byteFamily(), tokenFamily("policy-token-strings", policyTokens, 3, heads, tails, textPolicyEntries[:2]), tokenFamily("schema-token-strings", schemaTokens, 3, sheads, stails, schemaTextEntries),
				jsonDeviations(1), textDeviations(), unicodeEncoders(), literalFields(), widthSweep(tier), depthSweep(12)}
		},
	}
}
