package c10

import (
	"bytes"
	"encoding/json"
	"strings"
)

// A minimal order-preserving JSON tree for the deviation enumerator.
type jnode struct {
	kind byte // 'o' object, 'a' array, 's' scalar (raw text)
	raw  string
	keys []string
	kids []*jnode
}

func parseJSON(src string) *jnode {
	dec := json.NewDecoder(strings.NewReader(src))
	dec.UseNumber()
	n, err := readNode(dec)
	if err != nil {
		panic("harness: bad seed JSON: " + err.Error() + ": " + src)
	}
	return n
}

func readNode(dec *json.Decoder) (*jnode, error) {
	tok, err := dec.Token()
	if err != nil {
		return nil, err
	}
	switch t := tok.(type) {
	case json.Delim:
		if t == '{' {
			n := &jnode{kind: 'o'}
			for dec.More() {
				kt, err := dec.Token()
				if err != nil {
					return nil, err
				}
				kid, err := readNode(dec)
				if err != nil {
					return nil, err
				}
				n.keys = append(n.keys, kt.(string))
				n.kids = append(n.kids, kid)
			}
			_, err := dec.Token()
			return n, err
		}
		n := &jnode{kind: 'a'}
		for dec.More() {
			kid, err := readNode(dec)
			if err != nil {
				return nil, err
			}
			n.kids = append(n.kids, kid)
		}
		_, err := dec.Token()
		return n, err
	default:
		b, _ := json.Marshal(tok)
		if num, ok := tok.(json.Number); ok {
			b = []byte(num.String())
		}
		return &jnode{kind: 's', raw: string(b)}, nil
	}
}

func (n *jnode) render(sb *bytes.Buffer) {
	switch n.kind {
	case 's':
		sb.WriteString(n.raw)
	case 'a':
		sb.WriteByte('[')
		for i, k := range n.kids {
			if i > 0 {
				sb.WriteByte(',')
			}
			k.render(sb)
		}
		sb.WriteByte(']')
	case 'o':
		sb.WriteByte('{')
		for i, k := range n.kids {
			if i > 0 {
				sb.WriteByte(',')
			}
			kb, _ := json.Marshal(n.keys[i])
			sb.Write(kb)
			sb.WriteByte(':')
			k.render(sb)
		}
		sb.WriteByte('}')
	}
}

func (n *jnode) String() string {
	var sb bytes.Buffer
	n.render(&sb)
	return sb.String()
}

func (n *jnode) clone() *jnode {
	c := &jnode{kind: n.kind, raw: n.raw, keys: append([]string{}, n.keys...)}
	for _, k := range n.kids {
		c.kids = append(c.kids, k.clone())
	}
	return c
}

// count returns the number of nodes (positions) in the tree.
func (n *jnode) count() int {
	c := 1
	for _, k := range n.kids {
		c += k.count()
	}
	return c
}

var replacements = []string{"null", "[]", "{}", `""`, "0", "true", `"s"`, `[null]`, `-1`, `{"a":null}`}

// nDeviations at one position: len(replacements) replacements + delete + duplicate (+ wrap in array)
const devPerPos = 13

// deviate returns a copy of the tree with deviation d applied at position p (pre-order), or nil if not applicable.
func (n *jnode) deviate(p, d int) *jnode {
	root := n.clone()
	idx := 0
	var apply func(parent *jnode, slot int, cur *jnode) bool
	apply = func(parent *jnode, slot int, cur *jnode) bool {
		if idx == p {
			switch {
			case d < len(replacements):
				repl := &jnode{kind: 's', raw: replacements[d]}
				if parent == nil {
					*root = *repl
				} else {
					parent.kids[slot] = repl
				}
			case d == len(replacements): // delete
				if parent == nil {
					return false
				}
				parent.kids = append(parent.kids[:slot], parent.kids[slot+1:]...)
				if parent.kind == 'o' {
					parent.keys = append(parent.keys[:slot], parent.keys[slot+1:]...)
				}
			case d == len(replacements)+1: // duplicate
				if parent == nil {
					return false
				}
				parent.kids = append(parent.kids, cur.clone())
				if parent.kind == 'o' {
					parent.keys = append(parent.keys, parent.keys[slot])
				}
			default: // wrap in an array
				w := &jnode{kind: 'a', kids: []*jnode{cur}}
				if parent == nil {
					c := *cur
					*root = jnode{kind: 'a', kids: []*jnode{&c}}
				} else {
					parent.kids[slot] = w
				}
			}
			idx++
			return true
		}
		idx++
		for i, k := range cur.kids {
			if idx > p {
				break
			}
			if apply(cur, i, k) {
				return true
			}
		}
		return false
	}
	if !apply(nil, 0, root) {
		return nil
	}
	return root
}
