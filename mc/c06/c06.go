// Package c06: partial evaluation is sound for every completion of the unknowns (E1).
package c06

import (
	"fmt"
	"reflect"
	"strings"
	"time"

	"github.com/cedar-policy/cedar-go/types"
	"github.com/cedar-policy/cedar-go/verif/core"
	"github.com/cedar-policy/cedar-go/verif/gen"
	. "github.com/cedar-policy/cedar-go/verif/refsem"
	xast "github.com/cedar-policy/cedar-go/x/exp/ast"
	"github.com/cedar-policy/cedar-go/x/exp/batch"
	"github.com/cedar-policy/cedar-go/x/exp/eval"
)

var store = gen.Stores()[1].ToImpl()

func ent(t, id string) types.EntityUID {
	return types.NewEntityUID(types.EntityType(t), types.String(id))
}
func rec(kv ...any) types.Record {
	m := types.RecordMap{}
	for i := 0; i < len(kv); i += 2 {
		m[types.String(kv[i].(string))] = kv[i+1].(types.Value)
	}
	return types.NewRecord(m)
}
func set(v ...types.Value) types.Set { return types.NewSet(v...) }
func variable(n string) types.Value  { return eval.Variable(types.String(n)) }

var ignore = batch.Ignore()

var knownCtx = rec("a", types.Long(1), "r", rec("b", types.Long(1)), "s", set(types.Long(1), types.Long(2)))

// A partial environment: the four request parts (with unknowns / ignores inside)
// and, per unknown name, the universe its completions are drawn from.
type penv struct {
	name       string
	p, a, r, c types.Value
	vars       []string // variable names occurring
	ignores    []string // ignored slots: "principal","action","resource","context","context.a"
}

var (
	uniP    = []types.Value{ent("U", "alice"), ent("U", "bob"), ent("U", "ghost")}
	uniA    = []types.Value{ent("Action", "view"), ent("Action", "edit")}
	uniR    = []types.Value{ent("G", "g1"), ent("U", "bob"), ent("G", "g2")}
	uniLeaf = []types.Value{types.Long(1), types.Long(2), types.String("s"), types.True, types.False, ent("U", "alice"), set(types.Long(1))}
	uniCtx  = []types.Value{knownCtx, rec(), rec("a", types.Long(2), "r", rec("b", types.String("s")), "s", set()), rec("a", types.String("s"))}
)

func universe(name string) []types.Value {
	switch name {
	case "p", "principal":
		return uniP
	case "act", "action":
		return uniA
	case "res", "resource":
		return uniR
	case "ctx", "context":
		return uniCtx
	}
	return uniLeaf
}

var P, A, R = ent("U", "alice"), ent("Action", "view"), ent("G", "g1")

var penvs = []penv{
	{name: "all-known", p: P, a: A, r: R, c: knownCtx},
	{name: "principal=?", p: variable("p"), a: A, r: R, c: knownCtx, vars: []string{"p"}},
	{name: "action=?", p: P, a: variable("act"), r: R, c: knownCtx, vars: []string{"act"}},
	{name: "resource=?", p: P, a: A, r: variable("res"), c: knownCtx, vars: []string{"res"}},
	{name: "context=?", p: P, a: A, r: R, c: variable("ctx"), vars: []string{"ctx"}},
	{name: "context.a=?", p: P, a: A, r: R, c: rec("a", variable("x"), "r", rec("b", types.Long(1)), "s", set(types.Long(1), types.Long(2))), vars: []string{"x"}},
	{name: "context.r.b=?", p: P, a: A, r: R, c: rec("a", types.Long(1), "r", rec("b", variable("x")), "s", set(types.Long(1), types.Long(2))), vars: []string{"x"}},
	{name: "context.s=[?,2]", p: P, a: A, r: R, c: rec("a", types.Long(1), "r", rec("b", types.Long(1)), "s", set(variable("x"), types.Long(2))), vars: []string{"x"}},
	{name: "context.s=[{k:?},2]", p: P, a: A, r: R, c: rec("a", types.Long(1), "r", rec("b", types.Long(1)), "s", set(rec("k", variable("x")), types.Long(2))), vars: []string{"x"}},
	{name: "context.s=[[?],2]", p: P, a: A, r: R, c: rec("a", types.Long(1), "r", rec("b", types.Long(1)), "s", set(set(variable("x")), types.Long(2))), vars: []string{"x"}},
	{name: "context.r.b=[{k:[?]}]", p: P, a: A, r: R, c: rec("a", types.Long(1), "r", rec("b", set(rec("k", set(variable("x"))))), "s", set(types.Long(1), types.Long(2))), vars: []string{"x"}},
	{name: "principal=?,context.a=?", p: variable("p"), a: A, r: R, c: rec("a", variable("x"), "r", rec("b", types.Long(1)), "s", set(types.Long(1), types.Long(2))), vars: []string{"p", "x"}},
	{name: "principal=?,context.s=[?,2]", p: variable("p"), a: A, r: R, c: rec("a", types.Long(1), "r", rec("b", types.Long(1)), "s", set(variable("x"), types.Long(2))), vars: []string{"p", "x"}},
	{name: "principal=?,context.s=[principal]", p: variable("p"), a: A, r: R, c: rec("a", types.Long(1), "r", rec("b", types.Long(1)), "s", set(variable("p"), ent("G", "g2"))), vars: []string{"p"}},
	{name: "principal=?,resource=?", p: variable("p"), a: A, r: variable("res"), c: knownCtx, vars: []string{"p", "res"}},
	{name: "context.a=context.r.b=?", p: P, a: A, r: R, c: rec("a", variable("x"), "r", rec("b", variable("x")), "s", set(types.Long(1), types.Long(2))), vars: []string{"x"}},
	{name: "all-unknown", p: variable("p"), a: variable("act"), r: variable("res"), c: variable("ctx"), vars: []string{"p", "act", "res", "ctx"}},
	{name: "principal=ignore", p: ignore, a: A, r: R, c: knownCtx, ignores: []string{"principal"}},
	{name: "resource=ignore", p: P, a: A, r: ignore, c: knownCtx, ignores: []string{"resource"}},
	{name: "context=ignore", p: P, a: A, r: R, c: ignore, ignores: []string{"context"}},
	{name: "context.a=ignore", p: P, a: A, r: R, c: rec("a", ignore, "r", rec("b", types.Long(1)), "s", set(types.Long(1), types.Long(2))), ignores: []string{"context.a"}},
	{name: "principal=?,resource=ignore", p: variable("p"), a: A, r: ignore, c: knownCtx, vars: []string{"p"}, ignores: []string{"resource"}},
	{name: "principal=ignore,resource=?", p: ignore, a: A, r: variable("res"), c: knownCtx, vars: []string{"res"}, ignores: []string{"principal"}},
	{name: "context.a=?,resource=ignore", p: P, a: A, r: ignore, c: rec("a", variable("x"), "r", rec("b", types.Long(1)), "s", set(types.Long(1), types.Long(2))), vars: []string{"x"}, ignores: []string{"resource"}},
	{name: "principal=?,context.a=ignore", p: variable("p"), a: A, r: R, c: rec("a", ignore, "r", rec("b", types.Long(1)), "s", set(types.Long(1), types.Long(2))), vars: []string{"p"}, ignores: []string{"context.a"}},
	{name: "principal=?,context=ignore", p: variable("p"), a: A, r: R, c: ignore, vars: []string{"p"}, ignores: []string{"context"}},
}

// subst replaces every occurrence of the marker entity by v, deeply.
func subst(x types.Value, marker types.EntityUID, v types.Value) types.Value {
	switch t := x.(type) {
	case types.EntityUID:
		if t == marker {
			return v
		}
	case types.Record:
		m := types.RecordMap{}
		for k, e := range t.All() {
			m[k] = subst(e, marker, v)
		}
		return types.NewRecord(m)
	case types.Set:
		var out []types.Value
		for e := range t.All() {
			out = append(out, subst(e, marker, v))
		}
		return types.NewSet(out...)
	}
	return x
}

type completion struct {
	env  eval.Env
	desc string
}

func completions(pe penv) []completion {
	type slot struct {
		marker types.EntityUID
		uni    []types.Value
		name   string
	}
	var slots []slot
	for _, v := range pe.vars {
		slots = append(slots, slot{variable(v).(types.EntityUID), universe(v), v})
	}
	if len(pe.ignores) > 0 {
		u := universe(pe.ignores[0])
		if pe.ignores[0] == "context.a" {
			u = uniLeaf
		}
		slots = append(slots, slot{ignore.(types.EntityUID), u, "ignored:" + pe.ignores[0]})
	}
	total := 1
	for _, s := range slots {
		total *= len(s.uni)
	}
	var out []completion
	for i := 0; i < total; i++ {
		x := i
		p, a, r, c := pe.p, pe.a, pe.r, pe.c
		var desc []string
		for _, s := range slots {
			v := s.uni[x%len(s.uni)]
			x /= len(s.uni)
			p, a, r, c = subst(p, s.marker, v), subst(a, s.marker, v), subst(r, s.marker, v), subst(c, s.marker, v)
			desc = append(desc, s.name+"="+v.String())
		}
		out = append(out, completion{eval.Env{Entities: store, Principal: p, Action: a, Resource: r, Context: c}, strings.Join(desc, ", ")})
	}
	return out
}

var allCompletions [][]completion

func init() {
	for _, pe := range penvs {
		allCompletions = append(allCompletions, completions(pe))
	}
}

func sat(p *xast.Policy, env eval.Env) (ok bool, panicked any) {
	defer func() {
		if r := recover(); r != nil {
			ok, panicked = false, r
		}
	}()
	v, err := eval.Eval(eval.PolicyToNode(p).AsIsNode(), env)
	return err == nil && v == types.Boolean(true), nil
}

// policy shapes ------------------------------------------------------------------

type shape struct {
	name string
	mk   func(cond xast.Node) *xast.Policy
	forb bool
}

var condShapes = []shape{
	{"permit-when", func(c xast.Node) *xast.Policy { return xast.Permit().When(c) }, false},
	{"permit-unless", func(c xast.Node) *xast.Policy { return xast.Permit().Unless(c) }, false},
	{"forbid-when", func(c xast.Node) *xast.Policy { return xast.Forbid().When(c) }, true},
	{"permit-scope-when-when", func(c xast.Node) *xast.Policy {
		return xast.Permit().PrincipalEq(ent("U", "alice")).When(xast.Context().Has("a")).When(c)
	}, false},
}

func leaves() []*Expr {
	return []*Expr{
		Access(Var("context"), "a"), Access(Access(Var("context"), "r"), "b"), Var("context"), Access(Var("context"), "s"), Var("principal"), Access(Var("resource"), "a"), Access(Var("principal"), "a"), Var("resource"),
		L(Long(1)), L(Str("s")), L(Bool(true)), L(Entity("U", "alice")), L(Set(Long(1), Long(2))), L(Rec(KV{"a", Long(1)}, KV{"r", Rec(KV{"b", Long(1)})}, KV{"s", Set(Long(1), Long(2))})), L(Entity("G", "g2")),
		L(Rec(KV{"k", Long(1)})), L(Set(Long(1))), L(Set(Rec(KV{"k", Set(Long(1))}))),
		Access(Var("context"), "r"), L(Set(Rec(KV{"b", Long(1)}), Rec(KV{"b", Long(2)}))), L(Set(Set(Long(1), Long(2)), Set(Long(2)))),
		Access(Var("context"), "missing"), // fails whenever the context is known: an operand that a short-circuiting operator must not reach
	}
}

func checkPolicy(t *core.T, name string, mk func() *xast.Policy, forbid bool, exprStr func() string) bool {
	nontriv := false
	for pi, pe := range penvs {
		if forbid && len(pe.ignores) > 0 {
			continue // the property constrains ignored parts for permit policies only
		}
		orig := mk()
		pristine := mk()
		in := func(c string) string {
			return fmt.Sprintf("%s: %s ; partial env %s ; completion {%s}", name, exprStr(), pe.name, c)
		}
		var residual *xast.Policy
		var keep bool
		if t.Protect("partial:"+name, in(""), func() {
			residual, keep = eval.PartialPolicy(eval.Env{Entities: store, Principal: pe.p, Action: pe.a, Resource: pe.r, Context: pe.c}, orig)
		}) {
			continue
		}
		if !reflect.DeepEqual(orig, pristine) {
			t.Fail("partial-mutates-input:"+name, in(""), "input policy unchanged", "changed")
		}
		satSome, unsatSome := false, false
		for _, c := range allCompletions[pi] {
			so, pn := sat(orig, c.env)
			if pn != nil {
				t.Fail("harness-eval-panic", in(c.desc), "", fmt.Sprint(pn))
				continue
			}
			if so {
				satSome = true
			} else {
				unsatSome = true
			}
			if len(pe.ignores) == 0 {
				if !keep {
					if so {
						t.Fail(fmt.Sprintf("dropped-but-satisfiable:%s:%s", name, pe.name), in(c.desc), "policy kept (original is satisfied under this completion)", "policy dropped")
					}
					continue
				}
				sr, pn := sat(residual, c.env)
				if pn != nil {
					t.Fail(fmt.Sprintf("residual-panics:%s:%s", name, pe.name), in(c.desc), "", fmt.Sprint(pn))
				} else if sr != so {
					t.Fail(fmt.Sprintf("residual-differs:%s:%s:orig=%v", name, pe.name, so), in(c.desc), fmt.Sprintf("residual satisfied=%v (as original)", so), fmt.Sprintf("residual satisfied=%v; residual: %s", sr, render(residual)))
				}
			} else if so {
				// ignoring only ever widens what permits allow
				if !keep {
					t.Fail(fmt.Sprintf("ignore-narrows:%s:%s:dropped", name, pe.name), in(c.desc), "permit kept (original satisfied for this value of the ignored part)", "dropped")
					continue
				}
				sr, pn := sat(residual, c.env)
				if pn != nil {
					t.Fail(fmt.Sprintf("residual-panics:%s:%s", name, pe.name), in(c.desc), "", fmt.Sprint(pn))
				} else if !sr {
					t.Fail(fmt.Sprintf("ignore-narrows:%s:%s:residual-unsatisfied", name, pe.name), in(c.desc), "residual satisfied", "residual not satisfied; residual: "+render(residual))
				}
			}
		}
		t.AddStates(1)
		t.AddTrans(int64(len(allCompletions[pi])))
		if satSome && unsatSome && len(pe.vars) > 0 {
			nontriv = true
		}
	}
	return nontriv
}

func render(p *xast.Policy) string {
	if p == nil {
		return "<nil>"
	}
	defer func() { recover() }()
	return fmt.Sprintf("%+v", *p)
}

func pow(b, e int) int64 {
	r := int64(1)
	for i := 0; i < e; i++ {
		r *= int64(b)
	}
	return r
}

func condFamily(name string, specs []gen.OpSpec, lv []*Expr, arity int) *core.Family {
	nl := int64(len(lv))
	per := pow(len(lv), arity) * int64(len(condShapes))
	return &core.Family{
		Name: name,
		Desc: fmt.Sprintf("%d operator forms x %d leaves^%d x %d policy shapes x %d partial environments x all completions", len(specs), nl, arity, len(condShapes), len(penvs)),
		N:    int64(len(specs)) * per,
		Run: func(t *core.T, i int64) {
			spec := specs[i/per]
			r := i % per
			sh := condShapes[r%int64(len(condShapes))]
			r /= int64(len(condShapes))
			args := make([]*Expr, arity)
			for j := arity - 1; j >= 0; j-- {
				args[j] = lv[r%nl]
				r /= nl
			}
			e := spec.Build(args)
			if checkPolicy(t, sh.name+":"+spec.Name, func() *xast.Policy { return sh.mk(e.ToAST()) }, sh.forb, e.String) {
				t.Nontrivial()
			}
			t.SampleF(func() string { return sh.name + " { " + e.String() + " }" })
		},
	}
}

// depth 2: short-circuit / structural parents over every depth-1 child.
func depth2Family(lv []*Expr) *core.Family {
	children := append(append([]gen.OpSpec{}, gen.Unary...), gen.Binary...)
	parents := []struct {
		name string
		f    func(c, l *Expr) *Expr
	}{
		{"c&&l", func(c, l *Expr) *Expr { return Bin(OAnd, c, l) }},
		{"l&&c", func(c, l *Expr) *Expr { return Bin(OAnd, l, c) }},
		{"c||l", func(c, l *Expr) *Expr { return Bin(OOr, c, l) }},
		{"l||c", func(c, l *Expr) *Expr { return Bin(OOr, l, c) }},
		{"!c", func(c, l *Expr) *Expr { return Un(ONot, c) }},
		{"if-c-l-false", func(c, l *Expr) *Expr { return If(c, l, L(Bool(false))) }},
		{"if-l-c-true", func(c, l *Expr) *Expr { return If(l, c, L(Bool(true))) }},
		{"if-l-true-c", func(c, l *Expr) *Expr { return If(l, L(Bool(true)), c) }},
		{"if-c-l-l", func(c, l *Expr) *Expr { return If(c, l, l) }},
		{"if-c-true-true", func(c, l *Expr) *Expr { return Bin(OAnd, If(c, L(Bool(true)), L(Bool(true))), l) }},
		{"c==l", func(c, l *Expr) *Expr { return Bin(OEq, c, l) }},
		{"[c].contains(l)", func(c, l *Expr) *Expr { return Bin(OContains, SetLit(c), l) }},
		{"{k:c}.k==l", func(c, l *Expr) *Expr { return Bin(OEq, Access(RecLit([]string{"k"}, []*Expr{c}), "k"), l) }},
		// literals with a sibling: every member of a record or set literal is evaluated, whichever is used
		{"{k:l,o:c}.k==l", func(c, l *Expr) *Expr { return Bin(OEq, Access(RecLit([]string{"k", "o"}, []*Expr{l, c}), "k"), l) }},
		{"{k:c,o:l}.o==l", func(c, l *Expr) *Expr { return Bin(OEq, Access(RecLit([]string{"k", "o"}, []*Expr{c, l}), "o"), l) }},
		{"{k:l,o:c} has k", func(c, l *Expr) *Expr { return Has(RecLit([]string{"k", "o"}, []*Expr{l, c}), "k") }},
		{"[l,c].contains(l)", func(c, l *Expr) *Expr { return Bin(OContains, SetLit(l, c), l) }},
		{"[c,l].contains(l)", func(c, l *Expr) *Expr { return Bin(OContains, SetLit(c, l), l) }},
	}
	nl := len(lv)
	type combo struct {
		p int
		c gen.OpSpec
	}
	var combos []combo
	for pi := range parents {
		for _, c := range children {
			combos = append(combos, combo{pi, c})
		}
	}
	return &core.Family{
		Name: "depth2",
		Desc: fmt.Sprintf("%d parents (short-circuit, if, ==, set/record wrappers) x %d child operator forms x all leaf tuples over %d leaves x 2 policy shapes x %d partial environments x all completions", len(parents), len(children), nl, len(penvs)),
		N:    int64(len(combos) * nl),
		Run: func(t *core.T, i int64) {
			cb := combos[int(i)/nl]
			l := lv[int(i)%nl]
			total := pow(nl, cb.c.Arity)
			nt := false
			var last *Expr
			for r := int64(0); r < total; r++ {
				x := r
				args := make([]*Expr, cb.c.Arity)
				for j := cb.c.Arity - 1; j >= 0; j-- {
					args[j] = lv[x%int64(nl)]
					x /= int64(nl)
				}
				e := parents[cb.p].f(cb.c.Build(args), l)
				last = e
				for _, sh := range condShapes[:2] {
					if checkPolicy(t, sh.name+":"+parents[cb.p].name+"/"+cb.c.Name, func() *xast.Policy { return sh.mk(e.ToAST()) }, sh.forb, e.String) {
						nt = true
					}
				}
			}
			if nt {
				t.Nontrivial()
			}
			t.SampleF(last.String)
		},
	}
}

// depth 3: an `if` whose branches are values used by a whole-value consumer.
func ifValueFamily(lv []*Expr) *core.Family {
	consumers := []struct {
		name string
		f    func(x, l *Expr) *Expr
	}{
		{"(if)==l", func(x, l *Expr) *Expr { return Bin(OEq, x, l) }},
		{"l==(if)", func(x, l *Expr) *Expr { return Bin(OEq, l, x) }},
		{"(if).contains(l)", func(x, l *Expr) *Expr { return Bin(OContains, x, l) }},
		{"l in (if)", func(x, l *Expr) *Expr { return Bin(OIn, l, x) }},
		{"(if).a==l", func(x, l *Expr) *Expr { return Bin(OEq, Access(x, "a"), l) }},
		{"(if) has a", func(x, l *Expr) *Expr { return Has(x, "a") }},
	}
	conds := []*Expr{L(Bool(true)), L(Bool(false)), Bin(OEq, Access(Var("context"), "a"), L(Long(1))), Bin(OEq, Var("principal"), L(Entity("U", "alice")))}
	nl := len(lv)
	n := len(consumers) * len(conds) * nl * nl * nl
	return &core.Family{
		Name: "depth3-if-value",
		Desc: fmt.Sprintf("%d whole-value consumers of (if c then t else e) x %d conditions x %d^3 leaves x 2 policy shapes x %d partial environments x all completions", len(consumers), len(conds), nl, len(penvs)),
		N:    int64(n),
		Run: func(t *core.T, i int64) {
			x := int(i)
			l := lv[x%nl]
			x /= nl
			e2 := lv[x%nl]
			x /= nl
			t2 := lv[x%nl]
			x /= nl
			c := conds[x%len(conds)]
			x /= len(conds)
			e := consumers[x].f(If(c, t2, e2), l)
			nt := false
			for _, sh := range condShapes[:2] {
				if checkPolicy(t, sh.name+":"+consumers[x].name, func() *xast.Policy { return sh.mk(e.ToAST()) }, sh.forb, e.String) {
					nt = true
				}
			}
			if nt {
				t.Nontrivial()
			}
			t.SampleF(e.String)
		},
	}
}

// if with an undecided guard over branches that are decided by the known request parts:
// the guard is boolean-typed but may still fail under a completion (wrongly typed or
// missing operand, overflow), and the two branches may fold to the same constant without
// being the same expression. The `if` may then be neither dropped nor replaced by a branch.
func ifGuardFamily() *core.Family {
	ctxA, ctxRB, ctxS := Access(Var("context"), "a"), Access(Access(Var("context"), "r"), "b"), Access(Var("context"), "s")
	guards := []*Expr{
		Bin(OLt, ctxA, L(Long(5))), Bin(OEq, ctxA, L(Long(1))), Bin(OEq, ctxRB, L(Long(1))), Bin(OGt, Bin(OAdd, ctxA, L(Long(gen.MaxI))), L(Long(0))),
		Bin(OContains, ctxS, L(Long(1))), Un(ONot, Bin(OLt, ctxA, L(Long(5)))), Bin(OAnd, Bin(OLt, ctxA, L(Long(5))), L(Bool(true))), Bin(OOr, Bin(OLe, ctxRB, L(Long(5))), L(Bool(false))),
		Has(Var("context"), "a"), Bin(OIn, Var("principal"), L(Entity("G", "g2"))), Bin(OEq, Var("principal"), L(Entity("U", "alice"))), Bin(OEq, Var("resource"), L(Entity("G", "g1"))),
		Bin(OLt, Access(Var("principal"), "age"), L(Long(5))), Un(OIsEmpty, ctxS),
	}
	branches := []*Expr{
		L(Bool(true)), L(Bool(false)), Bin(OEq, Var("principal"), L(Entity("U", "alice"))), Bin(OEq, Var("resource"), L(Entity("G", "g1"))), Bin(OEq, Var("action"), L(Entity("Action", "view"))),
		Bin(OEq, ctxA, L(Long(1))), Bin(OEq, L(Long(1)), L(Long(1))), Has(Var("context"), "a"), Bin(OIn, Var("principal"), L(Entity("G", "g2"))), Bin(ONe, Var("resource"), L(Entity("U", "bob"))),
	}
	nb := len(branches)
	return &core.Family{
		Name: "if-undecided-guard-decided-branches",
		Desc: fmt.Sprintf("if g then t else e for %d boolean-typed guards that fail under some completion x %d^2 branches decided by the known parts (equal constants from different expressions included) x 2 policy shapes x %d partial environments x all completions", len(guards), nb, len(penvs)),
		N:    int64(len(guards) * nb * nb),
		Run: func(t *core.T, i int64) {
			x := int(i)
			e := If(guards[x/(nb*nb)], branches[x/nb%nb], branches[x%nb])
			nt := false
			for _, sh := range condShapes[:2] {
				if checkPolicy(t, sh.name+":if-guard", func() *xast.Policy { return sh.mk(e.ToAST()) }, sh.forb, e.String) {
					nt = true
				}
			}
			if nt {
				t.Nontrivial()
			}
			t.SampleF(e.String)
		},
	}
}

// scope forms x simple conditions.
// condition lists: every list of 1..3 when/unless clauses over bodies that are known
// true / false / erroring, or that read a part which is unknown in some environments.
// Partial evaluation decides each clause separately and must keep their conjunction:
// a clause that becomes constant must not make the policy kept / dropped wrongly when a
// later (or earlier) clause still depends on an unknown or fails.
func condListFamily() *core.Family {
	bodies := []*Expr{
		L(Bool(true)), L(Bool(false)),
		Bin(OEq, Access(Var("context"), "a"), L(Long(1))), Bin(OEq, Var("principal"), L(Entity("U", "alice"))), Bin(OIn, Var("principal"), L(Entity("G", "g2"))),
		Access(Var("context"), "missing"), Has(Var("context"), "a"), Bin(OContains, Access(Var("context"), "s"), L(Long(1))),
	}
	nb := len(bodies) * 2
	type clause struct {
		when bool
		body *Expr
	}
	var lists [][]clause
	var rec func(cur []clause)
	rec = func(cur []clause) {
		if len(cur) > 0 {
			lists = append(lists, append([]clause{}, cur...))
		}
		if len(cur) == 3 {
			return
		}
		for k := 0; k < nb; k++ {
			rec(append(cur, clause{k%2 == 0, bodies[k/2]}))
		}
	}
	rec(nil)
	return &core.Family{
		Name: "condition-lists",
		Desc: fmt.Sprintf("every list of 1..3 when/unless clauses over %d bodies (constants, comparisons / membership / has / contains over parts that are unknown in some environments, an erroring access) x {permit, forbid}: %d policies x %d partial environments x all completions", len(bodies), 2*len(lists), len(penvs)),
		N:    int64(2 * len(lists)),
		Run: func(t *core.T, i int64) {
			cl := lists[i/2]
			forb := i%2 == 1
			mk := func() *xast.Policy {
				p := xast.Permit()
				if forb {
					p = xast.Forbid()
				}
				for _, c := range cl {
					if c.when {
						p.When(c.body.ToAST())
					} else {
						p.Unless(c.body.ToAST())
					}
				}
				return p
			}
			desc := func() string {
				var sb strings.Builder
				for _, c := range cl {
					if c.when {
						sb.WriteString("when { ")
					} else {
						sb.WriteString("unless { ")
					}
					sb.WriteString(c.body.String() + " } ")
				}
				return sb.String()
			}
			if checkPolicy(t, "condition-list", mk, forb, desc) {
				t.Nontrivial()
			}
			t.SampleF(desc)
		},
	}
}

func scopeFamily() *core.Family {
	type sc struct {
		name string
		f    func(p *xast.Policy) *xast.Policy
	}
	e1, g1, g2 := ent("U", "alice"), ent("G", "g1"), ent("G", "g2")
	scopes := []sc{
		{"all", func(p *xast.Policy) *xast.Policy { return p }},
		{"principal==", func(p *xast.Policy) *xast.Policy { return p.PrincipalEq(e1) }},
		{"principal-in", func(p *xast.Policy) *xast.Policy { return p.PrincipalIn(g2) }},
		{"principal-is", func(p *xast.Policy) *xast.Policy { return p.PrincipalIs("U") }},
		{"principal-is-in", func(p *xast.Policy) *xast.Policy { return p.PrincipalIsIn("U", g1) }},
		{"action==", func(p *xast.Policy) *xast.Policy { return p.ActionEq(ent("Action", "view")) }},
		{"action-in", func(p *xast.Policy) *xast.Policy { return p.ActionIn(ent("Action", "all")) }},
		{"action-in-set", func(p *xast.Policy) *xast.Policy { return p.ActionInSet(ent("Action", "edit"), ent("Action", "all")) }},
		{"resource==", func(p *xast.Policy) *xast.Policy { return p.ResourceEq(g1) }},
		{"resource-in", func(p *xast.Policy) *xast.Policy { return p.ResourceIn(g2) }},
		{"resource-is", func(p *xast.Policy) *xast.Policy { return p.ResourceIs("G") }},
		{"resource-is-in", func(p *xast.Policy) *xast.Policy { return p.ResourceIsIn("G", g2) }},
	}
	conds := []func() (xast.Node, string){
		func() (xast.Node, string) { return xast.True(), "true" },
		func() (xast.Node, string) { return xast.Context().Access("a").Equal(xast.Long(1)), "context.a == 1" },
		func() (xast.Node, string) {
			return xast.Principal().In(xast.EntityUID("G", "g2")), "principal in G::g2"
		},
		func() (xast.Node, string) {
			return xast.Resource().Access("a").Equal(xast.String("group")), "resource.a == \"group\""
		},
		func() (xast.Node, string) { return xast.Context().Access("missing"), "context.missing" },
	}
	n := len(scopes) * len(scopes) * len(conds) * 2
	return &core.Family{
		Name: "scopes",
		Desc: fmt.Sprintf("every pair of %d scope clauses x %d conditions x {permit, forbid} x %d partial environments x all completions", len(scopes), len(conds), len(penvs)),
		N:    int64(n),
		Run: func(t *core.T, i int64) {
			x := int(i)
			forb := x%2 == 1
			x /= 2
			ci := x % len(conds)
			x /= len(conds)
			s1, s2 := scopes[x%len(scopes)], scopes[x/len(scopes)]
			_, cs := conds[ci]()
			mk := func() *xast.Policy {
				p := xast.Permit()
				if forb {
					p = xast.Forbid()
				}
				c, _ := conds[ci]()
				return s2.f(s1.f(p)).When(c)
			}
			name := fmt.Sprintf("scope:%s+%s", s1.name, s2.name)
			if checkPolicy(t, name, mk, forb, func() string { return cs }) {
				t.Nontrivial()
			}
			t.SampleF(func() string { return name + " when " + cs })
		},
	}
}

func Check() *core.Check {
	return &core.Check{
		ID:        "C06",
		HangAfter: 120 * time.Second, // cases take at most seconds (max_case_s in the evidence); see core.Family.HangAfter
		Title:     "Partial evaluation is sound for every completion of the unknowns",
		Rule: "bounded-exhaustive: policies (scope-form pairs; every operator form over 21 leaves in 4 policy shapes; lists of 1..3 when/unless clauses; depth-2 short-circuit/structural parents) x 26 partial environments (unknown principal/action/resource/context, unknowns nested up to three levels deep in context records and sets (set in record, record in set, set in set, set in record in set), the same unknown twice, ignored parts, an unknown part together with an ignored one) x every completion from universes that hit both branches of the comparisons; kept => residual satisfied iff original; dropped => original never satisfied; ignored part (permit) => original satisfied implies kept and residual satisfied; " +
			"a case is non-trivial if under some environment with unknowns the original is satisfied for some completions and not for others",
		Assumptions: []string{"satisfaction is judged by x/exp/eval.Eval on PolicyToNode (its conformance is C01)", "forbid policies under ignored parts are not constrained by the property and are skipped"},
		Families: func(tier string) []*core.Family {
			lv := leaves()
			fams := []*core.Family{scopeFamily(), condListFamily(), ifGuardFamily(), condFamily("depth1-unary", gen.Unary, lv, 1), condFamily("depth1-binary", gen.Binary, lv, 2)}
			if tier == "thorough" {
				fams = append(fams, condFamily("depth1-if", gen.Ternary, lv, 3), depth2Family(lv[:9]), ifValueFamily(lv))
			} else {
				// sub-alphabets of the quick tier, named rather than indexed (an inserted leaf must not shift them)
				ctxA, ctxRB, ctx, ctxS, prin := Access(Var("context"), "a"), Access(Access(Var("context"), "r"), "b"), Var("context"), Access(Var("context"), "s"), Var("principal")
				one, str, tru := L(Long(1)), L(Str("s")), L(Bool(true))
				recLit := L(Rec(KV{"a", Long(1)}, KV{"r", Rec(KV{"b", Long(1)})}, KV{"s", Set(Long(1), Long(2))}))
				fams = append(fams, condFamily("depth1-if", gen.Ternary, lv[:8], 3), depth2Family([]*Expr{ctxA, ctx, prin, one, str, tru}), ifValueFamily([]*Expr{ctxA, ctxRB, ctx, ctxS, prin, one, recLit}))
			}
			return fams
		},
	}
}
