//go:build verif

// Package c19: shared policies and entities — race-free concurrent reads, inputs never mutated (E4 + E5).
package c19

import (
	"bytes"
	"context"
	"encoding/json"
	"fmt"
	"os"
	"os/exec"
	"path/filepath"
	"regexp"
	"sort"
	"strings"
	"sync"

	cedar "github.com/cedar-policy/cedar-go"
	"github.com/cedar-policy/cedar-go/internal/verifrt"
	"github.com/cedar-policy/cedar-go/types"
	"github.com/cedar-policy/cedar-go/verif/core"
	xast "github.com/cedar-policy/cedar-go/x/exp/ast"
	"github.com/cedar-policy/cedar-go/x/exp/batch"
	"github.com/cedar-policy/cedar-go/x/exp/eval"
	"github.com/cedar-policy/cedar-go/x/exp/schema"
	"github.com/cedar-policy/cedar-go/x/exp/schema/validate"
)

// shared inputs ---------------------------------------------------------------

const policyDoc = `
@id("p0") permit(principal in G::"g3", action, resource) when { principal.dept == "eng" && [1, 2, {k: context.n}].contains(context.n) };
forbid(principal, action == Action::"delete", resource) unless { context has override && context.override.by in G::"g3" };
permit(principal, action in [Action::"readWrite", Action::"view", Action::"other"], resource is Doc in Folder::"root") when { resource.owner == principal || principal.roles.containsAny(["admin", "owner"]) };
permit(principal, action, resource) when { context.missing.deep };
permit(principal, action, resource) when { decimal("1.5").lessThan(decimal("2.5")) && ip("10.0.0.1").isInRange(ip("10.0.0.0/8")) && context.n > 0 };
forbid(principal, action, resource) when { principal.hasTag("blocked") && principal.getTag("blocked") == true };
`

// bigPolicies: literal collections and a policy count beyond the sizes at which an index, a
// memo or a sorted copy built lazily on first use would pay off (such a cache is shared by
// every request that evaluates the policy).
func bigPolicies() string {
	var ents, acts, nums, keys []string
	for i := 0; i < 70; i++ {
		ents = append(ents, fmt.Sprintf(`G::"x%d"`, i))
		acts = append(acts, fmt.Sprintf(`Action::"a%d"`, i))
		nums = append(nums, fmt.Sprint(i-3))
		keys = append(keys, fmt.Sprintf(`k%d: %d`, i, i))
	}
	var sb strings.Builder
	fmt.Fprintf(&sb, "permit(principal, action, resource) when { principal in [%s, G::\"g3\"] && resource in [%s] };\n", strings.Join(ents, ", "), strings.Join(ents, ", "))
	fmt.Fprintf(&sb, "permit(principal, action in [%s, Action::\"view\"], resource) when { [%s].contains(context.n) && [%s].containsAll([context.n, 1]) };\n", strings.Join(acts, ", "), strings.Join(nums, ", "), strings.Join(nums, ", "))
	fmt.Fprintf(&sb, "forbid(principal, action, resource) when { {%s}.k3 == context.n || [%s].containsAny([principal, resource]) || \"%s\" like \"*y*\" };\n", strings.Join(keys, ", "), strings.Join(ents, ", "), strings.Repeat("x", 300))
	for i := 0; i < 64; i++ {
		fmt.Fprintf(&sb, "forbid(principal == U::\"nobody%d\", action, resource);\n", i)
	}
	return sb.String()
}

const schemaText = `
entity G in [G];
entity U in [G] { dept: String, roles: Set<String> } tags Bool;
entity Folder in [Folder];
entity Doc in [Folder] { owner: U };
action readWrite;
action other appliesTo { principal: U, resource: Doc, context: { n: Long, override?: { by: U } } };
action view, edit in [readWrite] appliesTo { principal: U, resource: Doc, context: { n: Long, override?: { by: U } } };
action "delete" appliesTo { principal: U, resource: Doc, context: { n: Long, override?: { by: U } } };
`

func bigSet(n int) types.Set {
	vs := make([]types.Value, n)
	for i := range vs {
		vs[i] = types.Long(int64(i - 3))
	}
	return types.NewSet(vs...)
}

func bigRecord(n int) types.RecordMap {
	m := types.RecordMap{}
	for i := 0; i < n; i++ {
		m[types.String(fmt.Sprintf("k%d", i))] = types.NewSet(types.Long(int64(i)), types.String("x"))
	}
	return m
}

type shared struct {
	breq  batch.Request
	base  uint64
	baseR map[string]uint64
	ps    *cedar.PolicySet
	ents  types.EntityMap
	req   cedar.Request
	vals  []types.Value
	valid *validate.Validator
	asts  []*xast.Policy
}

func uid(t, id string) types.EntityUID {
	return types.NewEntityUID(types.EntityType(t), types.String(id))
}

func newShared(big ...bool) (*shared, error) {
	s := &shared{}
	doc := policyDoc
	if len(big) > 0 && big[0] {
		doc += bigPolicies()
	}
	ps, err := cedar.NewPolicySetFromBytes("shared.cedar", []byte(doc))
	if err != nil {
		return nil, err
	}
	s.ps = ps
	s.ents = types.EntityMap{}
	add := func(u types.EntityUID, parents []types.EntityUID, attrs types.RecordMap, tags types.RecordMap) {
		s.ents[u] = types.Entity{UID: u, Parents: types.NewEntityUIDSet(parents...), Attributes: types.NewRecord(attrs), Tags: types.NewRecord(tags)}
	}
	add(uid("U", "alice"), []types.EntityUID{uid("G", "g1")}, types.RecordMap{"dept": types.String("eng"), "roles": types.NewSet(types.String("dev"), types.String("owner"))}, types.RecordMap{"blocked": types.False})
	add(uid("G", "g1"), []types.EntityUID{uid("G", "g2")}, nil, nil)
	add(uid("G", "g2"), []types.EntityUID{uid("G", "g3"), uid("G", "g1")}, nil, nil)
	add(uid("G", "g3"), nil, nil, nil)
	add(uid("Doc", "d1"), []types.EntityUID{uid("Folder", "f1")}, types.RecordMap{"owner": uid("U", "alice")}, nil)
	add(uid("Folder", "f1"), []types.EntityUID{uid("Folder", "root")}, nil, nil)
	add(uid("Folder", "root"), nil, nil, nil)
	s.req = cedar.Request{Principal: uid("U", "alice"), Action: uid("Action", "view"), Resource: uid("Doc", "d1"),
		Context: types.NewRecord(types.RecordMap{"n": types.Long(2), "override": types.NewRecord(types.RecordMap{"by": uid("U", "alice")})})}
	s.vals = []types.Value{
		types.NewSet(types.Long(1), types.True, types.NewSet(types.Long(1)), types.String("a")),
		types.NewRecord(types.RecordMap{"b": types.NewSet(types.Long(-1)), "a": types.NewRecord(types.RecordMap{"x": types.Long(1)})}),
		types.NewRecord(types.RecordMap{}), types.NewSet(), types.NewSet([]types.Value{}...), types.Record{}, // empty, by every constructor
		bigSet(70), types.NewRecord(bigRecord(70)), // sizes beyond the thresholds at which a lazily built index or memo would pay off
	}
	var sc schema.Schema
	if err := sc.UnmarshalCedar([]byte(schemaText)); err != nil {
		return nil, err
	}
	rs, err := sc.Resolve()
	if err != nil {
		return nil, err
	}
	s.valid = validate.New(rs)
	for _, p := range ps.All() {
		s.asts = append(s.asts, (*xast.Policy)(p.AST()))
	}
	s.breq = batch.Request{Principal: batch.Variable("p"), Action: s.req.Action, Resource: s.req.Resource,
		Context:   types.NewRecord(types.RecordMap{"n": batch.Variable("n"), "override": types.NewRecord(types.RecordMap{"by": batch.Variable("p")})}),
		Variables: batch.Variables{"p": {uid("U", "alice"), uid("U", "ghost"), uid("U", "bob")}, "n": {types.Long(2), types.Long(9)}}}
	// the baseline is taken before ANY operation has run on the inputs
	s.base = core.Digest(s.roots()...)
	s.baseR = s.rootDigests()
	return s, nil
}

// operations: read-only calls on the shared inputs ---------------------------------

type op struct {
	name string
	run  func(s *shared, eg types.EntityGetter) string
}

func diag(d cedar.Decision, g cedar.Diagnostic) string {
	var rs, es []string
	for _, r := range g.Reasons {
		rs = append(rs, string(r.PolicyID))
	}
	for _, e := range g.Errors {
		es = append(es, string(e.PolicyID)+":"+e.Message)
	}
	sort.Strings(rs)
	sort.Strings(es)
	return fmt.Sprintf("%v %v %q", d, rs, es)
}

var ops = []op{
	{"Authorize", func(s *shared, eg types.EntityGetter) string { return diag(cedar.Authorize(s.ps, eg, s.req)) }},
	{"batch.Authorize", func(s *shared, eg types.EntityGetter) string {
		var out []string
		err := batch.Authorize(context.Background(), s.ps, eg, s.breq,
			func(r batch.Result) error {
				out = append(out, fmt.Sprintf("%v:%s", r.Values, diag(r.Decision, r.Diagnostic)))
				return nil
			})
		sort.Strings(out)
		return fmt.Sprint(out, err)
	}},
	{"MarshalCedar", func(s *shared, eg types.EntityGetter) string { return string(s.ps.MarshalCedar()) }},
	{"MarshalJSON", func(s *shared, eg types.EntityGetter) string {
		b, err := s.ps.MarshalJSON()
		e, err2 := json.Marshal(s.ents)
		return string(b) + string(e) + fmt.Sprint(err, err2)
	}},
	{"inspect", func(s *shared, eg types.EntityGetter) string {
		var ids []string
		for id, p := range s.ps.All() {
			ids = append(ids, fmt.Sprintf("%s:%v:%v:%d", id, p.Effect(), p.Annotations(), p.Position().Offset))
		}
		sort.Strings(ids)
		m := s.ps.Map()
		return fmt.Sprint(ids, len(m), s.ps.Get("policy2") != nil)
	}},
	{"values", func(s *shared, eg types.EntityGetter) string {
		var sb strings.Builder
		for _, v := range s.vals {
			b, _ := json.Marshal(v)
			sb.WriteString(string(v.MarshalCedar()) + string(b) + fmt.Sprint(v.Equal(v), v.String()))
		}
		set := s.vals[0].(types.Set)
		// what the accessors hand out is the caller's: fill / overwrite every copy obtained
		for _, v := range s.vals {
			switch x := v.(type) {
			case types.Record:
				if m := x.Map(); m != nil {
					m["added-by-caller"] = types.True
					for k := range m {
						m[k] = types.Long(-7)
					}
				}
			case types.Set:
				sl := x.Slice()
				for k := range sl {
					sl[k] = types.Long(-7)
				}
				_ = append(sl, types.True)
			}
		}
		if m := s.req.Context.Map(); m != nil {
			m["added-by-caller"] = types.True
		}
		// (in a fixed order: these are library calls, i.e. scheduling points in the entry-point mode)
		var uids []types.EntityUID
		for u := range s.ents {
			uids = append(uids, u)
		}
		sort.Slice(uids, func(i, j int) bool {
			return uids[i].Type < uids[j].Type || (uids[i].Type == uids[j].Type && uids[i].ID < uids[j].ID)
		})
		other := types.EntityUID{Type: "X", ID: "x"}
		for _, u := range uids {
			e := s.ents[u]
			if m := e.Attributes.Map(); m != nil {
				m["added-by-caller"] = types.True
			}
			if m := e.Tags.Map(); m != nil {
				m["added-by-caller"] = types.True
			}
			ps := e.Parents.Slice()
			for k := range ps {
				ps[k] = other
			}
		}
		return sb.String() + fmt.Sprint(set.Contains(types.Long(1)), set.Len(), len(set.Slice()))
	}},
	{"validate", func(s *shared, eg types.EntityGetter) string {
		var out []string
		for i, a := range s.asts {
			out = append(out, fmt.Sprint(s.valid.Policy(fmt.Sprintf("policy%d", i), a) == nil))
		}
		return fmt.Sprint(out, s.valid.Entities(s.ents) == nil, s.valid.Request(s.req) == nil)
	}},
	{"partial", func(s *shared, eg types.EntityGetter) string {
		var out []string
		for _, a := range s.asts {
			r, keep := eval.PartialPolicy(eval.Env{Entities: eg, Principal: eval.Variable("p"), Action: s.req.Action, Resource: s.req.Resource, Context: s.req.Context}, a)
			out = append(out, fmt.Sprint(keep, r != nil))
		}
		return fmt.Sprint(out)
	}},
}

// pointGetter is a harness-owned seam: every Get is a scheduling point.
type pointGetter struct {
	m     types.EntityMap
	point func(string)
}

func (g pointGetter) Get(u types.EntityUID) (types.Entity, bool) {
	if g.point != nil {
		g.point("EntityGetter.Get")
	}
	e, ok := g.m[u]
	return e, ok
}

// roots of the shared-state digest: the inputs and every package-level variable of the library.
func (s *shared) roots() []any {
	rs := []any{s.ps, s.ents, s.req, s.vals, s.asts, s.breq}
	g := verifrt.Globals()
	names := make([]string, 0, len(g))
	for n := range g {
		names = append(names, n)
	}
	sort.Strings(names)
	for _, n := range names {
		rs = append(rs, g[n])
	}
	return rs
}

// which root changed (for the report)
func (s *shared) diffRoots(before map[string]uint64) string {
	var out []string
	for n, d := range s.rootDigests() {
		if before[n] != d {
			out = append(out, n)
		}
	}
	sort.Strings(out)
	return strings.Join(out, ",")
}

func (s *shared) rootDigests() map[string]uint64 {
	m := map[string]uint64{"policy-set": core.Digest(s.ps), "entities": core.Digest(s.ents), "request": core.Digest(s.req), "values": core.Digest(s.vals), "asts": core.Digest(s.asts), "batch-request": core.Digest(s.breq)}
	for n, p := range verifrt.Globals() {
		m["global "+n] = core.Digest(p)
	}
	return m
}

// ---------------------------------------------------------------------------

func explore(t *core.T, s *shared, solo []string, threadOps [][]int, bound int, entryPoints bool, desc string) {
	base := s.base
	baseRoots := s.baseR
	st := core.Explore(t, bound, 0, func(c *core.Ctx) {
		sc := core.NewSched(c, 50000000)
		results := make([][]string, len(threadOps))
		checked := 0
		preempted := false
		sc.OnPoint = func(label string, thread int, switched bool) {
			// invariant: the shared inputs and all package-level state are unchanged.
			// It is evaluated at EVERY scheduling point of the executions without preemption
			// (every point of every operation's own run) and at every context switch otherwise.
			if switched {
				preempted = preempted || sc.Switches > len(threadOps)
			}
			if !switched && preempted {
				return
			}
			checked++
			if d := core.Digest(s.roots()...); d != base {
				t.Fail("shared-state-modified:at:"+label, fmt.Sprintf("%s; schedule %v; scheduling point %s", desc, c.Choices(), label), "inputs and package-level variables unchanged", "changed: "+s.diffRoots(baseRoots))
				base = d
			}
		}
		if entryPoints {
			verifrt.PointHook = sc.Point
		}
		var fs []func()
		for ti, list := range threadOps {
			ti, list := ti, list
			fs = append(fs, func() {
				for _, oi := range list {
					eg := pointGetter{m: s.ents, point: sc.Point}
					results[ti] = append(results[ti], ops[oi].run(s, eg))
					sc.Point("op-end:" + ops[oi].name)
				}
			})
		}
		var panics []any
		func() {
			defer func() { verifrt.PointHook = nil }()
			panics = sc.Run(fs...)
		}()
		for _, p := range panics {
			t.Fail("panic-under-schedule", fmt.Sprintf("%s; schedule %v", desc, c.Choices()), "no panic", fmt.Sprint(p))
		}
		for ti, list := range threadOps {
			for k, oi := range list {
				if k < len(results[ti]) && results[ti][k] != solo[oi] {
					t.Fail("result-differs-from-solo:"+ops[oi].name, fmt.Sprintf("%s; schedule %v; thread %d", desc, c.Choices(), ti), solo[oi], results[ti][k])
				}
			}
		}
		if d := core.Digest(s.roots()...); d != base {
			t.Fail("shared-state-modified:at:end", fmt.Sprintf("%s; schedule %v", desc, c.Choices()), "unchanged", "changed: "+s.diffRoots(baseRoots))
			base = d
		}
	})
	t.Obs(fmt.Sprintf("%s:%d", desc, st.Execs))
	if st.Execs > 1 {
		t.Nontrivial()
	}
	t.Sample(fmt.Sprintf("%s: %d schedules, %d scheduling decisions, longest %d", desc, st.Execs, st.Points, st.MaxDepth))
}

// soloResults runs every operation once, alone, and checks that none of them changed the
// shared state (first-use caches would show here).
func soloResults(t *core.T, s *shared) []string {
	out := make([]string, len(ops))
	for i, o := range ops {
		out[i] = o.run(s, pointGetter{m: s.ents})
		if t != nil {
			if d := core.Digest(s.roots()...); d != s.base {
				t.Fail("shared-state-modified:by-first:"+o.name, "the operation run once, alone, on fresh inputs", "inputs and package-level variables unchanged", "changed: "+s.diffRoots(s.baseR))
				s.base = d
				s.baseR = s.rootDigests()
			}
		}
	}
	return out
}

// immutability of inputs around each single operation, every function entry checked.
func immutabilityFamily() *core.Family {
	return &core.Family{
		Name:   "immutability-at-every-function-entry",
		Desc:   fmt.Sprintf("each of %d read-only operations alone, the deep digest of all shared inputs and of every package-level variable of the library compared at EVERY function entry of the library (scheduling point) and at the end", len(ops)),
		N:      int64(len(ops)),
		Serial: true,
		Run: func(t *core.T, i int64) {
			s, err := newShared()
			if err != nil {
				t.Fail("harness-shared-inputs", "", "", err.Error())
				return
			}
			solo := soloResults(t, s)
			explore(t, s, solo, [][]int{{int(i)}, {int(i)}}, 0, true, "2x "+ops[i].name+" (no preemption, all entry points)")
			t.Nontrivial()
		},
	}
}

// the same on inputs with large literal collections and many policies; the digest is compared
// at the seams and at the end of every operation (it is too large to recompute at every
// function entry).
func largeInputsFamily() *core.Family {
	return &core.Family{
		Name:   "immutability-of-large-inputs",
		Desc:   fmt.Sprintf("each of %d read-only operations alone and twice in a row on a policy set with 70-member literal sets in scope and conditions, a 70-key record literal, a 300-character pattern subject and 73 policies: the deep digest of all shared inputs and package-level variables compared after the first run, at every seam and at the end", len(ops)),
		N:      int64(len(ops)),
		Serial: true,
		Run: func(t *core.T, i int64) {
			s, err := newShared(true)
			if err != nil {
				t.Fail("harness-shared-inputs", "", "", err.Error())
				return
			}
			solo := soloResults(t, s)
			explore(t, s, solo, [][]int{{int(i)}, {int(i)}}, 0, false, "2x "+ops[i].name+" (large inputs, no preemption, seams)")
			t.Nontrivial()
		},
	}
}

func scheduleFamily(bound int, entryPoints bool, three bool) *core.Family {
	// pairs of operations on two threads (and triples on three)
	var combos [][][]int
	for a := range ops {
		for b := range ops {
			if b >= a {
				combos = append(combos, [][]int{{a}, {b}})
			}
		}
	}
	combos = append(combos, [][]int{{0, 2}, {1, 3}}, [][]int{{0, 0}, {0}}, [][]int{{1, 4}, {5, 0}})
	if three {
		combos = append(combos, [][]int{{0}, {1}, {2}}, [][]int{{0}, {0}, {0}}, [][]int{{3}, {7}, {1}}, [][]int{{6}, {0}, {5}})
	}
	kind := "seams (EntityGetter.Get, operation ends)"
	if entryPoints {
		kind = "every function entry of the library"
	}
	return &core.Family{
		Name:   fmt.Sprintf("interleavings-bound%d-%s", bound, map[bool]string{true: "entry-points", false: "seams"}[entryPoints]),
		Desc:   fmt.Sprintf("%d thread configurations (all pairs of %d operations, some 2-op threads%s) x every interleaving with <=%d preemptions at scheduling points = %s; per-thread oracle = the operation's solo result; invariant = shared-state digest", len(combos), len(ops), map[bool]string{true: ", 3 threads", false: ""}[three], bound, kind),
		N:      int64(len(combos)),
		Serial: true,
		Run: func(t *core.T, i int64) {
			s, err := newShared()
			if err != nil {
				t.Fail("harness-shared-inputs", "", "", err.Error())
				return
			}
			solo := soloResults(t, s)
			var names []string
			for _, l := range combos[i] {
				var n []string
				for _, oi := range l {
					n = append(n, ops[oi].name)
				}
				names = append(names, strings.Join(n, ";"))
			}
			explore(t, s, solo, combos[i], bound, entryPoints, strings.Join(names, " || "))
		},
	}
}

// free-running race pass (supporting evidence, not exhaustive): the same operation bodies in
// 16 goroutines under the race detector, in a separate binary built with -race.
func raceFamily() *core.Family {
	return &core.Family{
		Name:   "free-running-race-detector-pass",
		Desc:   "the same operation bodies, 16 goroutines x 40 rounds, free-running under the Go race detector (separate -race build; supporting evidence, not exhaustive)",
		N:      1,
		Serial: true,
		Run: func(t *core.T, i int64) {
			bin := os.Getenv("VERIF_RACE_BIN")
			if bin == "" {
				t.Sample("race binary not built (VERIF_RACE_BIN unset): pass skipped")
				return
			}
			cmd := exec.Command(bin, "C19", "--race-pass")
			cmd.Env = append(os.Environ(), "GORACE=halt_on_error=1 exitcode=66")
			var out bytes.Buffer
			cmd.Stdout = &out
			cmd.Stderr = &out
			err := cmd.Run()
			t.Nontrivial()
			t.Sample(lastLine(out.String()))
			if strings.Contains(out.String(), "DATA RACE") {
				site := "unknown"
				re := regexp.MustCompile(`github\.com/cedar-policy/cedar-go/([^\s(]+)`)
				for _, m := range re.FindAllStringSubmatch(out.String(), -1) {
					if !strings.HasPrefix(m[1], "verif/") {
						site = m[1]
						break
					}
				}
				t.Fail("data-race:"+site, "free-running race pass", "no race report", clip(out.String()))
			} else if err != nil {
				t.Fail("harness-race-pass-failed", "free-running race pass", "exit 0", fmt.Sprint(err, clip(out.String())))
			}
		},
	}
}

func clip(s string) string {
	if len(s) > 3000 {
		return s[:3000]
	}
	return s
}

func lastLine(s string) string {
	ls := strings.Split(strings.TrimSpace(s), "\n")
	return ls[len(ls)-1]
}

// RacePass is the body of the -race binary.
func RacePass() int {
	s, err := newShared(true)
	if err != nil {
		fmt.Println("harness:", err)
		return 2
	}
	solo := soloResults(nil, s)
	var wg sync.WaitGroup
	bad := make(chan string, 1000)
	for g := 0; g < 16; g++ {
		wg.Add(1)
		go func(g int) {
			defer wg.Done()
			for r := 0; r < 40; r++ {
				for k := range ops {
					oi := (k + g + r) % len(ops)
					if got := ops[oi].run(s, pointGetter{m: s.ents}); got != solo[oi] {
						select {
						case bad <- ops[oi].name:
						default:
						}
					}
				}
			}
		}(g)
	}
	wg.Wait()
	close(bad)
	for b := range bad {
		fmt.Println("RESULT-DIFFERS", b)
		return 1
	}
	fmt.Printf("race pass: 16 goroutines x 40 rounds x %d operations, no race report, all results equal the solo results\n", len(ops))
	return 0
}

// source scan: the library itself has no goroutines / synchronisation / clocks / random sources.
func scanFamily() *core.Family {
	return &core.Family{
		Name: "source-scan",
		Desc: "non-test sources of the repository scanned for go statements, sync / atomic / math/rand imports, time.Now, channels (the decomposition `a write to shared state during a read-only call is a race` relies on their absence; reported, never a verdict)",
		N:    1,
		Run: func(t *core.T, i int64) {
			repo := os.Getenv("VERIF_REPO")
			if repo == "" {
				repo = "/repo"
			}
			re := regexp.MustCompile(`(^|\s)go\s+(func\b|[A-Za-z_][\w.]*\()|"sync"|"sync/atomic"|"math/rand|time\.Now\(|\bchan\b`)
			var hits []string
			filepath.Walk(repo, func(p string, info os.FileInfo, err error) error {
				if err != nil || info.IsDir() || !strings.HasSuffix(p, ".go") || strings.HasSuffix(p, "_test.go") || strings.Contains(p, "/internal/testutil") || strings.Contains(p, "/.git/") {
					return nil
				}
				b, _ := os.ReadFile(p)
				for n, line := range strings.Split(string(b), "\n") {
					if strings.HasPrefix(strings.TrimSpace(line), "//") {
						continue
					}
					if re.MatchString(line) {
						hits = append(hits, fmt.Sprintf("%s:%d: %s", strings.TrimPrefix(p, repo+"/"), n+1, strings.TrimSpace(line)))
					}
				}
				return nil
			})
			t.Nontrivial()
			t.Obs(fmt.Sprintf("concurrency-primitives-in-library=%d", len(hits)))
			if len(hits) == 0 {
				t.Sample("no goroutines, synchronisation, clocks or random sources in the library's non-test sources")
			} else {
				t.Sample(fmt.Sprintf("assumption weakened: %d uses of concurrency primitives / clocks: %v", len(hits), hits))
			}
		},
	}
}

func Check() *core.Check {
	return &core.Check{
		ID:    "C19",
		Title: "Shared policies and entities: race-free concurrent reads, inputs never mutated",
		Rule: "stateless exploration of thread interleavings under a cooperative scheduler (virtual threads = real goroutines run one at a time; scheduling points = harness seams and, through the overlay, every function entry of the library) with a preemption bound; per-thread oracle: each read-only operation returns exactly its solo result; invariant: the deep digest (unexported fields and pointers followed) of the shared policy set, entity map, request, values, ASTs and of EVERY package-level variable of every library package is unchanged — evaluated at every scheduling point of the unpreempted executions and at every context switch of the others; the same bodies also run free under the race detector; " +
			"a configuration is non-trivial if more than one schedule was explored",
		Assumptions: []string{
			"the library has no synchronisation of its own (source scan reported in the evidence), so a write to shared state during a read-only call is a data race as soon as two calls overlap",
			"hardware memory-model effects and races that neither change a value at a scheduling point nor show up in the free-running pass are out of reach",
		},
		Families: func(tier string) []*core.Family {
			if tier == "thorough" {
				return []*core.Family{scanFamily(), immutabilityFamily(), largeInputsFamily(), scheduleFamily(2, false, true), raceFamily(), scheduleFamily(1, true, true)}
			}
			return []*core.Family{scanFamily(), immutabilityFamily(), largeInputsFamily(), scheduleFamily(2, false, false), raceFamily()}
		},
	}
}
