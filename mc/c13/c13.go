// Package c13: entity, value and request JSON round-trip without loss (E1).
package c13

import (
	"bytes"
	"encoding/json"
	"fmt"
	"strings"
	"time"
	"unicode/utf8"

	"github.com/cedar-policy/cedar-go/types"
	"github.com/cedar-policy/cedar-go/verif/core"
	"github.com/cedar-policy/cedar-go/verif/gen"
	. "github.com/cedar-policy/cedar-go/verif/refsem"
	"github.com/cedar-policy/cedar-go/x/exp/schema"
	"github.com/cedar-policy/cedar-go/x/exp/schema/resolved"
	exptypes "github.com/cedar-policy/cedar-go/x/exp/types"
)

var leaves = []Val{
	Bool(true), Bool(false), Long(gen.MinI), Long(-1), Long(0), Long(1), Long(gen.MaxI),
	Str(""), Str("a"), Str("é\"\\\n\t"), Str("__entity"), Str("<>&  \x00\x7f"), Str("😀"),
	Entity("U", "a"), Entity("NS::T", "x\"y\n"), Entity("", ""),
	Decimal(gen.MinI), Decimal(-1), Decimal(0), Decimal(12345), Decimal(gen.MaxI),
	IP4(1, 2, 3, 4, 32), IP4(10, 0, 0, 0, 8), IP6([16]byte{15: 1}, 128), IP6([16]byte{0: 0x20, 1: 1, 2: 0xd, 3: 0xb8}, 32),
	Datetime(gen.MinI + gen.Day), Datetime(-1), Datetime(0), Datetime(gen.MaxI),
	Duration(gen.MinI), Duration(-1), Duration(0), Duration(gen.MaxI),
	Set(), Rec(),
}

var keys = []string{"a", "", "__entity", "__extn", "type", "id", "fn", "arg", "é\n\"", "Value"}

// depth-1 composites
func depth1() []Val {
	var out []Val
	for i, a := range leaves {
		out = append(out, Set(a))
		for _, b := range leaves[i+1:] {
			out = append(out, Set(a, b))
		}
	}
	for _, k := range keys {
		for _, a := range leaves {
			out = append(out, Rec(KV{k, a}))
		}
	}
	// the escape shapes
	out = append(out,
		Rec(KV{"type", Str("U")}, KV{"id", Str("a")}),
		Rec(KV{"type", Str("U")}, KV{"id", Long(1)}),
		Rec(KV{"type", Str("U")}),
		Rec(KV{"fn", Str("decimal")}, KV{"arg", Str("1.0")}),
		Rec(KV{"fn", Str("decimal")}, KV{"arg", Str("x")}),
		Rec(KV{"type", Str("U")}, KV{"id", Str("a")}, KV{"x", Long(1)}),
	)
	return out
}

// ambiguityClass: records whose JSON collides with the entity / extension escapes of the
// Cedar JSON value format: a record with key `__entity` or `__extn` whose value is itself
// encoded as a JSON object (a record, an entity or an extension value).
func ambiguityClass(v Val) string {
	objectEncoded := func(x Val) bool {
		switch x.K {
		case KRecord, KEntity, KDecimal, KIP, KDatetime, KDuration:
			return true
		}
		return false
	}
	if v.K == KRecord {
		if inner, ok := v.Get("__entity"); ok && objectEncoded(inner) {
			return "record-with-__entity-key-holding-an-object"
		}
		if inner, ok := v.Get("__extn"); ok && objectEncoded(inner) {
			return "record-with-__extn-key-holding-an-object"
		}
		for _, x := range v.Vals {
			if c := ambiguityClass(x); c != "" {
				return c
			}
		}
	}
	if v.K == KSet {
		for _, x := range v.Elems {
			if c := ambiguityClass(x); c != "" {
				return c
			}
		}
	}
	return ""
}

func checkValue(t *core.T, v Val) {
	impl := v.ToImpl()
	in := v.Key()
	js, err := json.Marshal(impl)
	if err != nil {
		t.Fail("value-marshal-error:"+v.K.String(), in, "encodes", err.Error())
		return
	}
	if !utf8.Valid(js) || !json.Valid(js) {
		t.Fail("value-marshal-invalid-json:"+v.K.String(), in, "valid JSON", string(js))
		return
	}
	sig := v.K.String()
	if c := ambiguityClass(v); c != "" {
		sig = c
	}
	var back types.Value
	if t.Protect("value-unmarshal:"+sig, string(js), func() { err = core.Scribbled(js, func(b []byte) error { return types.UnmarshalJSON(b, &back) }) }) {
		return
	}
	if err != nil {
		t.Fail("value-json-does-not-decode:"+sig, in+" => "+string(js), "decodes", err.Error())
		return
	}
	rv, cerr := FromImpl(back)
	if cerr != nil || !rv.Equal(v) || !back.Equal(impl) || !impl.Equal(back) {
		t.Fail("value-json-roundtrip:"+sig, in+" => "+string(js), in, fmt.Sprint(rv.Key(), cerr))
		return
	}
	js2, err := json.Marshal(back)
	if err != nil || !bytes.Equal(js, js2) {
		t.Fail("value-json-not-stable:"+sig, in, string(js), fmt.Sprint(string(js2), err))
	}
	// the same JSON document in other spellings (indented, members reversed, escaped member names)
	if alts, err := core.JSONSpellings(js); err != nil {
		t.Fail("harness-json-spelling", string(js), "valid JSON", err.Error())
	} else {
		for k, a := range alts {
			var alt types.Value
			// encoding/json hands a decoder the value without the surrounding white space; the
			// direct call is given the same (types.UnmarshalJSON dispatches on the first byte)
			a = strings.TrimSpace(a)
			if err := types.UnmarshalJSON([]byte(a), &alt); err != nil {
				t.Fail(fmt.Sprintf("value-json-spelling-rejected:%d:%s", k, sig), a, "decodes like "+string(js), err.Error())
			} else if !alt.Equal(back) || !back.Equal(alt) {
				t.Fail(fmt.Sprintf("value-json-spelling-decodes-differently:%d:%s", k, sig), a, in, fmt.Sprint(alt))
			}
		}
	}
	// the typed decoder of the value's own type accepts the encoding too
	switch v.K {
	case KSet:
		var s types.Set
		if err := json.Unmarshal(js, &s); err != nil || !s.Equal(impl) {
			t.Fail("Set.UnmarshalJSON:"+sig, string(js), in, fmt.Sprint(err))
		}
	case KRecord:
		var r types.Record
		if err := json.Unmarshal(js, &r); err != nil || !r.Equal(impl) {
			t.Fail("Record.UnmarshalJSON:"+sig, string(js), in, fmt.Sprint(err))
		}
	case KEntity:
		var e types.EntityUID
		if err := json.Unmarshal(js, &e); err != nil || !e.Equal(impl) {
			t.Fail("EntityUID.UnmarshalJSON:"+sig, string(js), in, fmt.Sprint(err))
		}
	}
	t.AddStates(1)
	t.AddTrans(2)
}

func valueFamily() *core.Family {
	d1 := depth1()
	// depth 2: every depth-1 composite wrapped in a set and in a record, and pairs of a subset
	var all []Val
	all = append(all, leaves...)
	all = append(all, d1...)
	for _, c := range d1 {
		all = append(all, Set(c), Rec(KV{"k", c}), Rec(KV{"__entity", c}), Set(c, Long(1)))
	}
	return &core.Family{
		Name: "values-depth2",
		Desc: fmt.Sprintf("%d values: %d leaves (longs at the limits, every extension type at its limits, strings JSON escapes, entities), every set of <=2 leaves, every 1-key record over %d keys (incl. __entity, __extn, type, id, fn, arg), each again inside a set and a record", len(all), len(leaves), len(keys)),
		N:    int64(len(all)),
		Run: func(t *core.T, i int64) {
			checkValue(t, all[i])
			t.Nontrivial()
			t.SampleF(all[i].Key)
		},
	}
}

// scalar grids: the extension values whose text form goes through a calendar, a unit
// table or a prefix rule, at the points where those rules change (leap days of every
// kind of year, month ends, unit maxima, every prefix length); each alone, in a set and
// as a record member.
func scalarGrids() *core.Family {
	var vals []Val
	for _, y := range []int64{-400, -100, -4, -1, 0, 1, 4, 100, 400, 1600, 1900, 1972, 2000, 2023, 2024, 2100, 2400, 9999, 10000, 12000} {
		for _, md := range [][2]int{{1, 1}, {2, 28}, {2, 29}, {3, 1}, {12, 31}} {
			if md == [2]int{2, 29} && !((y%4 == 0 && y%100 != 0) || y%400 == 0) {
				continue
			}
			day := DaysFromCivil(y, md[0], md[1])
			for _, tod := range []int64{0, 45000000, 86399999} {
				vals = append(vals, Datetime(day*86400000+tod))
			}
		}
	}
	for _, u := range []int64{86400000, 3600000, 60000, 1000, 1} {
		for _, k := range []int64{1, 59, 106751991167, 9223372036854775807 / u} {
			if k <= 9223372036854775807/u {
				vals = append(vals, Duration(k*u), Duration(-k*u), Duration(k*u-1))
			}
		}
	}
	for p := 0; p <= 128; p++ {
		vals = append(vals, IP6([16]byte{0: 0x20, 1: 0x01, 2: 0x0d, 3: 0xb8, 15: 1}, p))
		if p <= 32 {
			vals = append(vals, IP4(10, 1, 2, 3, p))
		}
	}
	for _, d := range []int64{0, 1, -1, 9, 10, 99, 100, 999, 1000, 9999, 10000, 10001, -10000, 123456789, 9223372036854775807, -9223372036854775808} {
		vals = append(vals, Decimal(d))
	}
	return &core.Family{
		Name: "scalar-grids",
		Desc: fmt.Sprintf("%d extension values at the points where their text rules change (leap days and month ends of 20 years incl. century / 400-year / year-0 / negative / 5-digit years, unit maxima of durations, every ip prefix length, decimals with every number of fraction digits): alone, in a set, as a record member", len(vals)),
		N:    int64(len(vals)),
		Run: func(t *core.T, i int64) {
			v := vals[i]
			checkValue(t, v)
			checkValue(t, Set(v, Long(1)))
			checkValue(t, Rec(KV{K: "k", V: v}))
			t.Nontrivial()
			t.SampleF(v.Key)
		},
	}
}

func scalarFamily(lo, hi rune) *core.Family {
	const block = 512
	n := (int64(hi-lo) + block) / block
	return &core.Family{
		Name: fmt.Sprintf("strings-and-keys-U+%04X-%04X", lo, hi),
		Desc: fmt.Sprintf("every Unicode scalar value U+%04X..U+%04X as a string value, a record key, an entity id and an entity type character, alone and next to a quote", lo, hi),
		N:    n,
		Run: func(t *core.T, i int64) {
			for r := lo + rune(i*block); r < lo+rune((i+1)*block) && r <= hi; r++ {
				if !utf8.ValidRune(r) {
					continue
				}
				c := string(r)
				checkValue(t, Rec(KV{c, Str(c)}, KV{"\"" + c, Entity("T"+c, c+"\\")}, KV{"s", Set(Str(c), Str(c+c))}))
			}
			t.Nontrivial()
			t.SampleF(func() string { return fmt.Sprintf("block U+%04X", lo+rune(i*block)) })
		},
	}
}

// ---------------------------------------------------------------------------
// entities, entity maps, requests, diagnostics

func uid(t, id string) types.EntityUID {
	return types.NewEntityUID(types.EntityType(t), types.String(id))
}

var parentPool = []types.EntityUID{uid("G", "g1"), uid("G", "g\"2"), uid("NS::H", "")}
var recPool = []Val{Rec(), Rec(KV{"a", Long(1)}), Rec(KV{"d", Decimal(12345)}, KV{"e", Entity("G", "g1")}, KV{"s", Set(Long(1), Str("x"))}, KV{"r", Rec(KV{"ip", IP4(10, 0, 0, 0, 8)})}), Rec(KV{"", Datetime(-1)}, KV{"é", Duration(gen.MinI)})}

func mkEntity(i int) types.Entity {
	x := i
	var ps []types.EntityUID
	for k := 0; k < 3; k++ {
		if x&1 == 1 {
			ps = append(ps, parentPool[k])
		}
		x >>= 1
	}
	attrs := recPool[x%len(recPool)]
	x /= len(recPool)
	tags := recPool[x%len(recPool)]
	x /= len(recPool)
	ids := []types.EntityUID{uid("U", "alice"), uid("NS::U", "b\"ob\n"), uid("U", "")}
	return types.Entity{UID: ids[x%len(ids)], Parents: types.NewEntityUIDSet(ps...), Attributes: attrs.ToImpl().(types.Record), Tags: tags.ToImpl().(types.Record)}
}

const nEntities = 8 * 4 * 4 * 3

func entityFamily() *core.Family {
	return &core.Family{
		Name: "entities",
		Desc: fmt.Sprintf("%d entities: every subset of 3 parents x 4 attribute records x 4 tag records x 3 uids: Entity JSON round trip (Equal, parents/attrs/tags), byte stability", nEntities),
		N:    nEntities,
		Run: func(t *core.T, i int64) {
			e := mkEntity(int(i))
			js, err := json.Marshal(e)
			if err != nil {
				t.Fail("entity-marshal-error", fmt.Sprint(e), "encodes", err.Error())
				return
			}
			var back types.Entity
			if err := core.Scribbled(js, func(b []byte) error { return json.Unmarshal(b, &back) }); err != nil {
				t.Fail("entity-json-does-not-decode", string(js), "decodes", err.Error())
				return
			}
			if !back.Equal(e) || !e.Equal(back) || back.Parents.Len() != e.Parents.Len() {
				t.Fail("entity-json-roundtrip", string(js), fmt.Sprint(e), fmt.Sprint(back))
			}
			js2, _ := json.Marshal(back)
			if !bytes.Equal(js, js2) {
				t.Fail("entity-json-not-stable", fmt.Sprint(e), string(js), string(js2))
			}
			if alts, err := core.JSONSpellings(js); err != nil {
				t.Fail("harness-json-spelling", string(js), "valid JSON", err.Error())
			} else {
				for k, a := range alts {
					var alt types.Entity
					if err := json.Unmarshal([]byte(a), &alt); err != nil {
						t.Fail(fmt.Sprintf("entity-json-spelling-rejected:%d", k), a, "decodes like "+string(js), err.Error())
					} else if !alt.Equal(e) || !e.Equal(alt) {
						t.Fail(fmt.Sprintf("entity-json-spelling-decodes-differently:%d", k), a, fmt.Sprint(e), fmt.Sprint(alt))
					}
				}
			}
			t.Nontrivial()
			t.Sample(string(js))
		},
	}
}

func entityMapFamily() *core.Family {
	// entity maps of <=3 entities with distinct uids (one per uid class), all orders of insertion are the same map
	per := nEntities / 3
	return &core.Family{
		Name: "entity-maps",
		Desc: "entity maps of 0..3 entities (distinct uids): EntityMap JSON round trip, byte stability, every entity Equal",
		N:    int64(1 + per + per + per),
		Run: func(t *core.T, i int64) {
			em := types.EntityMap{}
			if i > 0 {
				k := int(i-1) % per
				n := int(i-1)/per + 1
				for j := 0; j < n; j++ {
					e := mkEntity((k*7+j*13)%per + j*per)
					em[e.UID] = e
				}
			}
			js, err := json.Marshal(em)
			if err != nil {
				t.Fail("entitymap-marshal-error", "", "encodes", err.Error())
				return
			}
			var back types.EntityMap
			if err := json.Unmarshal(js, &back); err != nil {
				t.Fail("entitymap-json-does-not-decode", string(js), "decodes", err.Error())
				return
			}
			if len(back) != len(em) {
				t.Fail("entitymap-json-roundtrip-size", string(js), fmt.Sprint(len(em)), fmt.Sprint(len(back)))
			}
			for id, e := range em {
				if b, ok := back[id]; !ok || !b.Equal(e) {
					t.Fail("entitymap-json-roundtrip", string(js), fmt.Sprint(e), fmt.Sprint(b, ok))
				}
			}
			js2, _ := json.Marshal(back)
			if !bytes.Equal(js, js2) {
				t.Fail("entitymap-json-not-stable", "", string(js), string(js2))
			}
			t.Nontrivial()
			t.Sample(string(js))
		},
	}
}

// sizes: entity maps of n entities, entities with n parents / n attributes / n tags, for n
// across the usual growth thresholds; ids shared across types (A::"e7", B::"e7") and ids
// that sort differently as text and as numbers (e2 < e10 numerically, "e10" < "e2" as text).
func sizedEntities() *core.Family {
	sizes := []int{0, 1, 2, 7, 8, 9, 10, 11, 16, 17, 31, 32, 33, 63, 64, 65, 100, 128, 129}
	return &core.Family{
		Name: "entity-sizes",
		Desc: fmt.Sprintf("entity maps of n entities (ids e0..e(n-1) under two types) and entities with n parents, n attributes and n tags, for n in %v: JSON round trip equal, encoding byte-stable, owned by the caller, decoding into a used map entry", sizes),
		N:    int64(len(sizes)),
		Run: func(t *core.T, i int64) {
			n := sizes[i]
			em := types.EntityMap{}
			var parents []types.EntityUID
			attrs, tags := types.RecordMap{}, types.RecordMap{}
			for k := 0; k < n; k++ {
				parents = append(parents, types.NewEntityUID([]types.EntityType{"G", "H"}[k%2], types.String(fmt.Sprintf("p%d", k/2))))
				attrs[types.String(fmt.Sprintf("a%d", k))] = types.Long(int64(k))
				tags[types.String(fmt.Sprintf("t%d", k))] = types.NewSet(types.Long(int64(k)), types.String("x"))
			}
			big := types.Entity{UID: types.NewEntityUID("A", "big"), Parents: types.NewEntityUIDSet(parents...), Attributes: types.NewRecord(attrs), Tags: types.NewRecord(tags)}
			em[big.UID] = big
			for k := 0; k < n; k++ {
				u := types.NewEntityUID([]types.EntityType{"A", "B"}[k%2], types.String(fmt.Sprintf("e%d", k/2)))
				em[u] = types.Entity{UID: u, Parents: types.NewEntityUIDSet(big.UID), Attributes: types.NewRecord(types.RecordMap{"k": types.Long(int64(k))})}
			}
			js, err := json.Marshal(em)
			if err != nil {
				t.Fail("entitymap-marshal-error:sizes", fmt.Sprint(n), "encodes", err.Error())
				return
			}
			keep := string(js)
			var back types.EntityMap
			if err := json.Unmarshal(js, &back); err != nil {
				t.Fail("entitymap-json-does-not-decode:sizes", keep, "decodes", err.Error())
				return
			}
			if len(back) != len(em) {
				t.Fail("entitymap-json-roundtrip-size:sizes", fmt.Sprint(n), fmt.Sprint(len(em)), fmt.Sprint(len(back)))
			}
			for id, e := range em {
				if b, ok := back[id]; !ok || !b.Equal(e) || b.Parents.Len() != e.Parents.Len() || b.Attributes.Len() != e.Attributes.Len() || b.Tags.Len() != e.Tags.Len() {
					t.Fail("entitymap-json-roundtrip:sizes", fmt.Sprintf("n=%d entity %v", n, id), fmt.Sprint(e), fmt.Sprint(b, ok))
					break
				}
			}
			for k := range js {
				js[k] = '#'
			}
			js2, _ := json.Marshal(back)
			js3, _ := json.Marshal(em)
			if string(js2) != keep || string(js3) != keep {
				t.Fail("entitymap-json-not-stable:sizes", fmt.Sprint(n), keep, string(js2))
			}
			one, _ := json.Marshal(big)
			var bigBack types.Entity
			if err := json.Unmarshal(one, &bigBack); err != nil || !bigBack.Equal(big) {
				t.Fail("entity-json-roundtrip:sizes", fmt.Sprint(n), "equal", fmt.Sprint(err))
			}
			t.Nontrivial()
			t.AddStates(1)
			t.Sample(fmt.Sprintf("n=%d", n))
		},
	}
}

func requestFamily() *core.Family {
	pos := []types.Position{{}, {Filename: "f \"x\".cedar", Offset: 12, Line: 3, Column: 4}}
	return &core.Family{
		Name: "requests-decisions-diagnostics",
		Desc: "requests over 3 uids x 4 contexts; both decisions; diagnostics with 0..2 reasons and errors (positions, messages with JSON escapes)",
		N:    int64(3*len(recPool) + 2 + 9),
		Run: func(t *core.T, i int64) {
			t.Nontrivial()
			switch {
			case int(i) < 3*len(recPool):
				e := mkEntity(int(i) * 8 * 16 / len(recPool) % nEntities)
				r := types.Request{Principal: e.UID, Action: uid("Action", "v\"iew"), Resource: parentPool[int(i)%3], Context: recPool[int(i)%len(recPool)].ToImpl().(types.Record)}
				js, err := json.Marshal(r)
				var back types.Request
				if err == nil {
					err = json.Unmarshal(js, &back)
				}
				if err != nil || !back.Equal(r) {
					t.Fail("request-json-roundtrip", string(js), fmt.Sprint(r), fmt.Sprint(back, err))
				}
				t.Sample(string(js))
			case int(i) < 3*len(recPool)+2:
				d := types.Decision(int(i)%2 == 0)
				js, err := json.Marshal(d)
				var back types.Decision
				if err == nil {
					err = json.Unmarshal(js, &back)
				}
				if err != nil || back != d {
					t.Fail("decision-json-roundtrip", string(js), fmt.Sprint(d), fmt.Sprint(back, err))
				}
				t.Sample(string(js))
			default:
				k := int(i) - 3*len(recPool) - 2
				var d types.Diagnostic
				for j := 0; j < k%3; j++ {
					d.Reasons = append(d.Reasons, types.DiagnosticReason{PolicyID: types.PolicyID(fmt.Sprintf("p\"%d", j)), Position: pos[j%2]})
				}
				for j := 0; j < k/3; j++ {
					d.Errors = append(d.Errors, types.DiagnosticError{PolicyID: types.PolicyID(fmt.Sprintf("e%d", j)), Position: pos[(j+1)%2], Message: "bad \"thing\"\n<é>"})
				}
				js, err := json.Marshal(d)
				var back types.Diagnostic
				if err == nil {
					err = json.Unmarshal(js, &back)
				}
				if err != nil || fmt.Sprint(back) != fmt.Sprint(d) {
					t.Fail("diagnostic-json-roundtrip", string(js), fmt.Sprint(d), fmt.Sprint(back, err))
				}
				t.Sample(string(js))
			}
		},
	}
}

// ---------------------------------------------------------------------------
// spellings

const schemaText = `
entity G;
entity U in [G] {
  d: decimal, ip: ipaddr, dt: datetime, du: duration, e: G, n: Long, str: String,
  s: Set<decimal>, es: Set<G>, r: { d: decimal, e: G, rs: Set<ipaddr> }, opt?: datetime
} tags decimal;
entity T tags ipaddr;
entity TE tags G;
action view appliesTo { principal: U, resource: G };
`

var resolvedSchema *resolved.Schema
var schemaErr error

func initSchema() {
	defer func() {
		if r := recover(); r != nil {
			schemaErr = fmt.Errorf("panic: %v", r)
		}
	}()
	var s schema.Schema
	if err := s.UnmarshalCedar([]byte(schemaText)); err != nil {
		schemaErr = err
		return
	}
	r, err := s.Resolve()
	if err != nil {
		schemaErr = err
		return
	}
	resolvedSchema = r
}

// spelling alternatives of one datum: 0 explicit escape, 1 implicit object, 2 bare string (extensions only)
func spellEntity(k int, t, id string) string {
	switch k {
	case 0:
		return fmt.Sprintf(`{"__entity":{"type":%q,"id":%q}}`, t, id)
	default:
		return fmt.Sprintf(`{"type":%q,"id":%q}`, t, id)
	}
}

func spellExt(k int, fn, arg string) string {
	switch k {
	case 0:
		return fmt.Sprintf(`{"__extn":{"fn":%q,"arg":%q}}`, fn, arg)
	case 1:
		return fmt.Sprintf(`{"fn":%q,"arg":%q}`, fn, arg)
	default:
		return fmt.Sprintf("%q", arg)
	}
}

func spellingFamily() *core.Family {
	// 11 spelling slots in one entity document; each slot has 2 (entity) or 3 (extension) spellings.
	// All combinations with at most 2 slots deviating from the explicit spelling + the all-implicit / all-bare ones.
	type slot struct{ n int }
	slots := []int{3, 3, 3, 3, 2, 3, 2, 3, 2, 3, 2, 2, 3, 3, 3, 2} // d ip dt du e s[0] es[0] r.d r.e r.rs[0] uid parent tag s[1] T.tag TE.tag (entities without attributes)
	var combos [][]int
	base := make([]int, len(slots))
	combos = append(combos, append([]int{}, base...))
	for a := range slots {
		for ka := 1; ka < slots[a]; ka++ {
			c := append([]int{}, base...)
			c[a] = ka
			combos = append(combos, c)
			for b := a + 1; b < len(slots); b++ {
				for kb := 1; kb < slots[b]; kb++ {
					c2 := append([]int{}, c...)
					c2[b] = kb
					combos = append(combos, c2)
				}
			}
		}
	}
	all2 := make([]int, len(slots))
	for i, n := range slots {
		all2[i] = n - 1
	}
	combos = append(combos, all2)
	doc := func(c []int) string {
		return fmt.Sprintf(`[{"uid":%s,"parents":[%s],"attrs":{"d":%s,"ip":%s,"dt":%s,"du":%s,"e":%s,"n":1,"str":"x","s":[%s,%s],"es":[%s],"r":{"d":%s,"e":%s,"rs":[%s]}},"tags":{"t":%s}},{"uid":{"type":"G","id":"g1"},"parents":[],"attrs":{},"tags":{}},{"uid":{"type":"T","id":"t1"},"parents":[],"attrs":{},"tags":{"k":%s}},{"uid":{"type":"TE","id":"te1"},"parents":[],"attrs":{},"tags":{"k":%s}}]`,
			spellEntity(c[10], "U", "alice"), spellEntity(c[11], "G", "g1"),
			spellExt(c[0], "decimal", "1.5"), spellExt(c[1], "ip", "10.0.0.0/8"), spellExt(c[2], "datetime", "2024-01-01T00:00:00.000Z"), spellExt(c[3], "duration", "1h"),
			spellEntity(c[4], "G", "g1"), spellExt(c[5], "decimal", "2.5"), spellExt(c[13], "decimal", "3.5"), spellEntity(c[6], "G", "g1"),
			spellExt(c[7], "decimal", "-0.0001"), spellEntity(c[8], "G", "g1"), spellExt(c[9], "ip", "::1"), spellExt(c[12], "decimal", "9.0"),
			spellExt(c[14], "ip", "192.168.0.1"), spellEntity(c[15], "G", "g1"))
	}
	var want exptypes.EntityMap
	return &core.Family{
		Name:   "spellings-with-schema",
		Desc:   fmt.Sprintf("one entity document with 16 spelling slots (uid, parent, 4 extension attributes, entity attribute, set members, nested record members, tag, extension- and entity-typed tags of entities without attributes): every combination with <=2 slots deviating from the explicit __entity/__extn escapes to the implicit {type,id} / {fn,arg} / bare-string forms, plus all-implicit/bare (%d documents): UnmarshalJSONWithSchema decodes all of them to equal entity maps", len(combos)),
		N:      int64(len(combos)),
		Serial: true,
		Run: func(t *core.T, i int64) {
			if resolvedSchema == nil {
				t.Fail("harness-schema-does-not-resolve", schemaText, "resolves", fmt.Sprint(schemaErr))
				return
			}
			d := doc(combos[i])
			var em exptypes.EntityMap
			var err error
			if t.Protect("UnmarshalJSONWithSchema", d, func() { err = em.UnmarshalJSONWithSchema([]byte(d), resolvedSchema) }) {
				return
			}
			t.Nontrivial()
			t.Sample(d)
			if err != nil {
				// the implicit {fn,arg} object (spelling 1 of an extension slot) is not among the forms
				// schema-guided coercion documents (implicit {type,id} entities and bare strings): it may
				// be rejected; every other spelling must be accepted
				for si, k := range combos[i] {
					if k == 1 && slots[si] == 3 {
						return
					}
				}
				t.Fail(fmt.Sprintf("spelling-rejected:%v", diffSlots(combos[i])), d, "decodes (schema-guided)", err.Error())
				return
			}
			if i == 0 {
				want = em
				// and the explicit document decodes without a schema to the same thing
				var plain types.EntityMap
				if err := json.Unmarshal([]byte(d), &plain); err != nil {
					t.Fail("explicit-spelling-rejected-without-schema", d, "decodes", err.Error())
				} else {
					for id, e := range plain {
						if !types.Entity(em[id]).Equal(e) {
							t.Fail("schema-guided-differs-from-plain", d, fmt.Sprint(e), fmt.Sprint(em[id]))
						}
					}
				}
				return
			}
			if len(em) != len(want) {
				t.Fail(fmt.Sprintf("spelling-differs:%v", combos[i]), d, fmt.Sprint(len(want)), fmt.Sprint(len(em)))
			}
			for id, e := range want {
				if !types.Entity(em[id]).Equal(e) {
					t.Fail(fmt.Sprintf("spelling-differs:%v", diffSlots(combos[i])), d, fmt.Sprint(e), fmt.Sprint(em[id]))
				}
			}
		},
	}
}

func diffSlots(c []int) string {
	names := []string{"d", "ip", "dt", "du", "e", "s[0]", "es[0]", "r.d", "r.e", "r.rs[0]", "uid", "parent", "tag", "s[1]", "T.tag(no attrs)", "TE.tag(no attrs)"}
	var out []string
	for i, k := range c {
		if k > 0 {
			out = append(out, fmt.Sprintf("%s=%d", names[i], k))
		}
	}
	return strings.Join(out, ",")
}

// typed decoders: every spelling of an extension value / entity uid decodes to the same value.
// decode into used receivers: a decode target that already holds a value (a reused
// variable, a slice element, an entity reused in a loop) must end up exactly as a fresh one.
func UsedReceivers() *core.Family {
	// the last three are invalid half way through: a failed decode must not leave anything behind
	// that a later successful decode into the same variable shows
	docs := []string{`{}`, `{"a":1}`, `{"b":{"__extn":{"fn":"decimal","arg":"1.5"}},"c":[1,2]}`, `[]`, `[1]`, `[true,"x",[2]]`,
		`{"z":1,"y":{"__extn":{"fn":"nope","arg":"x"}}}`, `[7,8,{"__entity":{"type":1}}]`, `{"q":[1,2,9223372036854775808]}`}
	entDocs := []string{
		`{"uid":{"type":"U","id":"a"},"parents":[],"attrs":{},"tags":{}}`,
		`{"uid":{"type":"U","id":"b"},"parents":[{"type":"G","id":"g"}],"attrs":{"k":1},"tags":{"t":"x"}}`,
		`{"uid":{"type":"G","id":"g"},"parents":[],"attrs":{"admin":true},"tags":{}}`,
		`{"uid":{"type":"G","id":"h"},"parents":[{"type":"G","id":"g"},{"type":"G","id":"i"}],"attrs":{},"tags":{"t":1,"u":2}}`,
	}
	// every document names all four members: Entity is a plain struct for encoding/json, and a
	// member that is absent from a document is left as it was in a used struct (Go semantics)
	n := len(docs)*len(docs) + len(entDocs)*len(entDocs)
	return &core.Family{
		Name: "decode-into-used-receivers",
		Desc: fmt.Sprintf("every ordered pair of %d value documents (empty and non-empty records and sets) decoded one after the other into the SAME Record / Set / Value variable, and every ordered pair of %d entity documents into the same Entity: the result equals decoding the second document into a fresh variable", len(docs), len(entDocs)),
		N:    int64(n),
		Run: func(t *core.T, i int64) {
			x := int(i)
			if x < len(docs)*len(docs) {
				first, second := docs[x/len(docs)], docs[x%len(docs)]
				in := fmt.Sprintf("decode %s, then %s into the same variable", first, second)
				{
					var used, fresh types.Record
					e1 := json.Unmarshal([]byte(first), &used)
					kept, keptS := used, used.String() // a copy of the first value, taken before the variable is reused
					e2 := json.Unmarshal([]byte(second), &used)
					if e1 == nil && kept.String() != keptS {
						t.Fail("used-receiver:Record:earlier-copy-changed", in, keptS, kept.String())
					}
					ef := json.Unmarshal([]byte(second), &fresh)
					if (e2 == nil) != (ef == nil) {
						t.Fail("used-receiver:Record:error-differs", in, fmt.Sprint(ef), fmt.Sprint(e2))
					} else if ef == nil && (!used.Equal(fresh) || used.Len() != fresh.Len() || used.String() != fresh.String()) {
						t.Fail("used-receiver:Record", in, fresh.String(), used.String())
					}
				}
				{
					var used, fresh types.Set
					e1 := json.Unmarshal([]byte(first), &used)
					kept, keptS := used, used.String() // a copy of the first value, taken before the variable is reused
					e2 := json.Unmarshal([]byte(second), &used)
					if e1 == nil && kept.String() != keptS {
						t.Fail("used-receiver:Set:earlier-copy-changed", in, keptS, kept.String())
					}
					ef := json.Unmarshal([]byte(second), &fresh)
					if (e2 == nil) != (ef == nil) {
						t.Fail("used-receiver:Set:error-differs", in, fmt.Sprint(ef), fmt.Sprint(e2))
					} else if ef == nil && (!used.Equal(fresh) || used.Len() != fresh.Len() || used.String() != fresh.String()) {
						t.Fail("used-receiver:Set", in, fresh.String(), used.String())
					}
				}
				{
					var used, fresh types.Value
					e1 := types.UnmarshalJSON([]byte(first), &used)
					kept, keptS := used, fmt.Sprint(used)
					e2 := types.UnmarshalJSON([]byte(second), &used)
					if e1 == nil && fmt.Sprint(kept) != keptS {
						t.Fail("used-receiver:Value:earlier-copy-changed", in, keptS, fmt.Sprint(kept))
					}
					ef := types.UnmarshalJSON([]byte(second), &fresh)
					if (e2 == nil) != (ef == nil) {
						t.Fail("used-receiver:Value:error-differs", in, fmt.Sprint(ef), fmt.Sprint(e2))
					} else if ef == nil && fresh != nil && (used == nil || !used.Equal(fresh)) {
						t.Fail("used-receiver:Value", in, fmt.Sprint(fresh), fmt.Sprint(used))
					}
				}
			} else {
				x -= len(docs) * len(docs)
				first, second := entDocs[x/len(entDocs)], entDocs[x%len(entDocs)]
				in := fmt.Sprintf("decode %s, then %s into the same Entity", first, second)
				var used, fresh types.Entity
				e1 := json.Unmarshal([]byte(first), &used)
				kept := used // a copy of the first entity (parents, attributes and tags by value)
				keptJ, _ := json.Marshal(kept)
				keptN := kept.Parents.Len()
				e2 := json.Unmarshal([]byte(second), &used)
				ef := json.Unmarshal([]byte(second), &fresh)
				if e1 != nil || e2 != nil || ef != nil {
					t.Fail("harness-entity-doc", in, "decodes", fmt.Sprint(e1, e2, ef))
					return
				}
				if j, _ := json.Marshal(kept); !bytes.Equal(j, keptJ) || kept.Parents.Len() != keptN {
					t.Fail("used-receiver:Entity:earlier-copy-changed", in, string(keptJ), string(j))
				}
				{
					// the parent set alone, as a variable of its own
					var us types.EntityUIDSet
					pj1, _ := json.Marshal(kept.Parents)
					pj2, _ := json.Marshal(fresh.Parents)
					if err := json.Unmarshal(pj1, &us); err != nil {
						t.Fail("harness-parents-doc", string(pj1), "decodes", err.Error())
					}
					k2, k2s := us, fmt.Sprint(us.Len(), us)
					if err := json.Unmarshal(pj2, &us); err != nil || !us.Equal(fresh.Parents) {
						t.Fail("used-receiver:EntityUIDSet", in, fmt.Sprint(fresh.Parents), fmt.Sprint(us, err))
					}
					if g := fmt.Sprint(k2.Len(), k2); g != k2s {
						t.Fail("used-receiver:EntityUIDSet:earlier-copy-changed", in, k2s, g)
					}
				}
				if !used.Equal(fresh) || used.Attributes.Len() != fresh.Attributes.Len() || used.Tags.Len() != fresh.Tags.Len() || used.Parents.Len() != fresh.Parents.Len() {
					t.Fail("used-receiver:Entity", in, fmt.Sprint(fresh), fmt.Sprint(used))
				}
			}
			t.Nontrivial()
			t.AddStates(1)
		},
	}
}

// member names of the escape objects spelled with JSON string escapes: "\u005f_extn" IS
// the key "__extn" (encoding/json resolves the escape), so the document is the same datum.
func escapedKeys() *core.Family {
	esc := func(s string, k int) string {
		// spell character k of s as a \uXXXX escape
		r := []rune(s)
		return string(r[:k]) + fmt.Sprintf("\\u%04x", r[k]) + string(r[k+1:])
	}
	type c struct{ plain, escaped string }
	var cases []c
	for k := 0; k < len("__extn"); k++ {
		cases = append(cases, c{`{"__extn":{"fn":"decimal","arg":"1.5"}}`, `{"` + esc("__extn", k) + `":{"fn":"decimal","arg":"1.5"}}`})
	}
	for k := 0; k < len("__entity"); k++ {
		cases = append(cases, c{`{"__entity":{"type":"U","id":"a"}}`, `{"` + esc("__entity", k) + `":{"type":"U","id":"a"}}`})
	}
	for _, key := range []string{"fn", "arg"} {
		cases = append(cases, c{`{"__extn":{"fn":"ip","arg":"10.0.0.1"}}`, strings.Replace(`{"__extn":{"fn":"ip","arg":"10.0.0.1"}}`, `"`+key+`"`, `"`+esc(key, 0)+`"`, 1)})
	}
	for _, key := range []string{"type", "id"} {
		cases = append(cases, c{`{"__entity":{"type":"U","id":"a"}}`, strings.Replace(`{"__entity":{"type":"U","id":"a"}}`, `"`+key+`"`, `"`+esc(key, 1)+`"`, 1)})
	}
	wrap := []string{`%s`, `[%s,1]`, `{"k":%s}`, `{"k":[{"j":%s}]}`}
	return &core.Family{
		Name: "escaped-member-names",
		Desc: fmt.Sprintf("%d spellings of the __extn / __entity escapes in which one character of a member name (__extn, __entity, fn, arg, type, id) is written as a JSON \\uXXXX escape, at top level and nested in a set, a record and a record in a set in a record: decodes to the same value as the plain spelling, as a value, as an entity attribute and as a request context member", len(cases)),
		N:    int64(len(cases) * len(wrap)),
		Run: func(t *core.T, i int64) {
			cs := cases[int(i)/len(wrap)]
			w := wrap[int(i)%len(wrap)]
			plain, escaped := fmt.Sprintf(w, cs.plain), fmt.Sprintf(w, cs.escaped)
			var vp, ve types.Value
			ep := types.UnmarshalJSON([]byte(plain), &vp)
			ee := types.UnmarshalJSON([]byte(escaped), &ve)
			if ep != nil {
				t.Fail("harness-plain-spelling-rejected", plain, "decodes", ep.Error())
				return
			}
			if ee != nil || !ve.Equal(vp) {
				t.Fail("escaped-member-name:value", escaped, fmt.Sprint(vp), fmt.Sprint(ve, ee))
			} else {
				// and the round trip of the escaped spelling is stable
				js, _ := json.Marshal(ve)
				var back types.Value
				if err := types.UnmarshalJSON(js, &back); err != nil || !back.Equal(ve) {
					t.Fail("escaped-member-name:second-roundtrip", escaped+" => "+string(js), fmt.Sprint(ve), fmt.Sprint(back, err))
				}
			}
			entDoc := func(v string) string {
				return `{"uid":{"type":"U","id":"a"},"parents":[],"attrs":{"x":` + v + `},"tags":{"t":` + v + `}}`
			}
			var entP, entE types.Entity
			if err := json.Unmarshal([]byte(entDoc(plain)), &entP); err == nil {
				if err := json.Unmarshal([]byte(entDoc(escaped)), &entE); err != nil || !entE.Equal(entP) {
					t.Fail("escaped-member-name:entity", entDoc(escaped), fmt.Sprint(entP), fmt.Sprint(entE, err))
				}
			}
			t.Nontrivial()
			t.AddStates(1)
			t.Sample(escaped)
		},
	}
}

func typedSpellings() *core.Family {
	type c struct {
		name string
		run  func(t *core.T)
	}
	var cases []c
	for _, a := range []struct{ fn, arg string }{{"decimal", "1.5"}, {"decimal", "-922337203685477.5808"}, {"ip", "10.0.0.0/8"}, {"ip", "::1"}, {"ip", "2001:db8::/32"}, {"ip", "1.2.3.4"}, {"datetime", "2024-01-01T00:00:00.000Z"}, {"datetime", "1969-12-31"}, {"duration", "1h"}, {"duration", "-1d2h3m4s5ms"}} {
		a := a
		cases = append(cases, c{a.fn + ":" + a.arg, func(t *core.T) {
			var keys []string
			var docs []string
			for k := 0; k < 3; k++ {
				js := spellExt(k, a.fn, a.arg)
				docs = append(docs, js)
				alts, err := core.JSONSpellings([]byte(js))
				if err != nil {
					t.Fail("harness-json-spelling", js, "valid JSON", err.Error())
				}
				docs = append(docs, alts...)
			}
			for _, js := range docs {
				var v types.Value
				var err error
				switch a.fn {
				case "decimal":
					var x types.Decimal
					err = json.Unmarshal([]byte(js), &x)
					v = x
				case "ip":
					var x types.IPAddr
					err = json.Unmarshal([]byte(js), &x)
					v = x
				case "datetime":
					var x types.Datetime
					err = json.Unmarshal([]byte(js), &x)
					v = x
				default:
					var x types.Duration
					err = json.Unmarshal([]byte(js), &x)
					v = x
				}
				if err != nil {
					t.Fail("typed-spelling-rejected:"+a.fn, js, "decodes", err.Error())
					continue
				}
				rv, _ := FromImpl(v)
				keys = append(keys, rv.Key())
			}
			for _, k := range keys {
				if k != keys[0] {
					t.Fail("typed-spellings-differ:"+a.fn, a.arg, keys[0], k)
				}
			}
			// wrong function name is rejected
			var d types.Decimal
			if err := json.Unmarshal([]byte(spellExt(0, "ip", "1.2.3.4")), &d); err == nil {
				t.Fail("typed-decoder-accepts-other-extension", "Decimal <- ip escape", "error", fmt.Sprint(d))
			}
		}})
	}
	cases = append(cases, c{"entityuid", func(t *core.T) {
		var a, b types.EntityUID
		e1 := json.Unmarshal([]byte(spellEntity(0, "NS::U", "a\"b")), &a)
		e2 := json.Unmarshal([]byte(spellEntity(1, "NS::U", "a\"b")), &b)
		if e1 != nil || e2 != nil || a != b || a != uid("NS::U", "a\"b") {
			t.Fail("entityuid-spellings-differ", "explicit vs implicit", fmt.Sprint(uid("NS::U", "a\"b")), fmt.Sprint(a, b, e1, e2))
		}
		for _, bad := range []string{`{"type":"U"}`, `{"id":"a"}`, `{}`, `"U::\"a\""`, `{"__entity":{"type":"U"}}`, `null`, `[]`, `{"__entity":null}`} {
			var x types.EntityUID
			err := json.Unmarshal([]byte(bad), &x)
			if err == nil && bad != `{"__entity":{"type":"U"}}` && bad != "null" {
				t.Fail("entityuid-accepts:"+bad, bad, "error", fmt.Sprint(x))
			}
		}
	}})
	cases = append(cases, c{"long-range", func(t *core.T) {
		for _, bad := range []string{"9223372036854775808", "-9223372036854775809", "1.5", "1e3", "18446744073709551615"} {
			var v types.Value
			if err := types.UnmarshalJSON([]byte(bad), &v); err == nil {
				t.Fail("value-json-accepts-non-long-number:"+bad, bad, "error", fmt.Sprint(v))
			}
			var r types.Record
			if err := json.Unmarshal([]byte(`{"a":[`+bad+`]}`), &r); err == nil {
				t.Fail("record-json-accepts-non-long-number:"+bad, bad, "error", fmt.Sprint(r))
			}
		}
	}})
	return &core.Family{
		Name: "typed-decoder-spellings",
		Desc: fmt.Sprintf("%d data: the explicit __extn escape, the implicit {fn,arg} object and the bare string decode to equal values in the typed decoders; explicit and implicit entity uids; incomplete forms rejected", len(cases)),
		N:    int64(len(cases)),
		Run: func(t *core.T, i int64) {
			cases[i].run(t)
			t.Nontrivial()
			t.Sample(cases[i].name)
		},
	}
}

func Check() *core.Check {
	return &core.Check{
		ID:        "C13",
		HangAfter: 120 * time.Second, // cases take at most seconds (max_case_s in the evidence); see core.Family.HangAfter
		Title:     "Entity, value and request JSON round-trip without loss",
		Rule: "bounded-exhaustive: values to depth 2 over a leaf universe (limits of every type, JSON-escape strings) with record keys incl. the escape keywords, every Unicode scalar as string / key / entity id, entities over every parent subset x attrs x tags, entity maps, requests, decisions, diagnostics: decode(encode(x)) equals x with the same type, encoding byte-stable; every combination of <=2 deviating spellings (explicit escape / implicit object / bare string) in a schema-typed entity document decodes to equal entities; " +
			"every executed case is non-trivial (distinct datum)",
		Assumptions: []string{"strings that are not valid UTF-8 are outside the domain (JSON cannot carry them)", "datetimes in the first representable day are excluded here (recorded under C12)"},
		Families: func(tier string) []*core.Family {
			initSchema()
			fams := []*core.Family{valueFamily(), scalarGrids(), entityFamily(), entityMapFamily(), sizedEntities(), requestFamily(), typedSpellings(), spellingFamily(), UsedReceivers(), escapedKeys()}
			if tier == "thorough" {
				return append(fams, scalarFamily(0, 0x10FFFF))
			}
			return append(fams, scalarFamily(0, 0xFFFF), scalarFamily(0x1F000, 0x1FFFF), scalarFamily(0xE0000, 0xE01FF), scalarFamily(0x10FF00, 0x10FFFF))
		},
	}
}
