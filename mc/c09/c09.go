// Package c09: the JSON policy codec round-trips and agrees with the text codec (E1).
package c09

import (
	"bytes"
	"encoding/json"
	"fmt"
	"sort"
	"strings"
	"time"

	cedar "github.com/cedar-policy/cedar-go"
	publicast "github.com/cedar-policy/cedar-go/ast"
	"github.com/cedar-policy/cedar-go/types"
	"github.com/cedar-policy/cedar-go/verif/core"
	"github.com/cedar-policy/cedar-go/verif/gen"
	. "github.com/cedar-policy/cedar-go/verif/refsem"
	xast "github.com/cedar-policy/cedar-go/x/exp/ast"
)

type implEnv struct {
	ents types.EntityMap
	req  cedar.Request
}

var envs []implEnv

func init() {
	for _, e := range gen.Envs() {
		envs = append(envs, implEnv{e.Store.ToImpl(), cedar.Request{Principal: e.Principal.ToImpl().(types.EntityUID), Action: e.Action.ToImpl().(types.EntityUID), Resource: e.Resource.ToImpl().(types.EntityUID), Context: e.Context.ToImpl().(types.Record)}})
	}
}

// Canon renders a policy AST in the normal form the property allows: annotations and
// record-literal entries by key, Value(decimal|ip) == the constructor call the encoder
// emits, nil == empty. Everything else is rendered structurally.
func Canon(p *xast.Policy) string {
	var sb strings.Builder
	fmt.Fprintf(&sb, "effect=%v;", p.Effect)
	ann := make([]string, 0, len(p.Annotations))
	for _, a := range p.Annotations {
		ann = append(ann, fmt.Sprintf("%q=%q", a.Key, a.Value))
	}
	sort.Strings(ann)
	fmt.Fprintf(&sb, "annotations=%v;", ann)
	fmt.Fprintf(&sb, "principal=%s;action=%s;resource=%s;", canonScope(p.Principal), canonScope(p.Action), canonScope(p.Resource))
	for _, c := range p.Conditions {
		fmt.Fprintf(&sb, "cond(%v){%s};", c.Condition, canonNode(c.Body))
	}
	return sb.String()
}

func canonScope(s xast.IsScopeNode) string {
	switch t := s.(type) {
	case xast.ScopeTypeAll:
		return "all"
	case xast.ScopeTypeEq:
		return fmt.Sprintf("==%q::%q", t.Entity.Type, t.Entity.ID)
	case xast.ScopeTypeIn:
		return fmt.Sprintf("in %q::%q", t.Entity.Type, t.Entity.ID)
	case xast.ScopeTypeInSet:
		var es []string
		for _, e := range t.Entities {
			es = append(es, fmt.Sprintf("%q::%q", e.Type, e.ID))
		}
		return fmt.Sprintf("in-set%v", es)
	case xast.ScopeTypeIs:
		return fmt.Sprintf("is %q", t.Type)
	case xast.ScopeTypeIsIn:
		return fmt.Sprintf("is %q in %q::%q", t.Type, t.Entity.Type, t.Entity.ID)
	}
	return fmt.Sprintf("?%T", s)
}

func canonValue(v types.Value) string {
	rv, err := FromImpl(v)
	if err != nil {
		return "malformed:" + err.Error()
	}
	switch rv.K {
	case KDecimal:
		return "decimal-value:" + rv.Key()
	case KIP:
		return "ip-value:" + rv.Key()
	}
	return "value:" + rv.Key()
}

func canonNode(n xast.IsNode) string {
	bin := func(name string, b xast.BinaryNode) string {
		return name + "(" + canonNode(b.Left) + "," + canonNode(b.Right) + ")"
	}
	switch t := n.(type) {
	case xast.NodeValue:
		return canonValue(t.Value)
	case xast.NodeTypeVariable:
		return "var:" + string(t.Name)
	case xast.NodeTypeNot:
		return "!(" + canonNode(t.Arg) + ")"
	case xast.NodeTypeNegate:
		return "neg(" + canonNode(t.Arg) + ")"
	case xast.NodeTypeIsEmpty:
		return "isEmpty(" + canonNode(t.Arg) + ")"
	case xast.NodeTypeAdd:
		return bin("+", t.BinaryNode)
	case xast.NodeTypeSub:
		return bin("-", t.BinaryNode)
	case xast.NodeTypeMult:
		return bin("*", t.BinaryNode)
	case xast.NodeTypeAnd:
		return bin("&&", t.BinaryNode)
	case xast.NodeTypeOr:
		return bin("||", t.BinaryNode)
	case xast.NodeTypeEquals:
		return bin("==", t.BinaryNode)
	case xast.NodeTypeNotEquals:
		return bin("!=", t.BinaryNode)
	case xast.NodeTypeLessThan:
		return bin("<", t.BinaryNode)
	case xast.NodeTypeLessThanOrEqual:
		return bin("<=", t.BinaryNode)
	case xast.NodeTypeGreaterThan:
		return bin(">", t.BinaryNode)
	case xast.NodeTypeGreaterThanOrEqual:
		return bin(">=", t.BinaryNode)
	case xast.NodeTypeIn:
		return bin("in", t.BinaryNode)
	case xast.NodeTypeContains:
		return bin("contains", t.BinaryNode)
	case xast.NodeTypeContainsAll:
		return bin("containsAll", t.BinaryNode)
	case xast.NodeTypeContainsAny:
		return bin("containsAny", t.BinaryNode)
	case xast.NodeTypeGetTag:
		return bin("getTag", t.BinaryNode)
	case xast.NodeTypeHasTag:
		return bin("hasTag", t.BinaryNode)
	case xast.NodeTypeAccess:
		return fmt.Sprintf("access(%s,%q)", canonNode(t.Arg), t.Value)
	case xast.NodeTypeHas:
		return fmt.Sprintf("has(%s,%q)", canonNode(t.Arg), t.Value)
	case xast.NodeTypeIs:
		return fmt.Sprintf("is(%s,%q)", canonNode(t.Left), t.EntityType)
	case xast.NodeTypeIsIn:
		return fmt.Sprintf("is-in(%s,%q,%s)", canonNode(t.Left), t.EntityType, canonNode(t.Entity))
	case xast.NodeTypeLike:
		return fmt.Sprintf("like(%s,%s)", canonNode(t.Arg), t.Value.MarshalCedar())
	case xast.NodeTypeIfThenElse:
		return "if(" + canonNode(t.If) + "," + canonNode(t.Then) + "," + canonNode(t.Else) + ")"
	case xast.NodeTypeSet:
		var es []string
		for _, e := range t.Elements {
			es = append(es, canonNode(e))
		}
		return "set[" + strings.Join(es, ",") + "]"
	case xast.NodeTypeRecord:
		var es []string
		for _, e := range t.Elements {
			es = append(es, fmt.Sprintf("%q:%s", e.Key, canonNode(e.Value)))
		}
		sort.Strings(es)
		return "record{" + strings.Join(es, ",") + "}"
	case xast.NodeTypeExtensionCall:
		// Value(decimal|ip) == the constructor call on its printed form
		if (t.Name == "decimal" || t.Name == "ip") && len(t.Args) == 1 {
			if sv, ok := t.Args[0].(xast.NodeValue); ok {
				if s, ok := sv.Value.(types.String); ok {
					if t.Name == "decimal" {
						if v, ok := ParseDecimal(string(s)); ok {
							return "decimal-value:" + v.Key()
						}
					} else if v, ok, known := ParseIP(string(s)); ok && known {
						return "ip-value:" + v.Key()
					}
				}
			}
		}
		var es []string
		for _, e := range t.Args {
			es = append(es, canonNode(e))
		}
		return "call:" + string(t.Name) + "(" + strings.Join(es, ",") + ")"
	}
	return fmt.Sprintf("?%T", n)
}

func authz(p *cedar.Policy) string {
	ps := cedar.NewPolicySet()
	ps.Add("p", p)
	var sb strings.Builder
	for _, e := range envs {
		d, diag := cedar.Authorize(ps, e.ents, e.req)
		fmt.Fprintf(&sb, "%v/%d/%d;", d, len(diag.Reasons), len(diag.Errors))
	}
	return sb.String()
}

func textExpressible(e *Expr) bool {
	if e.Op == OExt && (ExtArity(e.Str) < 0 || (ExtIsMethod[e.Str] && len(e.Args) == 0)) {
		return false
	}
	for _, a := range e.Args {
		if !textExpressible(a) {
			return false
		}
	}
	return true
}

func jsonExpressible(e *Expr) bool {
	if e.Op == OExt && ExtArity(e.Str) < 0 {
		return false // the JSON decoder rejects unknown extension names by design
	}
	for _, a := range e.Args {
		if !jsonExpressible(a) {
			return false
		}
	}
	return true
}

func knownClass(e *Expr) string {
	if e.Op == OLit && e.Val.K == KDatetime && e.Val.I < gen.MinI+86400000 {
		return "datetime-in-first-representable-day"
	}
	if e.Op == OLit && (e.Val.K == KSet || e.Val.K == KRecord) {
		for _, x := range append(append([]Val{}, e.Val.Elems...), e.Val.Vals...) {
			if c := knownClass(L(x)); c != "" {
				return c
			}
		}
	}
	for _, a := range e.Args {
		if c := knownClass(a); c != "" {
			return c
		}
	}
	return ""
}

func checkPolicy(t *core.T, sig string, mk func() *xast.Policy, desc func() string, text bool) {
	orig := cedar.NewPolicyFromAST((*publicast.Policy)(mk()))
	want := Canon(mk())
	var js []byte
	var err error
	if t.Protect("marshal-json:"+sig, desc(), func() { js, err = orig.MarshalJSON() }) {
		return
	}
	if err != nil {
		t.Fail("marshal-json-error:"+sig, desc(), "encodes", err.Error())
		return
	}
	in := func() string { return desc() + "  =>  " + string(js) }
	var back cedar.Policy
	if t.Protect("unmarshal-json:"+sig, in(), func() { err = core.Scribbled(js, back.UnmarshalJSON) }) {
		return
	}
	if err != nil {
		t.Fail("json-does-not-decode:"+sig, in(), "MarshalJSON output decodes", err.Error())
		return
	}
	if got := Canon((*xast.Policy)(back.AST())); got != want {
		t.Fail("json-roundtrip-changes-ast:"+sig, in(), want, got)
	}
	// a second encoding decodes to the same thing (annotation / record order may differ textually)
	js2, _ := back.MarshalJSON()
	var back2 cedar.Policy
	if err := back2.UnmarshalJSON(js2); err != nil || Canon((*xast.Policy)(back2.AST())) != want {
		t.Fail("json-second-roundtrip:"+sig, in(), want, fmt.Sprintf("%v %s", err, js2))
	}
	// the ast.Policy JSON methods agree with the cedar.Policy ones
	var ap publicast.Policy
	if err := core.Scribbled(js, ap.UnmarshalJSON); err != nil || Canon((*xast.Policy)(&ap)) != want {
		t.Fail("ast.Policy.UnmarshalJSON-differs:"+sig, in(), want, fmt.Sprint(err))
	}
	// decoding REPLACES the receiver: a target that already holds another policy (a reused
	// variable, a builder-made policy) ends up exactly as a fresh one would
	dirtyAST := dirtyPolicy()
	if err := dirtyAST.UnmarshalJSON(js); err != nil || Canon((*xast.Policy)(dirtyAST)) != want {
		t.Fail("ast.Policy.UnmarshalJSON-into-used-receiver:"+sig, in(), want, fmt.Sprintf("%v %s", err, Canon((*xast.Policy)(dirtyAST))))
	}
	dirty := cedar.NewPolicyFromAST(dirtyPolicy())
	// ... and every accessor of it has been called, so whatever they cache is populated
	_ = authz(dirty)
	_, _ = dirty.MarshalJSON()
	_ = dirty.MarshalCedar()
	_ = dirty.AST()
	_ = dirty.UnmarshalJSON([]byte(`{"effect":"forbid","principal":{"op":"All"},"action":{"op":"All"},"resource":{"op":"All"},"conditions":[{"kind":"when","body":{"Value":true}},{"kind":"when","body":{"nope":1}}]}`)) // and a decode into it has just failed half way
	if err := dirty.UnmarshalJSON(js); err != nil || Canon((*xast.Policy)(dirty.AST())) != want {
		t.Fail("Policy.UnmarshalJSON-into-used-receiver:"+sig, in(), want, fmt.Sprintf("%v %s", err, Canon((*xast.Policy)(dirty.AST()))))
	} else if a := authz(dirty); a != authz(orig) {
		t.Fail("Policy.UnmarshalJSON-into-used-receiver:"+sig, in(), authz(orig), a)
	} else if j3, err := dirty.MarshalJSON(); err != nil || !bytes.Equal(j3, js) {
		t.Fail("Policy.UnmarshalJSON-into-used-receiver-encodes-differently:"+sig, in(), string(js), string(j3)+fmt.Sprint(err))
	}
	a0 := authz(orig)
	if a1 := authz(&back); a1 != a0 {
		t.Fail("json-roundtrip-changes-authorization:"+sig, in(), a0, a1)
	}
	t.AddTrans(2)
	if !text {
		return
	}
	// JSON -> text -> JSON and text -> JSON -> text commute with using one format alone
	txt := back.MarshalCedar()
	var fromText cedar.Policy
	if err := core.Scribbled(txt, fromText.UnmarshalCedar); err != nil {
		t.Fail("text-of-json-decoded-does-not-parse:"+sig, in()+"  =>  "+string(txt), "parses", err.Error())
		return
	}
	ct := Canon((*xast.Policy)(fromText.AST()))
	js3, err := fromText.MarshalJSON()
	if err != nil {
		t.Fail("marshal-json-error-after-text:"+sig, string(txt), "encodes", err.Error())
		return
	}
	var viaBoth cedar.Policy
	if err := viaBoth.UnmarshalJSON(js3); err != nil {
		t.Fail("json-of-text-does-not-decode:"+sig, string(txt)+"  =>  "+string(js3), "decodes", err.Error())
		return
	}
	if got := Canon((*xast.Policy)(viaBoth.AST())); got != ct {
		t.Fail("text-json-text-differs:"+sig, string(txt)+"  =>  "+string(js3), ct, got)
	}
	if a2 := authz(&fromText); a2 != a0 {
		t.Fail("text-encoding-changes-authorization:"+sig, in()+"  =>  "+string(txt), a0, a2)
	}
	if a3 := authz(&viaBoth); a3 != a0 {
		t.Fail("text+json-encoding-changes-authorization:"+sig, in(), a0, a3)
	}
	t.AddTrans(3)
}

func checkSpellings(t *core.T, sig string, mk func() *xast.Policy) {
	orig := cedar.NewPolicyFromAST((*publicast.Policy)(mk()))
	js, err := orig.MarshalJSON()
	if err != nil {
		return
	}
	var base cedar.Policy
	if base.UnmarshalJSON(js) != nil {
		return
	}
	want := Canon((*xast.Policy)(base.AST()))
	alts, err := core.JSONSpellings(js)
	if err != nil {
		t.Fail("harness-json-spelling", string(js), "valid JSON", err.Error())
		return
	}
	for k, a := range alts {
		var p cedar.Policy
		if err := p.UnmarshalJSON([]byte(a)); err != nil {
			t.Fail(fmt.Sprintf("json-spelling-rejected:%d:%s", k, sig), a, "decodes like "+string(js), err.Error())
			continue
		}
		if got := Canon((*xast.Policy)(p.AST())); got != want {
			t.Fail(fmt.Sprintf("json-spelling-decodes-differently:%d:%s", k, sig), a, want, got)
		}
	}
	t.AddTrans(int64(len(alts)))
}

// dirtyPolicy: a policy with every part populated, used as a decode target that is not the zero value.
func dirtyPolicy() *publicast.Policy {
	p := xast.Forbid().Annotate("zz", "old").Annotate("id", "old").PrincipalIs("Old").ActionInSet(types.NewEntityUID("Old", "a")).ResourceEq(types.NewEntityUID("Old", "r")).
		When(xast.False()).Unless(xast.Context().Has("old"))
	return (*publicast.Policy)(p)
}

func checkExpr(t *core.T, sig string, e *Expr) {
	if !jsonExpressible(e) {
		return
	}
	if c := knownClass(e); c != "" {
		sig = c
	}
	checkPolicy(t, sig, func() *xast.Policy { return xast.Permit().When(e.ToAST()) }, e.String, textExpressible(e))
	t.AddStates(1)
	t.Nontrivial()
}

func pow(b, e int) int64 {
	r := int64(1)
	for i := 0; i < e; i++ {
		r *= int64(b)
	}
	return r
}

var patterns = func() [][]PatElem {
	comps := []PatElem{{Wild: true}, {Lit: "a"}, {Lit: "*"}, {Lit: "\\"}, {Lit: "é\n\""}}
	out := [][]PatElem{}
	var rec func(cur []PatElem, n int)
	rec = func(cur []PatElem, n int) {
		if n == 0 {
			return
		}
		for _, c := range comps {
			nx := append(append([]PatElem{}, cur...), c)
			out = append(out, nx)
			rec(nx, n-1)
		}
	}
	rec(nil, 4)
	return out
}()

func specs() []gen.OpSpec {
	s := append(append(append([]gen.OpSpec{}, gen.Unary...), gen.Binary...), gen.Ternary...)
	s = append(s,
		gen.OpSpec{Name: "set0", Arity: 1, Build: func(a []*Expr) *Expr { return Bin(OContains, SetLit(), a[0]) }},
		gen.OpSpec{Name: "rec0", Arity: 1, Build: func(a []*Expr) *Expr { return Bin(OEq, RecLit(nil, nil), a[0]) }},
		gen.OpSpec{Name: "rec-keys", Arity: 2, Build: func(a []*Expr) *Expr {
			return RecLit([]string{"if", "k k", "_a1", "\"q\"\\", "", "é", "\n\x07\u0085", "__entity", "Value"}, []*Expr{a[0], a[1], a[0], a[1], a[0], a[1], a[0], a[1], a[0]})
		}},
		gen.OpSpec{Name: "access-weird", Arity: 1, Build: func(a []*Expr) *Expr { return Access(Access(Access(a[0], "if"), "a b"), "\" ") }},
		gen.OpSpec{Name: "is-ns", Arity: 1, Build: func(a []*Expr) *Expr { return Is(a[0], "A::B::C") }},
		gen.OpSpec{Name: "call0", Arity: 1, Build: func(a []*Expr) *Expr { return Bin(OEq, Ext("decimal"), a[0]) }},
		gen.OpSpec{Name: "method0", Arity: 1, Build: func(a []*Expr) *Expr { return Bin(OEq, Ext("isIpv4", a[0], a[0]), a[0]) }},
	)
	return s
}

func depth1(lv []*Expr) *core.Family {
	sp := specs()
	nl := int64(len(lv))
	return &core.Family{
		Name: "depth1-values",
		Desc: fmt.Sprintf("%d operator forms (all JSON node shapes) x all operand tuples over %d leaves (every value of the boundary universe in Value position + variables)", len(sp), nl),
		N:    int64(len(sp)) * nl * nl,
		Run: func(t *core.T, i int64) {
			s := sp[i/(nl*nl)]
			r := i % (nl * nl)
			if s.Arity == 1 && r >= nl {
				return
			}
			var e *Expr
			switch s.Arity {
			case 1:
				e = s.Build([]*Expr{lv[r]})
			case 2:
				e = s.Build([]*Expr{lv[r/nl], lv[r%nl]})
			default:
				e = s.Build([]*Expr{lv[r/nl], L(Long(-7)), lv[r%nl]})
			}
			checkExpr(t, s.Name, e)
			t.SampleF(func() string {
				b, _ := cedar.NewPolicyFromAST((*publicast.Policy)(xast.Permit().When(e.ToAST()))).MarshalJSON()
				return string(b)
			})
		},
	}
}

func depth2(lv []*Expr) *core.Family {
	sp := specs()
	type combo struct {
		p, c gen.OpSpec
		pos  int
	}
	var combos []combo
	for _, p := range sp {
		for pos := 0; pos < p.Arity; pos++ {
			for _, c := range sp {
				combos = append(combos, combo{p, c, pos})
			}
		}
	}
	nl := int64(len(lv))
	return &core.Family{
		Name: "depth2-pairings",
		Desc: fmt.Sprintf("every (parent, operand position, child) pairing of %d operator forms (%d pairings) x all leaf tuples over %d leaves", len(sp), len(combos), nl),
		N:    int64(len(combos)) * nl,
		Run: func(t *core.T, i int64) {
			cb := combos[i/nl]
			first := i % nl
			slots := cb.c.Arity + cb.p.Arity - 1
			total := pow(int(nl), slots-1)
			var last *Expr
			for r := int64(0); r < total; r++ {
				x := r
				ls := make([]*Expr, slots)
				ls[0] = lv[first]
				for j := slots - 1; j >= 1; j-- {
					ls[j] = lv[x%nl]
					x /= nl
				}
				child := cb.c.Build(ls[:cb.c.Arity])
				pargs := make([]*Expr, cb.p.Arity)
				rest := ls[cb.c.Arity:]
				ri := 0
				for j := range pargs {
					if j == cb.pos {
						pargs[j] = child
					} else {
						pargs[j] = rest[ri]
						ri++
					}
				}
				e := cb.p.Build(pargs)
				last = e
				checkExpr(t, cb.p.Name+"/"+cb.c.Name, e)
				if jsonExpressible(e) {
					checkSpellings(t, cb.p.Name+"/"+cb.c.Name, func() *xast.Policy { return xast.Permit().When(e.ToAST()) })
				}
			}
			if last != nil {
				t.SampleF(last.String)
			}
		},
	}
}

func likeFamily() *core.Family {
	return &core.Family{
		Name: "like-patterns",
		Desc: fmt.Sprintf("every pattern of 1..4 components over {Wildcard, \"a\", \"*\", \"\\\\\", \"é\\n\\\"\"} (%d patterns)", len(patterns)),
		N:    int64(len(patterns)),
		Run: func(t *core.T, i int64) {
			e := Like(Var("principal"), patterns[i]...)
			checkExpr(t, "like", e)
			t.SampleF(e.String)
		},
	}
}

// foreign JSON documents: valid policy JSON that the encoder itself never writes
// (adjacent wildcards, empty and split pattern literals, ...). Whatever policy such a
// document decodes to, that policy must be stable: JSON -> text -> JSON and a JSON
// round trip give the same policy, and all of them authorize identically.
func foreignFamily() *core.Family {
	elems := []string{`"Wildcard"`, `{"Literal":"a"}`, `{"Literal":""}`, `{"Literal":"*"}`}
	var pats [][]string
	var rec func(cur []string)
	rec = func(cur []string) {
		pats = append(pats, append([]string{}, cur...))
		if len(cur) == 4 {
			return
		}
		for _, e := range elems {
			rec(append(cur, e))
		}
	}
	rec(nil)
	subjects := []string{"", "a", "aa", "*", "a*", "*a", "b", "ab"}
	return &core.Family{
		Name: "foreign-json-like-patterns",
		Desc: fmt.Sprintf("hand-written policy JSON: every like-pattern array of 0..4 elements over {Wildcard, Literal a, Literal \"\", Literal *} (%d arrays, most of them spellings the encoder never produces) x %d subject strings: the decoded policy, its JSON round trip and its text round trip are the same policy and decide identically", len(pats), len(subjects)),
		N:    int64(len(pats)) + 2,
		Run: func(t *core.T, i int64) {
			// the two cases after the arrays: a `like` object without a "pattern" member at all,
			// and a policy built in Go around types.NewPattern() with no components
			tag, pat, member := "foreign-like", "", ""
			switch {
			case i < int64(len(pats)):
				pat = "[" + strings.Join(pats[i], ",") + "]"
				member = `,"pattern":` + pat
			case i == int64(len(pats)):
				tag, pat = "like-without-pattern-member", "(no pattern member)"
			default:
				tag, pat = "programmatic-empty-pattern", "types.NewPattern()"
			}
			for _, subj := range subjects {
				sj, _ := json.Marshal(subj)
				doc := `{"effect":"permit","principal":{"op":"All"},"action":{"op":"All"},"resource":{"op":"All"},"conditions":[{"kind":"when","body":{"like":{"left":{"Value":` + string(sj) + `}` + member + `}}}]}`
				var p1 cedar.Policy
				var err error
				if tag == "programmatic-empty-pattern" {
					doc = fmt.Sprintf("ast: permit when { %q like <types.NewPattern()> }", subj)
					if t.Protect("new-policy:"+tag, doc, func() {
						p1 = *cedar.NewPolicyFromAST((*publicast.Policy)(xast.Permit().When(xast.String(types.String(subj)).Like(types.NewPattern()))))
					}) {
						return
					}
				} else if t.Protect("unmarshal-json:"+tag, doc, func() { err = p1.UnmarshalJSON([]byte(doc)) }) {
					return
				}
				if err != nil {
					continue // not accepted: nothing to compare
				}
				t.Nontrivial()
				c1 := Canon((*xast.Policy)(p1.AST()))
				a1 := authz(&p1)
				js, err := p1.MarshalJSON()
				if err != nil {
					t.Fail("marshal-json-error:"+tag, doc, "encodes", err.Error())
					continue
				}
				var p2 cedar.Policy
				if err := p2.UnmarshalJSON(js); err != nil {
					t.Fail("json-does-not-decode:"+tag, doc+"  =>  "+string(js), "decodes", err.Error())
				} else {
					if c2 := Canon((*xast.Policy)(p2.AST())); c2 != c1 {
						t.Fail("json-roundtrip-changes-ast:"+tag, doc+"  =>  "+string(js), c1, c2)
					}
					if a2 := authz(&p2); a2 != a1 {
						t.Fail("json-roundtrip-changes-authorization:"+tag, doc+"  =>  "+string(js), a1, a2)
					}
				}
				txt := p1.MarshalCedar()
				var p3 cedar.Policy
				if err := p3.UnmarshalCedar(txt); err != nil {
					t.Fail("text-of-json-decoded-does-not-parse:"+tag, doc+"  =>  "+string(txt), "parses", err.Error())
					continue
				}
				if c3 := Canon((*xast.Policy)(p3.AST())); c3 != c1 {
					t.Fail("json-to-text-changes-ast:"+tag, doc+"  =>  "+string(txt), c1, c3)
				}
				if a3 := authz(&p3); a3 != a1 {
					t.Fail("text-encoding-changes-authorization:"+tag, doc+"  =>  "+string(txt), a1, a3)
				}
				t.AddTrans(3)
			}
			t.AddStates(1)
			t.Sample(pat)
		},
	}
}

func heads() *core.Family {
	e1, e2 := [2]string{"U", "a"}, [2]string{"NS::G", "g \"q\"\n "}
	prs := []Scope{{Kind: ScAll}, {Kind: ScEq, Ent: e1}, {Kind: ScIn, Ent: e2}, {Kind: ScIs, Type: "NS::U"}, {Kind: ScIsIn, Type: "U", Ent: e2}}
	acts := []Scope{{Kind: ScAll}, {Kind: ScEq, Ent: [2]string{"Action", "view"}}, {Kind: ScIn, Ent: [2]string{"NS::Action", "all"}}, {Kind: ScInSet, Ents: [][2]string{}}, {Kind: ScInSet, Ents: [][2]string{{"Action", "a"}}}, {Kind: ScInSet, Ents: [][2]string{{"Action", "a"}, {"Action", "b\\"}}}}
	annots := [][]Annot{nil, {{"id", "x"}}, {{"if", "a\"b"}, {"permit", ""}}, {{"b", "é\n"}, {"a", "2"}, {"in", "3"}}}
	conds := [][]Cond{nil, {{true, Var("principal")}}, {{false, L(Long(-1))}}, {{true, L(Bool(true))}, {false, Var("context")}}, {{false, L(Bool(false))}, {true, L(Bool(true))}, {false, L(Bool(false))}}}
	n := 2 * len(prs) * len(acts) * len(prs) * len(annots) * len(conds)
	return &core.Family{
		Name: "policy-heads",
		Desc: fmt.Sprintf("{permit,forbid} x %d principal x %d action x %d resource scopes x %d annotation lists x %d condition lists (kinds and order)", len(prs), len(acts), len(prs), len(annots), len(conds)),
		N:    int64(n),
		Run: func(t *core.T, i int64) {
			x := int(i)
			p := &Policy{}
			p.Forbid = x%2 == 1
			x /= 2
			p.Principal = prs[x%len(prs)]
			x /= len(prs)
			p.Action = acts[x%len(acts)]
			x /= len(acts)
			p.Resource = prs[x%len(prs)]
			x /= len(prs)
			p.Annots = annots[x%len(annots)]
			x /= len(annots)
			p.Conds = conds[x]
			checkPolicy(t, "head", p.ToAST, func() string { return fmt.Sprintf("%+v", *p) }, true)
			checkSpellings(t, "head", p.ToAST)
			t.AddStates(1)
			t.Nontrivial()
			t.SampleF(func() string {
				b, _ := cedar.NewPolicyFromAST((*publicast.Policy)(p.ToAST())).MarshalJSON()
				return string(b)
			})
		},
	}
}

func policySets() *core.Family {
	ids := []string{"a", "\"q\"", "é\n", "policy0", "", " <&>", "\x00"}
	texts := []string{"permit ( principal, action, resource );", "forbid ( principal, action, resource )\nwhen { context.a == -1 };", "permit ( principal, action, resource )\nunless { [1, \"é\"].contains(context.a) };"}
	// every subset of size <= 3
	var subs [][]int
	for m := 0; m < 1<<len(ids); m++ {
		var s []int
		for k := range ids {
			if m>>k&1 == 1 {
				s = append(s, k)
			}
		}
		if len(s) <= 3 {
			subs = append(subs, s)
		}
	}
	return &core.Family{
		Name: "policy-sets",
		Desc: fmt.Sprintf("every policy set of <=3 policies over %d ids that need JSON escapes: PolicySet.MarshalJSON -> UnmarshalJSON keeps ids and contents", len(ids)),
		N:    int64(len(subs)),
		Run: func(t *core.T, i int64) {
			ps := cedar.NewPolicySet()
			want := map[string]string{}
			for k, idx := range subs[i] {
				var p cedar.Policy
				if err := p.UnmarshalCedar([]byte(texts[(k+idx)%len(texts)])); err != nil {
					t.Fail("harness-text", texts[(k+idx)%len(texts)], "", err.Error())
					return
				}
				ps.Add(cedar.PolicyID(ids[idx]), &p)
				want[ids[idx]] = Canon((*xast.Policy)(p.AST()))
			}
			js, err := ps.MarshalJSON()
			if err != nil {
				t.Fail("policyset-marshal-json-error", fmt.Sprint(subs[i]), "", err.Error())
				return
			}
			back := cedar.NewPolicySet()
			if err := json.Unmarshal(js, back); err != nil {
				t.Fail("policyset-json-does-not-decode", string(js), "decodes", err.Error())
				return
			}
			got := map[string]string{}
			for id, p := range back.All() {
				got[string(id)] = Canon((*xast.Policy)(p.AST()))
			}
			if fmt.Sprint(got) != fmt.Sprint(want) {
				t.Fail("policyset-json-roundtrip", string(js), fmt.Sprint(want), fmt.Sprint(got))
			}
			// an encoding that was handed out stays what it was: change the set (replace the first
			// policy by one of the opposite effect, add one, remove one) and encode again
			keepJS, keepTxt := append([]byte{}, js...), string(ps.MarshalCedar())
			txt := ps.MarshalCedar()
			for step := 0; step < 3; step++ {
				var q cedar.Policy
				_ = q.UnmarshalCedar([]byte("forbid ( principal, action, resource );"))
				switch step {
				case 0:
					if len(subs[i]) > 0 {
						ps.Add(cedar.PolicyID(ids[subs[i][0]]), &q)
					}
				case 1:
					ps.Add("zz-added", &q)
				default:
					ps.Remove("zz-added")
					if len(subs[i]) > 0 {
						ps.Remove(cedar.PolicyID(ids[subs[i][0]]))
					}
				}
				js2, _ := ps.MarshalJSON()
				txt2 := ps.MarshalCedar()
				_, _ = js2, txt2
				if !bytes.Equal(js, keepJS) {
					t.Fail("policyset-json-bytes-changed-after-later-call", string(keepJS), "the bytes returned by MarshalJSON stay unchanged", string(js))
					break
				}
				if string(txt) != keepTxt {
					t.Fail("policyset-cedar-bytes-changed-after-later-call", keepTxt, "the bytes returned by MarshalCedar stay unchanged", string(txt))
					break
				}
			}
			t.Nontrivial()
			t.Sample(string(keepJS))
		},
	}
}

// policy sets of n policies, n across the thresholds where a batch, a table or a counter of
// the implementation could turn over: every id and every policy survives both encodings and
// the decoded set authorizes like the original.
func sizedPolicySets(tier string) *core.Family {
	sizes := []int{0, 1, 2, 15, 16, 17, 63, 64, 65, 127, 128, 129, 255, 256, 257, 300, 511, 512, 513, 600, 767, 768, 769, 1000, 1023, 1024, 1025, 1100, 2047, 2048, 2049}
	if tier == "thorough" {
		sizes = append(sizes, 3000, 4095, 4096, 4097, 8193)
	}
	return &core.Family{
		Name: "sized-policy-sets",
		Desc: fmt.Sprintf("policy sets of %v policies (policy i permits or forbids principal U::\"i\"): JSON and text encodings decoded again keep every id and every policy; every principal is decided as by the original set", sizes),
		N:    int64(len(sizes)),
		Run: func(t *core.T, i int64) {
			n := sizes[i]
			ps := cedar.NewPolicySet()
			want := map[string]string{}
			for k := 0; k < n; k++ {
				pol := xast.Permit()
				if k%7 == 3 {
					pol = xast.Forbid()
				}
				pol = pol.PrincipalEq(types.NewEntityUID("U", types.String(fmt.Sprint(k)))).When(xast.Long(types.Long(k)).Equal(xast.Long(types.Long(k))))
				p := cedar.NewPolicyFromAST((*publicast.Policy)(pol))
				id := fmt.Sprintf("p%d", k)
				ps.Add(cedar.PolicyID(id), p)
				want[id] = Canon((*xast.Policy)(p.AST()))
			}
			in := fmt.Sprintf("%d policies", n)
			compare := func(kind string, back *cedar.PolicySet, byID bool) {
				got := map[string]string{}
				var canons, wantCanons []string
				for id, p := range back.All() {
					got[string(id)] = Canon((*xast.Policy)(p.AST()))
					canons = append(canons, got[string(id)])
				}
				if len(got) != n {
					t.Fail("sized-policyset-loses-policies:"+kind, in, fmt.Sprint(n), fmt.Sprint(len(got)))
					return
				}
				if byID {
					for id, w := range want {
						if got[id] != w {
							t.Fail("sized-policyset-changes-policy:"+kind, in+" id "+id, w, got[id])
							return
						}
					}
				} else {
					for _, w := range want {
						wantCanons = append(wantCanons, w)
					}
					sort.Strings(canons)
					sort.Strings(wantCanons)
					if fmt.Sprint(canons) != fmt.Sprint(wantCanons) {
						t.Fail("sized-policyset-changes-policy:"+kind, in, "the same policies", "different policies")
						return
					}
				}
				for k := 0; k < n; k++ {
					req := cedar.Request{Principal: types.NewEntityUID("U", types.String(fmt.Sprint(k))), Action: types.NewEntityUID("Action", "a"), Resource: types.NewEntityUID("R", "r")}
					d0, _ := cedar.Authorize(ps, types.EntityMap{}, req)
					d1, _ := cedar.Authorize(back, types.EntityMap{}, req)
					if d0 != d1 {
						t.Fail("sized-policyset-decides-differently:"+kind, in+fmt.Sprintf(" principal U::%d", k), fmt.Sprint(d0), fmt.Sprint(d1))
						return
					}
				}
			}
			js, err := ps.MarshalJSON()
			if err != nil {
				t.Fail("policyset-marshal-json-error", in, "", err.Error())
				return
			}
			back := cedar.NewPolicySet()
			if err := core.Scribbled(js, back.UnmarshalJSON); err != nil {
				t.Fail("policyset-json-does-not-decode", in, "decodes", err.Error())
				return
			}
			compare("json", back, true)
			// into a set that already holds policies
			used := cedar.NewPolicySet()
			var q cedar.Policy
			_ = q.UnmarshalCedar([]byte("forbid ( principal, action, resource );"))
			used.Add("old", &q)
			if err := used.UnmarshalJSON(js); err != nil {
				t.Fail("policyset-json-does-not-decode:used", in, "decodes", err.Error())
			} else {
				compare("json-into-used-set", used, true)
			}
			fromText, err := cedar.NewPolicySetFromBytes("f.cedar", ps.MarshalCedar())
			if err != nil {
				t.Fail("policyset-text-does-not-parse", in, "parses", err.Error())
				return
			}
			compare("text", fromText, false)
			t.Nontrivial()
			t.AddStates(int64(n))
		},
	}
}

// one construct nested very deep (gen.DeepChains).
func deepChains(tier string) *core.Family {
	all := gen.DeepChains(gen.DeepDepths(tier))
	return &core.Family{
		Name: "deep-chains",
		Desc: fmt.Sprintf("%d expressions: each nesting construct (prefix-operator chains in 12 mixtures of - and !, access / index / method chains, nested sets, records, method arguments, left- and right-nested binary operators, if chains) at depths %v", len(all), gen.DeepDepths(tier)),
		N:    int64(len(all)),
		Run: func(t *core.T, i int64) {
			name := all[i].Name
			checkExpr(t, "deep:"+name[:strings.LastIndex(name, "/")], all[i].E)
			t.Sample(name)
		},
	}
}

func Check() *core.Check {
	return &core.Check{
		ID:        "C09",
		HangAfter: 120 * time.Second, // cases take at most seconds (max_case_s in the evidence); see core.Family.HangAfter
		Title:     "The JSON policy codec round-trips and agrees with the text codec",
		Rule: "bounded-exhaustive: every operator form (all JSON node shapes, extension calls and extension-typed literals, is..in, records with escape-needing keys) over every value of the boundary universe, all depth-2 pairings, every like pattern of <=4 components, all scope/annotation/condition heads, policy sets with ids needing JSON escapes; decode(encode(p)) equals p under the stated normal form (annotations and record entries by key, Value(decimal|ip) == emitted constructor call, nil == empty); text->JSON->text and JSON->text->JSON commute; all encodings authorize identically in 6 environments; " +
			"every executed case is non-trivial (distinct policy)",
		Assumptions: []string{"unknown extension names are rejected by the JSON decoder by design and are outside the domain", "text conversions are checked for text-expressible policies only"},
		Families: func(tier string) []*core.Family {
			full := gen.Leaves(gen.V)
			small := gen.Leaves(gen.W)
			if tier == "thorough" {
				return []*core.Family{heads(), policySets(), likeFamily(), foreignFamily(), deepChains(tier), sizedPolicySets(tier), depth1(full), depth2(small[:10])}
			}
			return []*core.Family{heads(), policySets(), likeFamily(), foreignFamily(), deepChains(tier), sizedPolicySets(tier), depth1(full), depth2([]*Expr{L(Bool(true)), L(Long(-1)), Var("principal"), L(Decimal(-1))})}
		},
	}
}
