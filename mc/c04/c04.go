// Package c04: policy compilation (constant folding) never changes a policy's meaning (E1).
package c04

import (
	"bytes"
	"fmt"
	"reflect"
	"strings"
	"time"

	cedar "github.com/cedar-policy/cedar-go"
	publicast "github.com/cedar-policy/cedar-go/ast"
	"github.com/cedar-policy/cedar-go/types"
	"github.com/cedar-policy/cedar-go/verif/core"
	"github.com/cedar-policy/cedar-go/verif/gen"
	. "github.com/cedar-policy/cedar-go/verif/refsem"
	xast "github.com/cedar-policy/cedar-go/x/exp/ast"
	"github.com/cedar-policy/cedar-go/x/exp/eval"
)

type implEnv struct {
	env  eval.Env
	ents types.EntityMap
	req  cedar.Request
}

var refEnvs = gen.Envs()
var implEnvs []implEnv

func init() {
	for _, e := range refEnvs {
		em := e.Store.ToImpl()
		implEnvs = append(implEnvs, implEnv{
			env:  eval.Env{Entities: em, Principal: e.Principal.ToImpl(), Action: e.Action.ToImpl(), Resource: e.Resource.ToImpl(), Context: e.Context.ToImpl()},
			ents: em,
			req:  cedar.Request{Principal: e.Principal.ToImpl().(types.EntityUID), Action: e.Action.ToImpl().(types.EntityUID), Resource: e.Resource.ToImpl().(types.EntityUID), Context: e.Context.ToImpl().(types.Record)},
		})
	}
}

// leaves: constants of every type, erroring constant sub-expressions, entity
// literals (present in some stores only), variables and request-dependent accesses.
func leavesFull() []*Expr {
	ls := []*Expr{}
	for _, v := range gen.W {
		ls = append(ls, L(v))
	}
	ls = append(ls,
		L(Entity("U", "ghost")), L(Set(Entity("U", "alice"))), L(Str("1.5")), L(Long(0)),
		// erroring constant sub-expressions
		Bin(OAdd, L(Long(gen.MaxI)), L(Long(1))), Ext("decimal", L(Str("x"))), Bin(OLt, L(Long(1)), L(Str("a"))), Access(L(Rec(KV{"a", Long(1)})), "b"), Un(ONeg, L(Long(gen.MinI))),
		// constant sub-expressions that evaluate fine
		Bin(OAdd, L(Long(1)), L(Long(1))), Ext("decimal", L(Str("1.5"))), Bin(OEq, L(Long(1)), L(Long(1))), SetLit(L(Long(1)), L(Long(2))),
		// request / store dependent
		Var("principal"), Var("resource"), Var("context"), Access(Var("context"), "a"), Access(Var("principal"), "a"), Has(Var("principal"), "a"),
		// entity literal dependent (must not be folded: depends on the store)
		Access(L(Entity("U", "alice")), "a"), Has(L(Entity("U", "alice")), "a"), Bin(OIn, L(Entity("U", "alice")), L(Entity("G", "g1"))), Bin(OHasTag, L(Entity("U", "alice")), L(Str("a"))), Bin(OGetTag, L(Entity("U", "alice")), L(Str("a"))),
		IsIn(L(Entity("U", "alice")), "U", L(Entity("G", "g2"))),
	)
	return ls
}

func leavesSmall() []*Expr {
	return []*Expr{
		L(Bool(true)), L(Bool(false)), L(Long(1)), L(Str("a")), L(Entity("U", "alice")), L(Set(Long(1))),
		Bin(OAdd, L(Long(gen.MaxI)), L(Long(1))), Var("principal"), Access(Var("context"), "a"), Has(L(Entity("U", "alice")), "a"),
	}
}

type placement struct {
	name string
	mk   func(n xast.Node) *xast.Policy
}

var placements = []placement{
	{"when", func(n xast.Node) *xast.Policy { return xast.Permit().When(n) }},
	{"unless", func(n xast.Node) *xast.Policy { return xast.Forbid().Unless(n) }},
	{"second-when", func(n xast.Node) *xast.Policy { return xast.Permit().When(xast.Context().Has("a")).When(n) }},
	{"scope+unless", func(n xast.Node) *xast.Policy {
		return xast.Permit().PrincipalIs("U").Unless(n).When(xast.True())
	}},
}

func classifyFolded(dec cedar.Decision, diag cedar.Diagnostic, forbid bool) string {
	switch {
	case len(diag.Errors) > 0:
		return "erroring"
	case len(diag.Reasons) > 0:
		return "satisfied"
	}
	return "unsatisfied"
}

func checkExpr(t *core.T, opName string, e *Expr, light bool) bool {
	nontriv := false
	for pi, pl := range placements {
		pl := pl
		if checkPolicy(t, opName, func() string { return fmt.Sprintf("%s { %s }", pl.name, e.String()) }, func() *xast.Policy { return pl.mk(e.ToAST()) }, light && pi > 0) {
			nontriv = true
		}
	}
	return nontriv
}

// checkPolicy compares the folded path (Authorize on the compiled policy) with the
// unfolded path (Eval of the original tree) in every environment, and the visible forms
// before / after compilation. mk must build a fresh, identical policy on every call.
func checkPolicy(t *core.T, opName string, in func() string, mk func() *xast.Policy, skipForms bool) bool {
	nontriv := false
	{
		pAST := mk()
		pCopy := mk()
		beforeCedar := (*publicast.Policy)(pCopy).MarshalCedar()
		beforeJSON, jerr := (*publicast.Policy)(pCopy).MarshalJSON()
		var pol *cedar.Policy
		if t.Protect("compile:"+opName, in(), func() { pol = cedar.NewPolicyFromAST((*publicast.Policy)(pAST)) }) {
			return false
		}
		ps := cedar.NewPolicySet()
		ps.Add("p", pol)
		classes := map[string]bool{}
		for k := range implEnvs {
			ie := implEnvs[k]
			var dec cedar.Decision
			var diag cedar.Diagnostic
			var v types.Value
			var err error
			if t.Protect("folded-eval:"+opName, in(), func() { dec, diag = cedar.Authorize(ps, ie.ents, ie.req) }) {
				continue
			}
			if t.Protect("unfolded-eval:"+opName, in(), func() {
				v, err = eval.Eval(eval.PolicyToNode((*xast.Policy)(pol.AST())).AsIsNode(), ie.env)
			}) {
				continue
			}
			folded := classifyFolded(dec, diag, false)
			unfolded := "erroring"
			if err == nil {
				if b, ok := v.(types.Boolean); ok {
					if b {
						unfolded = "satisfied"
					} else {
						unfolded = "unsatisfied"
					}
				}
			}
			classes[unfolded] = true
			if folded != unfolded {
				t.Fail(fmt.Sprintf("fold-changes-meaning:%s:%s->%s", opName, unfolded, folded), in()+fmt.Sprintf(" [env %d]", k), "unfolded: "+unfolded, "folded (Authorize): "+folded+fmt.Sprintf(" %v", diag.Errors))
			}
		}
		if len(classes) > 1 {
			nontriv = true // the policy's class depends on the request / entity store
		}
		if skipForms {
			return nontriv
		}
		// visible forms unchanged by compilation and by authorizing
		if !reflect.DeepEqual((*xast.Policy)(pol.AST()), pCopy) {
			t.Fail("ast-changed:"+opName, in(), fmt.Sprintf("%#v", pCopy), fmt.Sprintf("%#v", pol.AST()))
		}
		if after := pol.MarshalCedar(); !bytes.Equal(after, beforeCedar) {
			t.Fail("cedar-text-changed:"+opName, in(), string(beforeCedar), string(after))
		}
		afterJSON, jerr2 := pol.MarshalJSON()
		if (jerr == nil) != (jerr2 == nil) || !bytes.Equal(afterJSON, beforeJSON) {
			t.Fail("json-changed:"+opName, in(), string(beforeJSON), string(afterJSON))
		}
	}
	return nontriv
}

// condition lists: every list of 1..3 when/unless clauses over constant, erroring-constant
// and request-dependent bodies, under two scope forms: folding happens per clause and the
// clauses are then conjoined, so what one clause folds to must not change how the
// others are (or are not) evaluated.
func condLists() *core.Family {
	bodies := []*Expr{
		L(Bool(true)), L(Bool(false)), L(Long(1)), Bin(OAdd, L(Long(gen.MaxI)), L(Long(1))),
		Bin(OEq, Access(Var("context"), "a"), L(Long(1))), Bin(OEq, Access(Var("context"), "a"), L(Long(2))), Access(Var("context"), "missing"),
		Bin(OAnd, L(Bool(true)), Access(Var("context"), "a")),
	}
	nb := len(bodies) * 2
	type clause struct {
		when bool
		body *Expr
	}
	var lists [][]clause
	var rec func(cur []clause)
	rec = func(cur []clause) {
		if len(cur) > 0 {
			lists = append(lists, append([]clause{}, cur...))
		}
		if len(cur) == 3 {
			return
		}
		for k := 0; k < nb; k++ {
			rec(append(cur, clause{k%2 == 0, bodies[k/2]}))
		}
	}
	rec(nil)
	return &core.Family{
		Name: "condition-lists",
		Desc: fmt.Sprintf("every list of 1..3 when/unless clauses over %d bodies (true, false, a non-boolean constant, an overflowing constant, request-dependent true / false / error, true && non-boolean) x {permit, forbid with an `is` scope}: %d policies x %d environments", len(bodies), 2*len(lists), len(implEnvs)),
		N:    int64(2 * len(lists)),
		Run: func(t *core.T, i int64) {
			cl := lists[i/2]
			forbid := i%2 == 1
			mk := func() *xast.Policy {
				p := xast.Permit()
				if forbid {
					p = xast.Forbid().PrincipalIs("U")
				}
				for _, c := range cl {
					if c.when {
						p.When(c.body.ToAST())
					} else {
						p.Unless(c.body.ToAST())
					}
				}
				return p
			}
			in := func() string {
				var sb strings.Builder
				for _, c := range cl {
					if c.when {
						sb.WriteString("when { ")
					} else {
						sb.WriteString("unless { ")
					}
					sb.WriteString(c.body.String() + " } ")
				}
				return sb.String()
			}
			if checkPolicy(t, "condition-list", in, mk, false) {
				t.Nontrivial()
			}
			t.SampleF(in)
		},
	}
}

// wide literals: set and record literals whose operand count crosses 8, 16, 32, 64 and
// 128, constant everywhere except one request-dependent (or erroring) operand at the
// first, a middle or the last position: whether the node folds must depend on ALL operands.
func wideLiterals() *core.Family {
	sizes := []int{1, 2, 3, 7, 8, 9, 15, 16, 17, 31, 32, 33, 63, 64, 65, 66, 100, 127, 128, 129, 200}
	special := []*Expr{nil, Access(Var("context"), "a"), Access(Var("context"), "missing"), Bin(OAdd, L(Long(gen.MaxI)), L(Long(1))), Var("principal")}
	type cse struct {
		n, pos, sp int
	}
	var cases []cse
	for _, n := range sizes {
		seen := map[int]bool{}
		for _, pos := range []int{0, n / 2, n - 1} {
			if seen[pos] {
				continue
			}
			seen[pos] = true
			for sp := range special {
				cases = append(cases, cse{n, pos, sp})
			}
		}
	}
	return &core.Family{
		Name: "wide-literals",
		Desc: fmt.Sprintf("set and record literals of n operands for n in %v, all constants except one operand (none / context.a / an erroring access / an overflowing constant / principal) at the first, middle or last position, used by contains, ==, attribute access and has: %d cases x %d environments", sizes, len(cases), len(implEnvs)),
		N:    int64(len(cases)),
		Run: func(t *core.T, i int64) {
			c := cases[i]
			elems := make([]*Expr, c.n)
			keys := make([]string, c.n)
			for k := range elems {
				elems[k] = L(Long(int64(k + 10)))
				keys[k] = fmt.Sprintf("k%d", k)
			}
			if special[c.sp] != nil {
				elems[c.pos] = special[c.sp]
			}
			set := func() *Expr { return SetLit(append([]*Expr{}, elems...)...) }
			rec := func() *Expr { return RecLit(append([]string{}, keys...), append([]*Expr{}, elems...)) }
			es := []*Expr{
				Bin(OContains, set(), L(Long(1))), Bin(OContains, set(), L(Long(int64(c.n+9)))), Bin(OContains, set(), Access(Var("context"), "a")),
				Bin(OEq, set(), set()), Un(OIsEmpty, set()),
				Bin(OEq, Access(rec(), fmt.Sprintf("k%d", c.pos)), L(Long(1))), Bin(OEq, Access(rec(), "k0"), L(Long(10))), Has(rec(), fmt.Sprintf("k%d", c.n-1)), Has(rec(), "absent"),
			}
			nontriv := false
			for _, e := range es {
				if checkExpr(t, fmt.Sprintf("wide:%s", e.Op), e, true) {
					nontriv = true
				}
			}
			if nontriv {
				t.Nontrivial()
			}
			t.Sample(fmt.Sprintf("n=%d special operand %d at position %d", c.n, c.sp, c.pos))
		},
	}
}

// arithmetic shapes: every tree with 2..3 operator nodes over + - * and unary minus, over
// constant and request-dependent leaves at the int64 limits: re-associating, distributing
// or cancelling constants at compile time changes which sub-result overflows.
func arithShapes(maxOps int) *core.Family {
	type shape struct {
		build func(l []*Expr) *Expr
		slots int
		name  string
	}
	bins := []struct {
		op   Op
		name string
	}{{OAdd, "+"}, {OSub, "-"}, {OMul, "*"}}
	byN := make([][]shape, maxOps+1)
	byN[0] = []shape{{func(l []*Expr) *Expr { return l[0] }, 1, "x"}}
	for n := 1; n <= maxOps; n++ {
		for _, c := range byN[n-1] {
			c := c
			byN[n] = append(byN[n], shape{func(l []*Expr) *Expr { return Un(ONeg, c.build(l)) }, c.slots, "neg(" + c.name + ")"})
		}
		for _, b := range bins {
			b := b
			for k := 0; k <= n-1; k++ {
				for _, l := range byN[k] {
					for _, r := range byN[n-1-k] {
						l, r := l, r
						byN[n] = append(byN[n], shape{func(x []*Expr) *Expr { return Bin(b.op, l.build(x[:l.slots]), r.build(x[l.slots:])) }, l.slots + r.slots, "(" + l.name + b.name + r.name + ")"})
					}
				}
			}
		}
	}
	var shapes []shape
	for n := 2; n <= maxOps; n++ {
		shapes = append(shapes, byN[n]...)
	}
	lv := []*Expr{L(Long(0)), L(Long(1)), L(Long(-1)), L(Long(2)), L(Long(gen.MaxI)), L(Long(gen.MinI)), Access(Var("context"), "a"), Access(Var("context"), "big"), Access(Var("context"), "small")}
	nl := int64(len(lv))
	return &core.Family{
		Name: "arithmetic-shapes",
		Desc: fmt.Sprintf("every tree with 2..%d operator nodes over {+, -, *, unary -} (%d shapes) x all leaf tuples over the constants {0, 1, -1, 2, max, min} and the request-dependent context.a (1), context.big (max), context.small (min), compared with a constant inside `==`: folded vs unfolded in every environment", maxOps, len(shapes)),
		N:    int64(len(shapes)),
		Run: func(t *core.T, i int64) {
			sh := shapes[i]
			total := pow(int(nl), sh.slots)
			ls := make([]*Expr, sh.slots)
			nontriv := false
			for r := int64(0); r < total; r++ {
				x := r
				for j := sh.slots - 1; j >= 0; j-- {
					ls[j] = lv[x%nl]
					x /= nl
				}
				e := Bin(OEq, sh.build(ls), L(Long(gen.MaxI)))
				pl := placements[0]
				if checkPolicy(t, "arith:"+sh.name, func() string { return e.String() }, func() *xast.Policy { return pl.mk(e.ToAST()) }, true) {
					nontriv = true
				}
			}
			if nontriv {
				t.Nontrivial()
			}
			t.Sample(sh.name)
		},
	}
}

func pow(b, e int) int64 {
	r := int64(1)
	for i := 0; i < e; i++ {
		r *= int64(b)
	}
	return r
}

func depth1(name string, specs []gen.OpSpec, leaves []*Expr, arity int) *core.Family {
	nl := int64(len(leaves))
	per := pow(len(leaves), arity)
	return &core.Family{
		Name: name,
		Desc: fmt.Sprintf("%d operator forms x %d leaves^%d (constants, erroring constant sub-expressions, entity literals, variables) x %d placements x %d environments", len(specs), nl, arity, len(placements), len(implEnvs)),
		N:    int64(len(specs)) * per,
		Run: func(t *core.T, i int64) {
			spec := specs[i/per]
			r := i % per
			args := make([]*Expr, arity)
			for j := arity - 1; j >= 0; j-- {
				args[j] = leaves[r%nl]
				r /= nl
			}
			e := spec.Build(args)
			if checkExpr(t, spec.Name, e, false) {
				t.Nontrivial()
			}
			t.AddStates(1)
			t.AddTrans(int64(len(placements) * len(implEnvs)))
			t.SampleF(e.String)
		},
	}
}

func depth2(leaves []*Expr) *core.Family {
	children := append(append(append([]gen.OpSpec{}, gen.Unary...), gen.Binary...), gen.Ternary...)
	type combo struct {
		p, c gen.OpSpec
		pos  int
	}
	var combos []combo
	for _, p := range children {
		for pos := 0; pos < p.Arity; pos++ {
			for _, c := range children {
				combos = append(combos, combo{p, c, pos})
			}
		}
	}
	nl := int64(len(leaves))
	return &core.Family{
		Name: "depth2-pairings",
		Desc: fmt.Sprintf("every (parent, position, child) pairing of %d operator forms (%d pairings) x all leaf tuples over %d leaves x %d placements x %d environments", len(children), len(combos), nl, len(placements), len(implEnvs)),
		N:    int64(len(combos)) * nl,
		Run: func(t *core.T, i int64) {
			cb := combos[i/nl]
			first := i % nl
			slots := cb.c.Arity + cb.p.Arity - 1
			total := pow(int(nl), slots-1)
			nt := false
			var last *Expr
			for r := int64(0); r < total; r++ {
				x := r
				ls := make([]*Expr, slots)
				ls[0] = leaves[first]
				for j := slots - 1; j >= 1; j-- {
					ls[j] = leaves[x%nl]
					x /= nl
				}
				child := cb.c.Build(ls[:cb.c.Arity])
				pargs := make([]*Expr, cb.p.Arity)
				rest := ls[cb.c.Arity:]
				ri := 0
				for j := range pargs {
					if j == cb.pos {
						pargs[j] = child
					} else {
						pargs[j] = rest[ri]
						ri++
					}
				}
				e := cb.p.Build(pargs)
				last = e
				if checkExpr(t, cb.p.Name+"/"+cb.c.Name, e, true) {
					nt = true
				}
				t.AddStates(1)
				t.AddTrans(int64(len(placements) * len(implEnvs)))
			}
			if nt {
				t.Nontrivial()
			}
			t.SampleF(last.String)
		},
	}
}

// depth-3 short-circuit forms whose skipped operand is an ill-typed constant.
func shortCircuit() *core.Family {
	bad := []*Expr{
		Bin(OAdd, L(Long(gen.MaxI)), L(Long(1))), Bin(OLt, L(Long(1)), L(Str("a"))), Ext("decimal", L(Str("x"))), L(Long(1)), Ext("nope"), Un(ONot, L(Long(1))),
		Access(Var("context"), "missing"), Access(L(Entity("U", "ghost")), "a"), Access(L(Entity("U", "alice")), "a"),
	}
	conds := []*Expr{L(Bool(true)), L(Bool(false)), Bin(OEq, L(Long(1)), L(Long(1))), Bin(OEq, L(Long(1)), L(Long(2))), Has(Var("context"), "a"), Has(L(Entity("U", "alice")), "a"), L(Long(1))}
	forms := []struct {
		name string
		f    func(c, b *Expr) *Expr
	}{
		{"c&&bad", func(c, b *Expr) *Expr { return Bin(OAnd, c, b) }},
		{"c||bad", func(c, b *Expr) *Expr { return Bin(OOr, c, b) }},
		{"bad&&c", func(c, b *Expr) *Expr { return Bin(OAnd, b, c) }},
		{"bad||c", func(c, b *Expr) *Expr { return Bin(OOr, b, c) }},
		{"if-c-bad-true", func(c, b *Expr) *Expr { return If(c, b, L(Bool(true))) }},
		{"if-c-true-bad", func(c, b *Expr) *Expr { return If(c, L(Bool(true)), b) }},
		{"!(c&&bad)", func(c, b *Expr) *Expr { return Un(ONot, Bin(OAnd, c, b)) }},
		{"(c&&bad)||true", func(c, b *Expr) *Expr { return Bin(OOr, Bin(OAnd, c, b), L(Bool(true))) }},
		{"(c||bad)&&true", func(c, b *Expr) *Expr { return Bin(OAnd, Bin(OOr, c, b), L(Bool(true))) }},
		{"if(c||bad)", func(c, b *Expr) *Expr { return If(Bin(OOr, c, b), L(Bool(true)), L(Bool(false))) }},
		{"[c&&bad].contains", func(c, b *Expr) *Expr { return Bin(OContains, SetLit(Bin(OAnd, c, b)), L(Bool(false))) }},
		{"{k:c||bad}.k", func(c, b *Expr) *Expr { return Access(RecLit([]string{"k"}, []*Expr{Bin(OOr, c, b)}), "k") }},
	}
	n := len(forms) * len(conds) * len(bad)
	return &core.Family{
		Name: "depth3-short-circuit",
		Desc: fmt.Sprintf("%d short-circuit forms x %d conditions (constant and not) x %d ill-typed / erroring / store-dependent skipped operands x %d placements x %d environments", len(forms), len(conds), len(bad), len(placements), len(implEnvs)),
		N:    int64(n),
		Run: func(t *core.T, i int64) {
			x := int(i)
			b := bad[x%len(bad)]
			x /= len(bad)
			c := conds[x%len(conds)]
			x /= len(conds)
			e := forms[x].f(c, b)
			if checkExpr(t, "sc:"+forms[x].name, e, false) {
				t.Nontrivial()
			}
			t.AddStates(1)
			t.AddTrans(int64(len(placements) * len(implEnvs)))
			t.SampleF(e.String)
		},
	}
}

// extension calls with every argument count 0..3: the AST (and policy text and JSON) can carry
// a call with too few or too many arguments; it fails when it is evaluated, whatever the
// arguments are, and a folding rule must not turn it into a value.
func extensionArity() *core.Family {
	names := ExtNames()
	lit := map[string]*Expr{"ip": L(Str("127.0.0.1")), "decimal": L(Str("1.5")), "datetime": L(Str("2024-01-01")), "duration": L(Str("1h"))}
	recv := map[string]*Expr{
		"lessThan": Ext("decimal", L(Str("1.0"))), "lessThanOrEqual": Ext("decimal", L(Str("1.0"))), "greaterThan": Ext("decimal", L(Str("1.0"))), "greaterThanOrEqual": Ext("decimal", L(Str("1.0"))),
		"isIpv4": Ext("ip", L(Str("127.0.0.1"))), "isIpv6": Ext("ip", L(Str("127.0.0.1"))), "isLoopback": Ext("ip", L(Str("127.0.0.1"))), "isMulticast": Ext("ip", L(Str("127.0.0.1"))), "isInRange": Ext("ip", L(Str("127.0.0.1"))),
		"toDate": Ext("datetime", L(Str("2024-01-01"))), "toTime": Ext("datetime", L(Str("2024-01-01"))), "offset": Ext("datetime", L(Str("2024-01-01"))), "durationSince": Ext("datetime", L(Str("2024-01-01"))),
		"toDays": Ext("duration", L(Str("1h"))), "toHours": Ext("duration", L(Str("1h"))), "toMinutes": Ext("duration", L(Str("1h"))), "toSeconds": Ext("duration", L(Str("1h"))), "toMilliseconds": Ext("duration", L(Str("1h"))),
	}
	extras := []*Expr{L(Long(1)), Access(Var("context"), "a"), L(Str("x")), Var("principal")}
	type cs struct {
		name string
		e    *Expr
	}
	var cases []cs
	for _, f := range names {
		first := lit[f]
		if first == nil {
			first = recv[f]
		}
		for n := 0; n <= 3; n++ {
			var argLists [][]*Expr
			switch n {
			case 0:
				argLists = [][]*Expr{{}}
			case 1:
				argLists = [][]*Expr{{first}, {extras[0]}, {extras[1]}}
			default:
				for _, x := range extras {
					args := []*Expr{first}
					for k := 1; k < n; k++ {
						args = append(args, x)
					}
					argLists = append(argLists, args)
				}
				// the natural second argument of the binary methods, then one more
				if r := recv[f]; r != nil && n == 3 {
					argLists = append(argLists, []*Expr{first, r, r})
				}
			}
			for _, args := range argLists {
				call := Ext(f, args...)
				cases = append(cases,
					cs{fmt.Sprintf("%s/%d", f, n), call},
					cs{fmt.Sprintf("%s/%d==self", f, n), Bin(OEq, call, call)},
					cs{fmt.Sprintf("%s/%d in set", f, n), Bin(OContains, SetLit(call, L(Bool(true))), L(Bool(true)))},
					cs{fmt.Sprintf("%s/%d ||", f, n), Bin(OOr, Bin(OEq, call, call), L(Bool(true)))},
				)
				for _, m := range []string{"isLoopback", "toDate", "toDays"} {
					cases = append(cases, cs{fmt.Sprintf("%s/%d.%s()", f, n, m), Ext(m, call)})
				}
				cases = append(cases, cs{fmt.Sprintf("%s/%d.lessThan(decimal)", f, n), Ext("lessThan", call, Ext("decimal", L(Str("2.0"))))})
			}
		}
	}
	return &core.Family{
		Name: "extension-call-arity",
		Desc: fmt.Sprintf("%d expressions: each of the %d extension functions called with 0, 1, 2 and 3 arguments (a valid first argument followed by literals, request values and variables), alone and consumed by ==, a set literal, ||, a method call: folded and unfolded classes agree in every environment", len(cases), len(names)),
		N:    int64(len(cases)),
		Run: func(t *core.T, i int64) {
			c := cases[i]
			if checkExpr(t, "ext-arity:"+c.name, c.e, true) {
				t.Nontrivial()
			}
			t.Nontrivial()
			t.SampleF(c.e.String)
		},
	}
}

func Check() *core.Check {
	return &core.Check{
		ID:        "C04",
		HangAfter: 120 * time.Second, // cases take at most seconds (max_case_s in the evidence); see core.Family.HangAfter
		Title:     "Policy compilation (constant folding) never changes a policy's meaning",
		Rule: "differential, no hand-written expectation: every enumerated policy is classified satisfied / unsatisfied / erroring through the folded path (cedar.Authorize) and the unfolded path (eval.Eval(PolicyToNode(policy.AST()))) in 6 environments that differ in exactly the facts entity-dependent nodes read; AST (DeepEqual), Cedar text and JSON compared before/after compilation; " +
			"a case is non-trivial if, in some placement, the policy's class differs between environments (it genuinely depends on the request or the store)",
		Assumptions: []string{"the unfolded evaluator is the reference (its own conformance to the specification is C01)"},
		Families: func(tier string) []*core.Family {
			full := leavesFull()
			small := leavesSmall()
			fams := []*core.Family{
				depth1("depth1-unary", gen.Unary, full, 1),
				depth1("depth1-binary", gen.Binary, full, 2),
			}
			if tier == "thorough" {
				fams = append(fams, depth1("depth1-if", gen.Ternary, full, 3), depth2(small))
			} else {
				fams = append(fams, depth1("depth1-if", gen.Ternary, small, 3), depth2(small[:5]))
			}
			if tier == "thorough" {
				fams = append(fams, arithShapes(3))
			} else {
				fams = append(fams, arithShapes(2))
			}
			return append(fams, shortCircuit(), condLists(), wideLiterals(), extensionArity())
		},
	}
}
