module github.com/cedar-policy/cedar-go/verif

go 1.23.0

require github.com/cedar-policy/cedar-go v0.0.0

require (
	golang.org/x/mod v0.22.0 // indirect
	golang.org/x/sync v0.10.0 // indirect
)

require (
	golang.org/x/exp v0.0.0-20220921023135-46d9e7742f1e // indirect
	golang.org/x/tools v0.29.0
)

replace github.com/cedar-policy/cedar-go => /repo
