// Package oracle binds the reference semantics (refsem: evaluator + decision table) to
// ground truth: it runs refsem over every request of the DRT corpus shipped with the
// repository (decisions, reason sets and error sets recorded from the Rust
// implementation) and reports every disagreement. This is NOT a deciding step for any
// property (the corpus is a sample); it is the conformance check that keeps the oracle of
// C01-C06/C15 honest, so that a disagreement found by enumeration is evidence about the
// code and not about my reading of the specification.
package oracle

import (
	"archive/tar"
	"bytes"
	"compress/gzip"
	"encoding/json"
	"fmt"
	"io"
	"os"
	"path/filepath"
	"runtime"
	"sort"
	"strings"
	"sync"
	"time"

	cedar "github.com/cedar-policy/cedar-go"
	"github.com/cedar-policy/cedar-go/types"
	"github.com/cedar-policy/cedar-go/verif/core"
	. "github.com/cedar-policy/cedar-go/verif/refsem"
	xast "github.com/cedar-policy/cedar-go/x/exp/ast"
	"github.com/cedar-policy/cedar-go/x/exp/schema"
	exptypes "github.com/cedar-policy/cedar-go/x/exp/types"
)

type jsonEntity types.EntityUID

func (e *jsonEntity) UnmarshalJSON(b []byte) error {
	if string(b) == "null" {
		return nil
	}
	var u types.EntityUID
	if err := json.Unmarshal(b, &u); err != nil {
		return err
	}
	*e = jsonEntity(u)
	return nil
}

type corpusTest struct {
	Schema   string `json:"schema"`
	Policies string `json:"policies"`
	Entities string `json:"entities"`
	Requests []struct {
		Desc      string         `json:"description"`
		Principal jsonEntity     `json:"principal"`
		Action    jsonEntity     `json:"action"`
		Resource  jsonEntity     `json:"resource"`
		Context   types.Record   `json:"context"`
		Decision  types.Decision `json:"decision"`
		Reasons   []string       `json:"reason"`
		Errors    []string       `json:"errors"`
	} `json:"requests"`
}

func loadTar(path string) (map[string][]byte, error) {
	b, err := os.ReadFile(path)
	if err != nil {
		return nil, err
	}
	gz, err := gzip.NewReader(bytes.NewReader(b))
	if err != nil {
		return nil, err
	}
	tr := tar.NewReader(gz)
	out := map[string][]byte{}
	for {
		h, err := tr.Next()
		if err == io.EOF {
			break
		}
		if err != nil {
			return nil, err
		}
		if h.Typeflag != tar.TypeReg {
			continue
		}
		data, err := io.ReadAll(tr)
		if err != nil {
			return nil, err
		}
		out[h.Name] = data
	}
	return out, nil
}

type stats struct {
	files, requests, agree, abstain, skipped int
	disagreements                            []string
}

func entVal(u jsonEntity) Val { return Entity(string(u.Type), string(u.ID)) }

func runFile(files map[string][]byte, name string, st *stats, mu *sync.Mutex) {
	var tt corpusTest
	if err := json.Unmarshal(files[name], &tt); err != nil {
		mu.Lock()
		st.skipped++
		mu.Unlock()
		return
	}
	skip := func(why string) {
		mu.Lock()
		st.skipped++
		if len(st.disagreements) < 50 {
			st.disagreements = append(st.disagreements, "SKIP "+name+": "+why)
		}
		mu.Unlock()
	}
	schemaContent := bytes.ReplaceAll(files[tt.Schema], []byte("context: {}\n"), nil)
	var s schema.Schema
	if err := s.UnmarshalCedar(schemaContent); err != nil {
		skip("schema: " + err.Error())
		return
	}
	rs, err := s.Resolve()
	if err != nil {
		skip("resolve: " + err.Error())
		return
	}
	ps, err := cedar.NewPolicySetFromBytes("policy.cedar", files[tt.Policies])
	if err != nil {
		skip("policies: " + err.Error())
		return
	}
	var em exptypes.EntityMap
	if err := em.UnmarshalJSONWithSchema(files[tt.Entities], rs); err != nil {
		skip("entities: " + err.Error())
		return
	}
	store, err := StoreFromImpl(types.EntityMap(em))
	if err != nil {
		skip("store: " + err.Error())
		return
	}
	var ids []string
	var pols []*Policy
	var forbid []bool
	for id, p := range ps.All() {
		rp, err := PolicyFromAST((*xast.Policy)(p.AST()))
		if err != nil {
			skip("policy: " + err.Error())
			return
		}
		ids = append(ids, string(id))
		pols = append(pols, rp)
		forbid = append(forbid, rp.Forbid)
	}
	for _, r := range tt.Requests {
		ctx, err := FromImpl(r.Context)
		if err != nil {
			skip("context: " + err.Error())
			continue
		}
		env := &Env{Store: store, Principal: entVal(r.Principal), Action: entVal(r.Action), Resource: entVal(r.Resource), Context: ctx}
		outs := make([]Outcome, len(pols))
		abst := false
		for i, p := range pols {
			outs[i] = p.Sat(env)
			if outs[i] == NoOpinion {
				abst = true
			}
		}
		mu.Lock()
		st.requests++
		mu.Unlock()
		if abst {
			mu.Lock()
			st.abstain++
			mu.Unlock()
			continue
		}
		d := Decide(ids, outs, forbid)
		wantR := append([]string{}, r.Reasons...)
		wantE := append([]string{}, r.Errors...)
		sort.Strings(wantR)
		sort.Strings(wantE)
		ok := d.Allow == (r.Decision == types.Allow) && strings.Join(d.Reasons, ",") == strings.Join(wantR, ",") && strings.Join(d.Errors, ",") == strings.Join(wantE, ",")
		mu.Lock()
		if ok {
			st.agree++
		} else if len(st.disagreements) < 200 {
			st.disagreements = append(st.disagreements, fmt.Sprintf("%s [%s]: refsem allow=%v reasons=%v errors=%v; corpus decision=%v reasons=%v errors=%v", name, r.Desc, d.Allow, d.Reasons, d.Errors, r.Decision, wantR, wantE))
		}
		mu.Unlock()
	}
	mu.Lock()
	st.files++
	mu.Unlock()
}

// Main runs the conformance pass. Exit 0 iff refsem reproduces every recorded outcome.
func Main() int {
	repo := os.Getenv("VERIF_REPO")
	if repo == "" {
		repo = "/repo"
	}
	start := time.Now()
	files, err := loadTar(filepath.Join(repo, "corpus-tests.tar.gz"))
	if err != nil {
		fmt.Fprintln(os.Stderr, err)
		return 2
	}
	var names []string
	for n := range files {
		if strings.HasSuffix(n, ".json") && !strings.HasSuffix(n, ".entities.json") {
			names = append(names, n)
		}
	}
	sort.Strings(names)
	var st stats
	var mu sync.Mutex
	var wg sync.WaitGroup
	ch := make(chan string)
	for w := 0; w < runtime.GOMAXPROCS(0); w++ {
		wg.Add(1)
		go func() {
			defer wg.Done()
			for n := range ch {
				func() {
					defer func() {
						if r := recover(); r != nil {
							mu.Lock()
							st.disagreements = append(st.disagreements, fmt.Sprintf("PANIC %s: %v", n, r))
							mu.Unlock()
						}
					}()
					runFile(files, n, &st, &mu)
				}()
			}
		}()
	}
	for _, n := range names {
		ch <- n
	}
	close(ch)
	wg.Wait()
	bad := 0
	for _, d := range st.disagreements {
		if !strings.HasPrefix(d, "SKIP ") {
			bad++
		}
		fmt.Println(d)
	}
	fmt.Printf("ORACLE-CONFORMANCE corpus_files=%d requests=%d agree=%d abstained=%d skipped_files=%d disagreements=%d wall=%.1fs\n", st.files, st.requests, st.agree, st.abstain, st.skipped, bad, time.Since(start).Seconds())
	rep := map[string]any{"corpus_files": st.files, "requests": st.requests, "agree": st.agree, "abstained": st.abstain, "skipped_files": st.skipped, "disagreements": bad,
		"what": "refsem (reference evaluator + decision table) run over every request of the repository's DRT corpus; decisions, reason sets and error sets compared with those recorded from the Rust implementation; not a deciding step"}
	b, _ := json.MarshalIndent(rep, "", " ")
	os.WriteFile(filepath.Join(core.OutRoot(), "oracle_conformance.json"), b, 0o644)
	if bad > 0 || st.agree == 0 {
		return 1
	}
	return 0
}
