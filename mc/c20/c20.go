// Package c20: policy containers behave as an id-keyed map over any history (E3).
package c20

import (
	"encoding/json"
	"fmt"
	"iter"
	"maps"
	"sort"
	"strings"

	cedar "github.com/cedar-policy/cedar-go"
	"github.com/cedar-policy/cedar-go/types"
	"github.com/cedar-policy/cedar-go/verif/core"
)

// policy kinds -------------------------------------------------------------

type kind int

const (
	kPA kind = iota // permit all
	kFA             // forbid all
	kPX             // permit when context.x
	kFX             // forbid when context.x
	kER             // permit when context.missing (errors on both requests)
	nKinds
)

var kindSrc = [nKinds]string{
	"permit ( principal, action, resource );",
	"forbid ( principal, action, resource );",
	"permit ( principal, action, resource ) when { context.x };",
	"forbid ( principal, action, resource ) when { context.x };",
	"permit ( principal, action, resource ) when { context.missing };",
}

var kindName = [nKinds]string{"PA", "FA", "PX", "FX", "ER"}

func (k kind) effectForbid() bool { return k == kFA || k == kFX }

// outcome of kind k on request r (0: x=true, 1: x=false): 0 unsat, 1 sat, 2 error
func (k kind) outcome(r int) int {
	switch k {
	case kPA, kFA:
		return 1
	case kPX, kFX:
		if r == 0 {
			return 1
		}
		return 0
	}
	return 2
}

var canonText [nKinds]string // MarshalCedar text of a stand-alone policy of each kind
var canonErr error

// initCanon is called when the check starts (not at package init: a repository change that
// breaks parsing must surface as a violation of the running check, not crash every check).
func initCanon() {
	for k := kind(0); k < nKinds; k++ {
		var p cedar.Policy
		if err := p.UnmarshalCedar([]byte(kindSrc[k])); err != nil {
			canonErr = fmt.Errorf("%s: %w", kindSrc[k], err)
			return
		}
		canonText[k] = string(p.MarshalCedar())
	}
}

var requests = [2]cedar.Request{
	{Principal: types.NewEntityUID("U", "u"), Action: types.NewEntityUID("Action", "a"), Resource: types.NewEntityUID("R", "r"),
		Context: types.NewRecord(types.RecordMap{"x": types.True})},
	{Principal: types.NewEntityUID("U", "u"), Action: types.NewEntityUID("Action", "a"), Resource: types.NewEntityUID("R", "r"),
		Context: types.NewRecord(types.RecordMap{"x": types.False})},
}

// model ----------------------------------------------------------------------

type mpol struct {
	k   kind
	pos cedar.Position
	ptr *cedar.Policy // expected pointer identity if known
}

type model struct {
	set  map[cedar.PolicyID]mpol
	copy map[cedar.PolicyID]mpol // live copy taken by Map()/Collect(All()), nil if none
	seq  map[cedar.PolicyID]mpol // contents when the kept All() sequence was obtained, nil if none
	kept string                  // the JSON + Cedar encodings handed out by the "keep encodings" op ("" if none)
}

func (m *model) key() string {
	var sb strings.Builder
	wr := func(mm map[cedar.PolicyID]mpol) {
		ids := make([]string, 0, len(mm))
		for id := range mm {
			ids = append(ids, string(id))
		}
		sort.Strings(ids)
		for _, id := range ids {
			p := mm[cedar.PolicyID(id)]
			fmt.Fprintf(&sb, "%s=%s@%s:%d:%d:%d;", id, kindName[p.k], p.pos.Filename, p.pos.Offset, p.pos.Line, p.pos.Column)
		}
	}
	wr(m.set)
	if m.copy != nil {
		sb.WriteString("|copy:")
		wr(m.copy)
	}
	if m.seq != nil {
		sb.WriteString("|seq:")
		wr(m.seq)
	}
	if m.kept != "" {
		sb.WriteString("|kept:" + m.kept)
	}
	return sb.String()
}

func sortedIDs(mm map[cedar.PolicyID]mpol) []cedar.PolicyID {
	ids := make([]cedar.PolicyID, 0, len(mm))
	for id := range mm {
		ids = append(ids, id)
	}
	sort.Slice(ids, func(i, j int) bool { return ids[i] < ids[j] })
	return ids
}

// cedarDoc is the model of MarshalCedar + NewPolicySetFromBytes: policies in
// lexicographic id order, joined by a blank line, renumbered policy0.. with
// positions computed from the construction of the document.
func cedarDoc(mm map[cedar.PolicyID]mpol, filename string) (string, map[cedar.PolicyID]mpol) {
	ids := sortedIDs(mm)
	var sb strings.Builder
	out := map[cedar.PolicyID]mpol{}
	for i, id := range ids {
		p := mm[id]
		off := sb.Len()
		line := 1 + strings.Count(sb.String(), "\n")
		out[cedar.PolicyID(fmt.Sprintf("policy%d", i))] = mpol{k: p.k, pos: cedar.Position{Filename: filename, Offset: off, Line: line, Column: 1}}
		sb.WriteString(canonText[p.k])
		if i < len(ids)-1 {
			sb.WriteString("\n\n")
		}
	}
	return sb.String(), out
}

// operations -----------------------------------------------------------------

var opIDs = []cedar.PolicyID{"a", "policy1", "policy10", "policy2"}

type op struct {
	name string
	kind int // 0 add, 1 remove, 2 reloadCedar, 3 reloadJSON(fresh), 4 reloadJSON(into same set), 5 copyMap, 6 copyAll, 7 mutateCopy, 8 unmarshal fixed JSON into same set
	id   cedar.PolicyID
	k    kind
}

var ops []op

func init() {
	for _, id := range opIDs {
		for k := kind(0); k < nKinds; k++ {
			ops = append(ops, op{name: fmt.Sprintf("Add(%s,%s)", id, kindName[k]), kind: 0, id: id, k: k})
		}
	}
	for _, id := range opIDs {
		ops = append(ops, op{name: fmt.Sprintf("Remove(%s)", id), kind: 1, id: id})
	}
	ops = append(ops,
		op{name: "MarshalCedar->NewPolicySetFromBytes(f.cedar)", kind: 2},
		op{name: "MarshalJSON->UnmarshalJSON(fresh)", kind: 3},
		op{name: "MarshalJSON->UnmarshalJSON(self)", kind: 4},
		op{name: "copy=Map()", kind: 5},
		op{name: "copy=maps.Collect(All())", kind: 6},
		op{name: "mutate(copy)", kind: 7},
		op{name: "UnmarshalJSON(fixed doc into self)", kind: 8},
		op{name: "seq=All() kept for later", kind: 9},
		op{name: "js,txt=MarshalJSON(),MarshalCedar() kept for later", kind: 10},
		op{name: "Get(a).UnmarshalCedar(forbid-all)", kind: 11},
		op{name: "Get(policy1).UnmarshalJSON(json of Get(a) or permit-all)", kind: 12},
	)
}

// initial states ---------------------------------------------------------------

var prefixes = []string{"", " ", "\n", "// c\n", "\t\t", " \n  ", "/* x */ "}

// initDoc builds a document of n policies with varied layout and returns the
// expected contents (ids policy0.. in document order, positions by construction).
func initDoc(n int) (string, map[cedar.PolicyID]mpol) {
	var sb strings.Builder
	out := map[cedar.PolicyID]mpol{}
	line, col := 1, 1
	adv := func(s string) {
		for _, r := range s {
			if r == '\n' {
				line++
				col = 1
			} else {
				col++
			}
		}
		sb.WriteString(s)
	}
	for i := 0; i < n; i++ {
		adv(prefixes[i%len(prefixes)])
		k := kind((i*2 + i/5) % int(nKinds))
		out[cedar.PolicyID(fmt.Sprintf("policy%d", i))] = mpol{k: k, pos: cedar.Position{Filename: "init.cedar", Offset: sb.Len(), Line: line, Column: col}}
		adv(kindSrc[k])
		adv("\n")
	}
	return sb.String(), out
}

const nInits = 14 // NewPolicySet(); documents with 0..12 policies

// one execution ------------------------------------------------------------------

type exec struct {
	t    *core.T
	path []int
	desc []string
	ps   *cedar.PolicySet
	cp   cedar.PolicyMap
	seq  iter.Seq2[cedar.PolicyID, *cedar.Policy] // an All() sequence obtained earlier from ps
	kJS  []byte                                   // encodings handed out earlier (the very slices that were returned)
	kTxt []byte
	m    model
	pool [nKinds]*cedar.Policy
	bad  bool
}

func (e *exec) fail(sig, exp, obs string) {
	e.bad = true
	e.t.Fail(sig, strings.Join(e.desc, " ; "), exp, obs)
}

func posStr(p cedar.Position) string {
	return fmt.Sprintf("%s:%d:%d:%d", p.Filename, p.Offset, p.Line, p.Column)
}

// observe compares everything observable of the container with the model.
func (e *exec) observe(after string) {
	ps, m := e.ps, &e.m
	// Get / pointer identity / kind / position
	allIDs := map[cedar.PolicyID]bool{}
	for _, id := range opIDs {
		allIDs[id] = true
	}
	for id := range m.set {
		allIDs[id] = true
	}
	allIDs["policy0"] = true
	allIDs["nope"] = true
	for id := range allIDs {
		got := ps.Get(id)
		want, ok := m.set[id]
		if !ok {
			if got != nil {
				e.fail("get-absent-nonnil:"+after, fmt.Sprintf("Get(%s)=nil", id), "non-nil")
			}
			continue
		}
		if got == nil {
			e.fail("get-present-nil:"+after, fmt.Sprintf("Get(%s)!=nil", id), "nil")
			continue
		}
		if want.ptr != nil && got != want.ptr {
			e.fail("get-identity:"+after, fmt.Sprintf("Get(%s) returns the policy that was added", id), "a different pointer")
		}
		if got != ps.Get(id) {
			e.fail("get-unstable:"+after, "same pointer on repeated Get", "different pointers")
		}
		if txt := string(got.MarshalCedar()); txt != canonText[want.k] {
			e.fail("get-content:"+after, fmt.Sprintf("Get(%s) is %s", id, kindName[want.k]), txt)
		}
		if got.Position() != want.pos {
			e.fail("position:"+after, fmt.Sprintf("Get(%s).Position()=%s", id, posStr(want.pos)), posStr(got.Position()))
		}
	}
	// Map and All
	chk := func(name string, got map[cedar.PolicyID]*cedar.Policy, mm map[cedar.PolicyID]mpol, identity bool) {
		if len(got) != len(mm) {
			e.fail(name+"-size:"+after, fmt.Sprintf("%d entries %v", len(mm), sortedIDs(mm)), fmt.Sprintf("%d entries", len(got)))
			return
		}
		for id, p := range got {
			w, ok := mm[id]
			if !ok || p == nil {
				e.fail(name+"-ids:"+after, fmt.Sprintf("ids %v", sortedIDs(mm)), fmt.Sprintf("has %s (nil=%v)", id, p == nil))
				return
			}
			if identity && p != ps.Get(id) {
				e.fail(name+"-identity:"+after, "same pointers as Get", "different")
			}
			if string(p.MarshalCedar()) != canonText[w.k] || p.Position() != w.pos {
				e.fail(name+"-content:"+after, fmt.Sprintf("%s is %s@%s", id, kindName[w.k], posStr(w.pos)), string(p.MarshalCedar())+"@"+posStr(p.Position()))
			}
		}
	}
	chk("Map", ps.Map(), m.set, true)
	chk("All", maps.Collect(ps.All()), m.set, true)
	// All with early break yields exactly one element and does not disturb anything
	cnt := 0
	for range ps.All() {
		cnt++
		break
	}
	if want := min(1, len(m.set)); cnt != want {
		e.fail("All-break:"+after, fmt.Sprint(want), fmt.Sprint(cnt))
	}
	if e.cp != nil {
		chk("copy", e.cp, m.copy, false)
	}
	if e.m.kept != "" && string(e.kJS)+"\x00"+string(e.kTxt) != e.m.kept {
		e.fail("returned-encoding-changed-later:"+after, e.m.kept, string(e.kJS)+"\x00"+string(e.kTxt))
	}
	if e.seq != nil {
		// a sequence obtained earlier and iterated now: either the contents when it was
		// obtained (snapshot) or the current contents (live view) - never a mixture
		got := maps.Collect(e.seq)
		same := func(mm map[cedar.PolicyID]mpol) bool {
			if len(got) != len(mm) {
				return false
			}
			for id, p := range got {
				w, ok := mm[id]
				if !ok || p == nil || string(p.MarshalCedar()) != canonText[w.k] {
					return false
				}
			}
			return true
		}
		if !same(m.set) && !same(m.seq) {
			var ids []string
			for id := range got {
				ids = append(ids, string(id))
			}
			sort.Strings(ids)
			e.fail("kept-All-sequence:"+after, fmt.Sprintf("the current contents %v or the contents when All() was called %v", sortedIDs(m.set), sortedIDs(m.seq)), fmt.Sprint(ids))
		}
	}
	// MarshalCedar order
	wantDoc, _ := cedarDoc(m.set, "")
	if got := string(ps.MarshalCedar()); got != wantDoc {
		e.fail("MarshalCedar-order:"+after, wantDoc, got)
	}
	// authorization depends only on the current contents
	for r := range requests {
		dec, diag := cedar.Authorize(ps, nil, requests[r])
		var forb, perm, errs []string
		for _, id := range sortedIDs(m.set) {
			p := m.set[id]
			item := string(id) + "@" + posStr(p.pos)
			switch p.k.outcome(r) {
			case 1:
				if p.k.effectForbid() {
					forb = append(forb, item)
				} else {
					perm = append(perm, item)
				}
			case 2:
				errs = append(errs, item)
			}
		}
		wantDec := len(perm) > 0 && len(forb) == 0
		wantReasons := perm
		if len(forb) > 0 {
			wantReasons = forb
		}
		var gotReasons, gotErrs []string
		for _, x := range diag.Reasons {
			gotReasons = append(gotReasons, string(x.PolicyID)+"@"+posStr(x.Position))
		}
		for _, x := range diag.Errors {
			gotErrs = append(gotErrs, string(x.PolicyID)+"@"+posStr(x.Position))
		}
		sort.Strings(gotReasons)
		sort.Strings(gotErrs)
		sort.Strings(wantReasons)
		sort.Strings(errs)
		exp := fmt.Sprintf("allow=%v reasons=%v errors=%v", wantDec, wantReasons, errs)
		obs := fmt.Sprintf("allow=%v reasons=%v errors=%v", bool(dec), gotReasons, gotErrs)
		if exp != obs {
			e.fail(fmt.Sprintf("authorize:%s", after), fmt.Sprintf("request %d: %s", r, exp), obs)
		}
		dec2, _ := ps.IsAuthorized(nil, requests[r])
		if dec2 != dec {
			e.fail("IsAuthorized-differs:"+after, fmt.Sprint(dec), fmt.Sprint(dec2))
		}
	}
}

func (e *exec) newPol(k kind) *cedar.Policy {
	if e.pool[k] == nil {
		var p cedar.Policy
		if err := p.UnmarshalCedar([]byte(kindSrc[k])); err != nil {
			panic(err)
		}
		e.pool[k] = &p
	}
	return e.pool[k]
}

func cloneM(mm map[cedar.PolicyID]mpol) map[cedar.PolicyID]mpol {
	out := make(map[cedar.PolicyID]mpol, len(mm))
	for k, v := range mm {
		out[k] = v
	}
	return out
}

const fixedJSON = `{"staticPolicies":{"j1":{"effect":"forbid","principal":{"op":"All"},"action":{"op":"All"},"resource":{"op":"All"},"conditions":[]},"a":{"effect":"permit","principal":{"op":"All"},"action":{"op":"All"},"resource":{"op":"All"},"conditions":[]}}}`

func (e *exec) apply(o op) {
	ps, m := e.ps, &e.m
	switch o.kind {
	case 0:
		p := e.newPol(o.k)
		_, existed := m.set[o.id]
		got := ps.Add(o.id, p)
		if got != !existed {
			e.fail("Add-return", fmt.Sprint(!existed), fmt.Sprint(got))
		}
		m.set[o.id] = mpol{k: o.k, pos: cedar.Position{Offset: 0, Line: 1, Column: 1}, ptr: p}
	case 1:
		_, existed := m.set[o.id]
		got := ps.Remove(o.id)
		if got != existed {
			e.fail("Remove-return", fmt.Sprint(existed), fmt.Sprint(got))
		}
		delete(m.set, o.id)
	case 2:
		doc := ps.MarshalCedar()
		wantDoc, renum := cedarDoc(m.set, "f.cedar")
		if string(doc) != wantDoc {
			e.fail("MarshalCedar-order", wantDoc, string(doc))
		}
		nps, err := cedar.NewPolicySetFromBytes("f.cedar", doc)
		if err != nil {
			e.fail("reload-cedar-error", "parses", err.Error())
			return
		}
		e.ps = nps
		e.seq, m.seq = nil, nil // another PolicySet object from here on
		m.set = renum
	case 3, 4:
		b, err := ps.MarshalJSON()
		if err != nil {
			e.fail("MarshalJSON-error", "no error", err.Error())
			return
		}
		target := ps
		if o.kind == 3 {
			target = cedar.NewPolicySet()
			// a fresh target that already holds something: UnmarshalJSON must replace, not merge
			target.Add("stale", e.newPol(kFA))
		}
		if err := target.UnmarshalJSON(b); err != nil {
			e.fail("UnmarshalJSON-error", "no error", err.Error())
			return
		}
		if target != e.ps {
			e.seq, m.seq = nil, nil
		}
		e.ps = target
		ns := map[cedar.PolicyID]mpol{}
		for id, p := range m.set {
			ns[id] = mpol{k: p.k} // JSON carries no position; pointers are new
		}
		m.set = ns
	case 5:
		e.cp = ps.Map()
		m.copy = cloneM(m.set)
	case 6:
		e.cp = maps.Collect(ps.All())
		if e.cp == nil {
			e.cp = cedar.PolicyMap{}
		}
		m.copy = cloneM(m.set)
	case 7:
		if e.cp == nil {
			return
		}
		for id := range e.cp {
			delete(e.cp, id)
		}
		e.cp["zz"] = e.newPol(kFA)
		m.copy = map[cedar.PolicyID]mpol{"zz": {k: kFA, pos: cedar.Position{Line: 1, Column: 1}}}
	case 8:
		if err := json.Unmarshal([]byte(fixedJSON), ps); err != nil {
			e.fail("UnmarshalJSON-fixed-error", "no error", err.Error())
			return
		}
		m.set = map[cedar.PolicyID]mpol{"j1": {k: kFA}, "a": {k: kPA}}
	case 9:
		e.seq = ps.All()
		m.seq = cloneM(m.set)
	case 11, 12:
		// re-decode INTO a policy object that the set holds: the set's contents change with it
		id, nk := cedar.PolicyID("a"), kFA
		if o.kind == 12 {
			id, nk = "policy1", kPA
		}
		p := ps.Get(id)
		if p == nil || m.set[id].ptr != nil {
			return // absent, or an object the harness also holds elsewhere (aliasing is the caller's business)
		}
		// copies taken earlier hold the same object: drop them rather than model the aliasing
		e.cp, m.copy = nil, nil
		var err error
		if o.kind == 11 {
			err = p.UnmarshalCedar([]byte(kindSrc[nk]))
		} else {
			js, _ := e.newPol(nk).MarshalJSON()
			err = p.UnmarshalJSON(js)
		}
		if err != nil {
			e.fail("re-unmarshal-error", "no error", err.Error())
			return
		}
		old := m.set[id]
		np := mpol{k: nk, ptr: old.ptr}
		if o.kind == 11 {
			np.pos = cedar.Position{Offset: 0, Line: 1, Column: 1}
		}
		m.set[id] = np
	case 10:
		js, err := ps.MarshalJSON()
		if err != nil {
			e.fail("MarshalJSON-error", "no error", err.Error())
			return
		}
		e.kJS, e.kTxt = js, ps.MarshalCedar()
		m.kept = string(e.kJS) + "\x00" + string(e.kTxt) // a copy: strings are immutable
	}
}

func run(t *core.T, initIdx int, path []int) (string, bool) {
	e := &exec{t: t, path: path}
	if initIdx == 0 {
		e.ps = cedar.NewPolicySet()
		e.m.set = map[cedar.PolicyID]mpol{}
		e.desc = append(e.desc, "NewPolicySet()")
	} else {
		doc, want := initDoc(initIdx - 1)
		ps, err := cedar.NewPolicySetFromBytes("init.cedar", []byte(doc))
		if err != nil {
			t.Fail("harness-init-doc", doc, "parses", err.Error())
			return "", false
		}
		e.ps = ps
		e.m.set = want
		e.desc = append(e.desc, fmt.Sprintf("NewPolicySetFromBytes(init.cedar, %q)", doc))
	}
	if len(path) == 0 {
		e.observe("init")
	}
	for i, oi := range path {
		o := ops[oi]
		e.desc = append(e.desc, o.name)
		e.apply(o)
		if e.bad {
			return "bad", false
		}
		// prefixes were observed when they were generated; observe the new state
		if i == len(path)-1 {
			e.observe(strings.SplitN(o.name, "(", 2)[0])
		}
	}
	if e.bad {
		return "bad", false
	}
	return e.m.key(), true
}

// long histories ------------------------------------------------------------------
//
// The BFS covers every history up to a small depth; counters, tables and free lists inside the
// container turn over after hundreds or thousands of operations. A long history is a short
// period of operations repeated until each of them has run more than `reps` times, observed
// (everything observe compares) after every single step.

func opIndex(name string) int {
	for i, o := range ops {
		if o.name == name {
			return i
		}
	}
	panic("no op " + name)
}

func longPeriods(tier string) [][]int {
	var out [][]int
	add0, rm0 := 0, len(opIDs)*int(nKinds)               // Add(id0, kind0), Remove(id0)
	add1, rm1 := int(nKinds)+1, len(opIDs)*int(nKinds)+1 // Add(id1, kind1), Remove(id1)
	out = append(out,
		[]int{add0, rm0},
		[]int{add0, add1, rm0, rm1},
		[]int{add0, add1, rm1, rm0},
		[]int{add0, rm0, rm0},
		[]int{add0, add0 + 1},
		[]int{add0, rm1},
	)
	for _, n := range []string{"MarshalCedar->NewPolicySetFromBytes(f.cedar)", "MarshalJSON->UnmarshalJSON(fresh)", "MarshalJSON->UnmarshalJSON(self)", "copy=Map()", "copy=maps.Collect(All())", "seq=All() kept for later", "js,txt=MarshalJSON(),MarshalCedar() kept for later"} {
		out = append(out, []int{add0, opIndex(n), rm0}, []int{add0, rm0, opIndex(n)})
	}
	out = append(out, []int{add0, opIndex("copy=Map()"), rm0, opIndex("mutate(copy)")})
	if tier == "thorough" {
		// every ordered pair of operations, alternated
		for i := range ops {
			for j := range ops {
				if i != j {
					out = append(out, []int{i, j})
				}
			}
		}
	}
	return out
}

func runLong(t *core.T, initIdx int, period []int, reps int) {
	e := &exec{t: t}
	var head string
	if initIdx == 0 {
		e.ps = cedar.NewPolicySet()
		e.m.set = map[cedar.PolicyID]mpol{}
		head = "NewPolicySet()"
	} else {
		doc, want := initDoc(initIdx - 1)
		ps, err := cedar.NewPolicySetFromBytes("init.cedar", []byte(doc))
		if err != nil {
			t.Fail("harness-init-doc", doc, "parses", err.Error())
			return
		}
		e.ps = ps
		e.m.set = want
		head = fmt.Sprintf("NewPolicySetFromBytes(init.cedar, %q)", doc)
	}
	var names []string
	for _, oi := range period {
		names = append(names, ops[oi].name)
	}
	for r := 0; r < reps; r++ {
		for k, oi := range period {
			o := ops[oi]
			e.path = append(e.path, oi)
			e.desc = []string{head, fmt.Sprintf("then the period [%s] %d times, then its first %d operation(s)", strings.Join(names, " ; "), r, k+1)}
			e.apply(o)
			if !e.bad {
				e.observe(strings.SplitN(o.name, "(", 2)[0])
			}
			if e.bad {
				return
			}
			t.AddTrans(1)
		}
	}
	t.AddStates(int64(reps * len(period)))
}

func longHistories(tier string) *core.Family {
	periods := longPeriods(tier)
	nHand := len(longPeriods("quick"))
	reps := 1100
	inits := []int{0, 3}
	return &core.Family{
		Name: "long-histories",
		Desc: fmt.Sprintf("%d periods of 2-4 operations (add/remove cycles on one and two ids, replacement, failed removes, each reload / copy / kept-sequence operation inside an add/remove cycle%s), each repeated %d times from %d initial states, every observable compared with the model after every step", len(periods), map[bool]string{true: "; every ordered pair of operations alternated", false: ""}[tier == "thorough"], reps, len(inits)),
		N:    int64(len(periods) * len(inits)),
		Run: func(t *core.T, i int64) {
			if canonErr != nil {
				return
			}
			p := periods[int(i)/len(inits)]
			if int(i)/len(inits) >= nHand && int(i)%len(inits) != 0 {
				return // the generated pairs run from the empty set only
			}
			runLong(t, inits[int(i)%len(inits)], p, reps)
			t.Nontrivial()
		},
	}
}

// every Unicode scalar value as a policy id (256 ids per case, alone and inside a longer id):
// the id-keyed map and its JSON round trip must not depend on what characters an id is made of.
func scalarIDs() *core.Family {
	const block = 256
	return &core.Family{
		Name: "every-scalar-as-policy-id",
		Desc: "policy sets whose ids are the Unicode scalar values U+0000..U+10FFFF (256 per case, each alone and as `tenant<c>rule`): Get / Map / All agree with the model; MarshalJSON (and encoding/json) -> UnmarshalJSON into a fresh set and into the set itself reproduces the id -> policy map",
		N:    0x110000 / block,
		Run: func(t *core.T, i int64) {
			if canonErr != nil {
				return
			}
			ps := cedar.NewPolicySet()
			want := map[cedar.PolicyID]kind{}
			for r := rune(i * block); r < rune((i+1)*block); r++ {
				if r >= 0xD800 && r <= 0xDFFF {
					continue
				}
				for v, id := range []cedar.PolicyID{cedar.PolicyID(string(r)), cedar.PolicyID("tenant" + string(r) + "rule")} {
					k := kind((int(r) + v) % int(nKinds))
					var p cedar.Policy
					if err := p.UnmarshalCedar([]byte(kindSrc[k])); err != nil {
						t.Fail("harness-kind-src", kindSrc[k], "parses", err.Error())
						return
					}
					ps.Add(id, &p)
					want[id] = k
				}
			}
			in := fmt.Sprintf("ids U+%04X..U+%04X", i*block, (i+1)*block-1)
			same := func(name string, got *cedar.PolicySet) {
				m := got.Map()
				if len(m) != len(want) {
					t.Fail("scalar-ids:"+name+":size", in, fmt.Sprint(len(want)), fmt.Sprint(len(m)))
					return
				}
				for id, k := range want {
					p := got.Get(id)
					if p == nil || m[id] == nil {
						t.Fail("scalar-ids:"+name+":id-lost", in+fmt.Sprintf(" id %q", string(id)), "present", "absent")
						return
					}
					if txt := string(p.MarshalCedar()); txt != canonText[k] {
						t.Fail("scalar-ids:"+name+":policy-changed", in+fmt.Sprintf(" id %q", string(id)), canonText[k], txt)
						return
					}
				}
			}
			same("built", ps)
			for _, enc := range []struct {
				name string
				f    func() ([]byte, error)
			}{{"MarshalJSON", ps.MarshalJSON}, {"json.Marshal", func() ([]byte, error) { return json.Marshal(ps) }}} {
				js, err := enc.f()
				if err != nil {
					t.Fail("scalar-ids:"+enc.name+":error", in, "encodes", err.Error())
					continue
				}
				if !json.Valid(js) {
					t.Fail("scalar-ids:"+enc.name+":invalid-json", in, "valid JSON", "invalid JSON")
					continue
				}
				fresh := cedar.NewPolicySet()
				if err := fresh.UnmarshalJSON(js); err != nil {
					t.Fail("scalar-ids:"+enc.name+":does-not-decode", in, "decodes", err.Error())
					continue
				}
				same(enc.name+"->fresh", fresh)
				if err := ps.UnmarshalJSON(js); err != nil {
					t.Fail("scalar-ids:"+enc.name+":does-not-decode-into-self", in, "decodes", err.Error())
					continue
				}
				same(enc.name+"->self", ps)
			}
			t.Nontrivial()
			t.AddStates(int64(len(want)))
		},
	}
}

func Check() *core.Check {
	return &core.Check{
		ID:    "C20",
		Title: "Policy containers behave as an id-keyed map over any history of operations",
		Rule: "explicit-state BFS over histories of container operations (Add x4 ids x5 kinds, Remove, Cedar/JSON reload, copies and their mutation) from 14 initial states; " +
			"every transition is executed on a fresh real PolicySet (path replay) and on a Go-map model, all observables compared (Get identity, Map, All, early break, MarshalCedar order, positions, Authorize on 2 requests vs decision table); " +
			"a case (initial state) is non-trivial if its search reached more than one distinct model state",
		Assumptions: []string{
			"canonical policy text of each kind is taken from Policy.MarshalCedar of a stand-alone policy (text forms are C08's subject)",
			"a policy decoded from JSON has the zero Position (the JSON format carries none)",
			"zero-value PolicySet (nil map) is outside the alphabet",
		},
		Families: func(tier string) []*core.Family {
			initCanon()
			depth := 4
			if tier == "thorough" {
				depth = 6
			}
			return []*core.Family{longHistories(tier), scalarIDs(), {
				Name:   "history-bfs",
				Desc:   fmt.Sprintf("BFS depth<=%d over %d operations from %d initial states (empty set; documents of 0..12 policies)", depth, len(ops), nInits),
				N:      nInits,
				Serial: true,
				Run: func(t *core.T, i int64) {
					if canonErr != nil {
						t.Fail("basic-policy-does-not-parse", canonErr.Error(), "parses", canonErr.Error())
						return
					}
					d := depth
					if i > 3 && d > 3 {
						d-- // large documents: one level less (observation cost grows with the set)
					}
					st := core.BFS(t, len(ops), d, 0, func(ct *core.T, path []int) (string, bool) { return run(ct, int(i), path) })
					if st.States > 1 {
						t.Nontrivial()
					}
					t.Obs(fmt.Sprintf("init%d:states=%d", i, st.States))
					t.Sample(fmt.Sprintf("init %d: %d states, %d transitions, max depth %d; e.g. history [%s, %s, %s]", i, st.States, st.Transitions, st.MaxDepth, ops[0].name, ops[24].name, ops[20].name))
				},
			}}
		},
	}
}
