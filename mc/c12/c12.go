// Package c12: scalar and extension values have exact, canonical text forms (E1 + E6).
package c12

import (
	"encoding/json"
	"fmt"
	"math"
	"math/big"
	"strings"
	"time"
	"unicode/utf8"

	cedar "github.com/cedar-policy/cedar-go"
	"github.com/cedar-policy/cedar-go/types"
	"github.com/cedar-policy/cedar-go/verif/core"
	"github.com/cedar-policy/cedar-go/verif/gen"
	. "github.com/cedar-policy/cedar-go/verif/refsem"
	xast "github.com/cedar-policy/cedar-go/x/exp/ast"
	"github.com/cedar-policy/cedar-go/x/exp/eval"
)

const firstDayEnd = gen.MinI + 86400000 // datetimes in the first 24 h of the range are rejected by the impl (known finding: minDatetime one day late)

var env0 = eval.Env{Entities: types.EntityMap{}, Principal: types.NewEntityUID("U", "a"), Action: types.NewEntityUID("A", "a"), Resource: types.NewEntityUID("R", "a"), Context: types.Record{}}

func evalText(text string) (Val, error) {
	var p cedar.Policy
	if err := p.UnmarshalCedar([]byte("permit(principal,action,resource) when { " + text + " };")); err != nil {
		return Val{}, err
	}
	v, err := eval.Eval((*xast.Policy)(p.AST()).Conditions[0].Body, env0)
	if err != nil {
		return Val{}, err
	}
	return FromImpl(v)
}

// boundary integers: +-2^k +- {0,1}, +-10^k +- {0,1}, limits
func boundaryInts() []int64 {
	seen := map[int64]bool{}
	var out []int64
	add := func(x *big.Int) {
		if x.IsInt64() && !seen[x.Int64()] {
			seen[x.Int64()] = true
			out = append(out, x.Int64())
		}
	}
	for _, base := range []int64{2, 10} {
		p := big.NewInt(1)
		for k := 0; k < 64; k++ {
			for _, d := range []int64{-1, 0, 1} {
				add(new(big.Int).Add(p, big.NewInt(d)))
				add(new(big.Int).Add(new(big.Int).Neg(p), big.NewInt(d)))
			}
			p = new(big.Int).Mul(p, big.NewInt(base))
		}
	}
	add(big.NewInt(math.MaxInt64))
	add(big.NewInt(math.MinInt64))
	return out
}

// ed1 returns every string within edit distance 1 of s over the alphabet.
func ed1(s, alphabet string) []string {
	seen := map[string]bool{s: true}
	out := []string{s}
	add := func(x string) {
		if !seen[x] {
			seen[x] = true
			out = append(out, x)
		}
	}
	for i := 0; i <= len(s); i++ {
		for _, c := range alphabet {
			add(s[:i] + string(c) + s[i:])
		}
	}
	for i := 0; i < len(s); i++ {
		add(s[:i] + s[i+1:])
		for _, c := range alphabet {
			add(s[:i] + string(c) + s[i+1:])
		}
	}
	return out
}

// ---------------------------------------------------------------------------
// long

func longFamily() *core.Family {
	vals := boundaryInts()
	return &core.Family{
		Name: "long-boundaries",
		Desc: fmt.Sprintf("%d longs (+-2^k+-{0,1}, +-10^k+-{0,1}, both limits): Cedar text and JSON round trip; one past the limits rejected", len(vals)),
		N:    int64(len(vals)) + 6,
		Run: func(t *core.T, i int64) {
			t.Nontrivial()
			if int(i) >= len(vals) {
				bad := []string{"9223372036854775808", "-9223372036854775809", "1.0", "1e2", "18446744073709551616", "\"1\""}[int(i)-len(vals)]
				var l types.Long
				if err := json.Unmarshal([]byte(bad), &l); err == nil {
					t.Fail("long-json-accepts:"+bad, bad, "rejected", fmt.Sprint(l))
				}
				var v types.Value
				if err := types.UnmarshalJSON([]byte(bad), &v); err == nil {
					if _, isLong := v.(types.Long); isLong {
						t.Fail("value-json-accepts-as-long:"+bad, bad, "rejected or not a long", fmt.Sprint(v))
					}
				}
				t.Sample(bad)
				return
			}
			x := vals[i]
			l := types.Long(x)
			text := string(l.MarshalCedar())
			if rv, err := evalText(text); err != nil || !rv.Equal(Long(x)) {
				t.Fail("long-text-roundtrip", text, fmt.Sprint(x), fmt.Sprint(rv.Key(), err))
			}
			if l.String() != big.NewInt(x).String() {
				t.Fail("long-string", fmt.Sprint(x), big.NewInt(x).String(), l.String())
			}
			js, err := json.Marshal(l)
			var back types.Value
			if err == nil {
				err = types.UnmarshalJSON(js, &back)
			}
			if err != nil || back != types.Value(l) {
				t.Fail("long-json-roundtrip", string(js), fmt.Sprint(x), fmt.Sprint(back, err))
			}
			t.SampleF(func() string { return text })
		},
	}
}

// ---------------------------------------------------------------------------
// decimal

func checkDecimalValue(t *core.T, units int64) {
	d, err := types.NewDecimal(units, -4)
	if err != nil {
		t.Fail("NewDecimal(i,-4)-error", fmt.Sprint(units), "exact value", err.Error())
		return
	}
	if DecimalUnits(d) != units {
		t.Fail("NewDecimal(i,-4)-inexact", fmt.Sprint(units), fmt.Sprint(units), fmt.Sprint(DecimalUnits(d)))
		return
	}
	s := d.String()
	rv, ok := ParseDecimal(s)
	if !ok || rv.I != units {
		t.Fail("decimal-printed-form-invalid", fmt.Sprintf("units %d -> %q", units, s), DecimalString(units), s)
	}
	back, err := types.ParseDecimal(s)
	if err != nil || DecimalUnits(back) != units {
		t.Fail("decimal-roundtrip", fmt.Sprintf("units %d -> %q", units, s), fmt.Sprint(units), fmt.Sprint(DecimalUnits(back), err))
	}
	if rv, err := evalText(string(d.MarshalCedar())); err != nil || !rv.Equal(Decimal(units)) {
		t.Fail("decimal-cedar-text-roundtrip", string(d.MarshalCedar()), fmt.Sprint(units), fmt.Sprint(rv.Key(), err))
	} // alternative spellings of the same value: leading zeros in the integer part (any number),
	// trailing zeros in the fraction (up to four digits in all)
	for _, alt := range decimalSpellings(s) {
		cmpParse(t, "decimal", alt, ParseDecimal, implDecimal)
		if rv, ok := ParseDecimal(alt); ok && rv.I != units {
			t.Fail("harness-decimal-spelling", alt, fmt.Sprint(units), fmt.Sprint(rv.I))
		}
	}
}

func decimalSpellings(s string) []string {
	neg := strings.HasPrefix(s, "-")
	body := strings.TrimPrefix(s, "-")
	ip, fp, _ := strings.Cut(body, ".")
	sign := ""
	if neg {
		sign = "-"
	}
	out := []string{sign + "0" + ip + "." + fp, sign + strings.Repeat("0", 19) + ip + "." + fp, sign + strings.Repeat("0", 40) + ip + "." + fp}
	for len(fp) < 4 {
		fp += "0"
		out = append(out, sign+ip+"."+fp)
	}
	return out
}

func decimalSmall() *core.Family {
	return &core.Family{
		Name: "decimal-all-small",
		Desc: "every stored decimal value with |v| < 20000 units (all fraction-digit counts and signs): constructor exact, printed form valid and parses back",
		N:    40001,
		Run: func(t *core.T, i int64) {
			checkDecimalValue(t, i-20000)
			t.Nontrivial()
			t.SampleF(func() string { return DecimalString(i - 20000) })
		},
	}
}

func decimalBoundary() *core.Family {
	vals := boundaryInts()
	return &core.Family{
		Name: "decimal-boundaries",
		Desc: fmt.Sprintf("%d decimal unit values (+-2^k+-{0,1}, +-10^k+-{0,1}, limits)", len(vals)),
		N:    int64(len(vals)),
		Run: func(t *core.T, i int64) {
			checkDecimalValue(t, vals[i])
			t.Nontrivial()
			t.SampleF(func() string { return DecimalString(vals[i]) })
		},
	}
}

func cmpParse(t *core.T, kind, s string, ref func(string) (Val, bool), impl func(string) (Val, error)) {
	want, ok := ref(s)
	got, err := impl(s)
	switch {
	case ok && err != nil:
		if kind == "datetime" && want.I < firstDayEnd {
			t.Fail("datetime-first-representable-day-rejected", s, want.Key(), err.Error())
			return
		}
		t.Fail(kind+"-valid-literal-rejected:"+shape(s), fmt.Sprintf("%q", s), want.Key(), err.Error())
	case !ok && err == nil:
		t.Fail(kind+"-invalid-literal-accepted:"+shape(s), fmt.Sprintf("%q", s), "error", got.Key())
	case ok && !got.Equal(want):
		t.Fail(kind+"-wrong-value:"+shape(s), fmt.Sprintf("%q", s), want.Key(), got.Key())
	}
}

// shape abstracts a literal to its character classes so that signatures are classes, not instances.
func shape(s string) string {
	var sb strings.Builder
	prev := byte(0)
	for i := 0; i < len(s); i++ {
		c := s[i]
		if c >= '0' && c <= '9' {
			c = '9'
		}
		if c == '9' && prev == '9' {
			continue
		}
		sb.WriteByte(c)
		prev = c
	}
	if sb.Len() > 40 {
		return sb.String()[:40]
	}
	return sb.String()
}

func implDecimal(s string) (Val, error) {
	d, err := types.ParseDecimal(s)
	if err != nil {
		return Val{}, err
	}
	return Decimal(DecimalUnits(d)), nil
}

func decimalNeighbourhood() *core.Family {
	seeds := []string{"0.0", "1.0", "-1.0", "1.2345", "-0.0001", "12.34", "0.5", "-0.5", "10.0", "100.001", "922337203685477.5807", "-922337203685477.5808", "922337203685477.5808", "-922337203685477.5809", "922337203685478.0", "9223372036854775807.0", "0.00001", "00.10", "1.", ".1", "1", "-", "", "1.0000", "-0.0", "0.9999", "99.99", "1.10", "123456789.1", "-123.456"}
	var all []string
	seen := map[string]bool{}
	for _, s := range seeds {
		for _, x := range ed1(s, "09.-+e_ ") {
			if !seen[x] {
				seen[x] = true
				all = append(all, x)
			}
		}
	}
	return &core.Family{
		Name: "decimal-edit-distance-1",
		Desc: fmt.Sprintf("every string within edit distance 1 (insert/delete/replace over `0 9 . - + e _ space`) of %d decimal literals (%d strings): accepted iff -?[0-9]+\\.[0-9]{1,4} and in range, with the exact value; also through decimal() in eval", len(seeds), len(all)),
		N:    int64(len(all)),
		Run: func(t *core.T, i int64) {
			s := all[i]
			cmpParse(t, "decimal", s, ParseDecimal, implDecimal)
			// through the extension constructor
			want, ok := ParseDecimal(s)
			v, err := eval.Eval(xast.ExtensionCall("decimal", xast.String(s)).AsIsNode(), env0)
			if ok != (err == nil) {
				t.Fail("decimal()-differs-from-syntax:"+shape(s), fmt.Sprintf("%q", s), fmt.Sprint(ok), fmt.Sprint(v, err))
			} else if ok {
				if rv, _ := FromImpl(v); !rv.Equal(want) {
					t.Fail("decimal()-wrong-value:"+shape(s), fmt.Sprintf("%q", s), want.Key(), rv.Key())
				}
			}
			if ok {
				t.Nontrivial()
			}
			t.Sample(s)
		},
	}
}

func newDecimalFamily() *core.Family {
	is := boundaryInts()
	// multiples at which i * 10^e wraps past 2^64
	for e := 1; e <= 16; e++ {
		p := new(big.Int).Exp(big.NewInt(10), big.NewInt(int64(e)), nil)
		for m := int64(1); m <= 3; m++ {
			q := new(big.Int).Div(new(big.Int).Lsh(big.NewInt(m), 64), p)
			for _, d := range []int64{-1, 0, 1, 2} {
				x := new(big.Int).Add(q, big.NewInt(d))
				if x.IsInt64() {
					is = append(is, x.Int64(), -x.Int64())
				}
			}
		}
	}
	is = append(is, 184468, 922337203685477, 922337203685478, 92233720368547758, 92233720368547759)
	const eLo, eHi = -6, 16
	ne := int64(eHi - eLo + 1)
	return &core.Family{
		Name: "NewDecimal-exact",
		Desc: fmt.Sprintf("NewDecimal(i, e) for %d boundary integers (incl. the multiples at which i*10^e wraps past 2^64) x e in [%d,%d]: exact value or error, never a wrapped one; NewDecimalFromInt", len(is), eLo, eHi),
		N:    int64(len(is)) * ne,
		Run: func(t *core.T, idx int64) {
			i := is[idx/ne]
			e := int(idx%ne) + eLo
			d, err := types.NewDecimal(i, e)
			in := fmt.Sprintf("NewDecimal(%d, %d)", i, e)
			t.Sample(in)
			if e < -4 || e > 14 {
				if err == nil {
					t.Fail("NewDecimal-exponent-out-of-range-accepted", in, "error", d.String())
				}
				return
			}
			exact := new(big.Int).Mul(big.NewInt(i), new(big.Int).Exp(big.NewInt(10), big.NewInt(int64(e+4)), nil))
			if exact.IsInt64() {
				t.Nontrivial()
				if err != nil {
					t.Fail(fmt.Sprintf("NewDecimal-spurious-error:e=%d", e), in, exact.String()+" units", err.Error())
				} else if DecimalUnits(d) != exact.Int64() {
					t.Fail(fmt.Sprintf("NewDecimal-wrong-value:e=%d", e), in, exact.String()+" units", fmt.Sprint(DecimalUnits(d)))
				}
			} else if err == nil {
				t.Fail(fmt.Sprintf("NewDecimal-wrapped:e=%d", e), in, "error (value out of range)", d.String())
			}
			if e == 0 {
				d2, err2 := types.NewDecimalFromInt(i)
				if (err2 == nil) != (err == nil) || (err == nil && d2 != d) {
					t.Fail("NewDecimalFromInt-differs", in, fmt.Sprint(d, err), fmt.Sprint(d2, err2))
				}
			}
		},
	}
}

func floatFamily() *core.Family {
	lim := math.Ldexp(1, 63) / 10000
	var fs []float64
	for _, base := range []float64{lim, -lim, 0, 1, -1, 0.00005, 922337203685477.5, 1e15, -1e15, 1e300, -1e300, 123.4567} {
		x := base
		fs = append(fs, x)
		up, down := x, x
		for k := 0; k < 4; k++ {
			up = math.Nextafter(up, math.Inf(1))
			down = math.Nextafter(down, math.Inf(-1))
			fs = append(fs, up, down)
		}
	}
	fs = append(fs, math.Inf(1), math.Inf(-1), math.NaN(), math.MaxFloat64, -math.MaxFloat64, math.SmallestNonzeroFloat64)
	return &core.Family{
		Name: "NewDecimalFromFloat",
		Desc: fmt.Sprintf("%d float64 values at +-2^63/10^4 and neighbours (Nextafter), +-Inf, NaN, extremes: result within one unit of f*10^4 or an error, never a wrapped value", len(fs)),
		N:    int64(len(fs)),
		Run: func(t *core.T, i int64) {
			f := fs[i]
			d, err := types.NewDecimalFromFloat(f)
			in := fmt.Sprintf("NewDecimalFromFloat(%v) [bits %x]", f, math.Float64bits(f))
			t.Sample(in)
			t.Nontrivial()
			if math.IsNaN(f) || math.IsInf(f, 0) {
				if err == nil {
					t.Fail("NewDecimalFromFloat-nonfinite-accepted", in, "error", d.String())
				}
				return
			}
			exact := new(big.Float).SetPrec(200).Mul(new(big.Float).SetPrec(200).SetFloat64(f), big.NewFloat(10000))
			ex, _ := exact.Int(nil)
			lo := new(big.Int).Sub(ex, big.NewInt(1024)) // float64 multiplication may round by up to 1 ulp (<= 1024 units near 2^63)
			hi := new(big.Int).Add(ex, big.NewInt(1024))
			if err == nil {
				got := big.NewInt(DecimalUnits(d))
				if got.Cmp(lo) < 0 || got.Cmp(hi) > 0 {
					t.Fail("NewDecimalFromFloat-wrapped", in, "about "+ex.String()+" units or an error", fmt.Sprint(DecimalUnits(d)))
				}
			} else if ex.IsInt64() && new(big.Int).Abs(ex).Cmp(new(big.Int).Sub(big.NewInt(math.MaxInt64), big.NewInt(4096))) < 0 {
				t.Fail("NewDecimalFromFloat-spurious-error", in, ex.String()+" units", err.Error())
			}
		},
	}
}

// ---------------------------------------------------------------------------
// datetime

func implDatetime(s string) (Val, error) {
	d, err := types.ParseDatetime(s)
	if err != nil {
		return Val{}, err
	}
	return Datetime(d.Milliseconds()), nil
}

func datetimeGrid(thorough bool) *core.Family {
	years := []int64{-1, 0, 1, 2, 1967, 1968, 1969, 1970, 1971, 1972, 1973, 1999, 2000, 2001, 9998, 9999, 10000, 10001}
	if thorough {
		years = append(years, -292275055, -292275054, 292278993, 292278994, -10000, -9999, -401, -400, -100, 100, 400, 1600, 1900, 2100, 99999999, 100000000, -99999999, 999999999/4)
	}
	return &core.Family{
		Name: "datetime-day-boundaries",
		Desc: fmt.Sprintf("every day boundary +-1 ms of every day of %d years (around year 0, the epoch, leap centuries, the 4-digit / expanded-year switch, both limits): printed form is a valid literal and parses back; toDate/toTime consistent", len(years)),
		N:    int64(len(years)) * 372,
		Run: func(t *core.T, i int64) {
			y := years[i/372]
			doy := int(i % 372)
			m, d := doy/31+1, doy%31+1
			if d > map[bool]int{true: 31, false: 31}[true] {
				return
			}
			dim := []int{31, 28, 31, 30, 31, 30, 31, 31, 30, 31, 30, 31}[m-1]
			if m == 2 && ((y%4 == 0 && y%100 != 0) || y%400 == 0) {
				dim = 29
			}
			if d > dim {
				return
			}
			start := new(big.Int).Mul(big.NewInt(DaysFromCivil(y, m, d)), big.NewInt(86400000))
			for _, delta := range []int64{-1, 0, 1, 86399999} {
				x := new(big.Int).Add(start, big.NewInt(delta))
				if !x.IsInt64() {
					continue
				}
				ms := x.Int64()
				dt := types.NewDatetimeFromMillis(ms)
				s := dt.String()
				rv, ok := ParseDatetime(s)
				if !ok || rv.I != ms {
					t.Fail("datetime-printed-form-invalid:"+shape(s), fmt.Sprintf("%d ms -> %q", ms, s), DatetimeString(ms), s)
					continue
				}
				back, err := types.ParseDatetime(s)
				if err != nil {
					if ms < firstDayEnd {
						t.Fail("datetime-first-representable-day-rejected", s, fmt.Sprint(ms), err.Error())
					} else {
						t.Fail("datetime-roundtrip-error", fmt.Sprintf("%d ms -> %q", ms, s), fmt.Sprint(ms), err.Error())
					}
				} else if back.Milliseconds() != ms {
					t.Fail("datetime-roundtrip-value", fmt.Sprintf("%d ms -> %q", ms, s), fmt.Sprint(ms), fmt.Sprint(back.Milliseconds()))
				}
			}
			t.Nontrivial()
			t.SampleF(func() string { return DatetimeString(start.Int64()) })
		},
	}
}

// every year of two full 400-year cycles on both sides of year 0 (and around the
// magnitudes at which the year representation changes), month ends and Feb 28/29/30:
// the leap rule is a function of the year modulo 400 and of its sign handling, so a
// wrong rule for, say, negative century years is only visible on those years.
func datetimeLeapYears(thorough bool) *core.Family {
	var years []int64
	span := int64(820)
	if thorough {
		span = 10500 // every year on both sides of the 4-digit / expanded-year switch
	}
	for y := -span; y <= span; y++ {
		years = append(years, y)
	}
	for _, base := range []int64{9600, 10000, 99600, 100000, 99999600, 292270000, 292278800} {
		for _, off := range []int64{0, 1, 4, 16, 96, 100, 116, 200, 300, 304, 399, 400} {
			years = append(years, base+off, -(base + off))
		}
	}
	days := []int{1, 28, 29, 30, 31, 32}
	forms := []string{"", "T00:00:00Z", "T23:59:59.999+0000"}
	per := 12 * len(days) * len(forms)
	ystr := func(y int64) string {
		switch {
		case y >= 0 && y <= 9999:
			return fmt.Sprintf("%04d", y)
		case y < 0:
			return fmt.Sprintf("-%09d", -y)
		}
		return fmt.Sprintf("+%09d", y)
	}
	return &core.Family{
		Name: "datetime-leap-rule-years",
		Desc: fmt.Sprintf("%d years (every year in [-%d, %d]: two full 400-year cycles each side of 0; plus cycle positions around 10^4, 10^5, 10^8 and the range limits, both signs) x 12 months x days {01,28,29,30,31,32} x {date only, midnight Z, end of day +0000}: accepted exactly when the reference calendar has that day, with the exact value; printed form of every accepted value parses back", len(years), span, span),
		N:    int64(len(years) * per),
		Run: func(t *core.T, i int64) {
			y := years[int(i)/per]
			x := int(i) % per
			f := forms[x%len(forms)]
			x /= len(forms)
			d := days[x%len(days)]
			mo := x/len(days) + 1
			lit := fmt.Sprintf("%s-%02d-%02d%s", ystr(y), mo, d, f)
			want, ok := ParseDatetime(lit)
			if ok {
				t.Nontrivial()
			}
			cmpParse(t, "datetime", lit, ParseDatetime, implDatetime)
			if ok && want.I >= firstDayEnd {
				// the printed form of that value must be a valid literal of the same value
				p := types.NewDatetimeFromMillis(want.I).String()
				back, err := types.ParseDatetime(p)
				if err != nil {
					t.Fail("datetime-roundtrip-error", fmt.Sprintf("%d ms -> %q", want.I, p), fmt.Sprint(want.I), err.Error())
				} else if back.Milliseconds() != want.I {
					t.Fail("datetime-roundtrip-value", fmt.Sprintf("%d ms -> %q", want.I, p), fmt.Sprint(want.I), fmt.Sprint(back.Milliseconds()))
				}
			}
			t.Sample(lit)
		},
	}
}

func datetimeRender(thorough bool) *core.Family {
	years := []string{"-000000001", "0000", "0001", "1969", "1970", "1972", "2000", "2023", "2024", "9999", "+000010000", "+292278994", "-292275055", "+999999999", "-999999999", "+000002024"}
	days := []int{0, 1, 28, 29, 30, 31, 32}
	times := []string{"", "T00:00:00", "T23:59:59", "T12:34:56", "T24:00:00", "T00:60:00", "T00:00:60", "T07:12:55", "T16:47:04"}
	mss := []string{"", ".000", ".999", ".123", ".807", ".808", ".191", ".192"}
	zones := []string{"Z", "+0000", "-0000", "+2359", "-2359", "+0115", "-0930", "+2400", "+0060", "", "z", "+01:00", "+01"}
	if thorough {
		zones = zones[:0]
		zones = append(zones, "Z", "", "+2400", "+0060", "+01:00")
		for h := 0; h < 24; h++ {
			for mi := 0; mi < 60; mi++ { // every offset of the day, to the minute
				zones = append(zones, fmt.Sprintf("+%02d%02d", h, mi), fmt.Sprintf("-%02d%02d", h, mi))
			}
		}
	}
	n := len(years) * 14 * len(days) * len(times) * len(mss) * len(zones)
	return &core.Family{
		Name: "datetime-rendered-literals",
		Desc: fmt.Sprintf("%d years x months 00..13 x days {00,01,28..32} x %d times x %d millisecond forms x %d zone forms, rendered independently: exact expected value or rejection by the reference calendar (leap days, invalid dates/times, offsets, range)", len(years), len(times), len(mss), len(zones)),
		N:    int64(n),
		Run: func(t *core.T, i int64) {
			x := int(i)
			z := zones[x%len(zones)]
			x /= len(zones)
			ms := mss[x%len(mss)]
			x /= len(mss)
			tm := times[x%len(times)]
			x /= len(times)
			d := days[x%len(days)]
			x /= len(days)
			mo := x % 14
			x /= 14
			y := years[x]
			s := fmt.Sprintf("%s-%02d-%02d", y, mo, d)
			if tm != "" {
				s += tm + ms + z
			} else if ms != "" || (z != "Z" && z != "") {
				s += ms + z // date followed directly by ms/zone: invalid
			} else if z == "Z" {
				return // plain date enumerated once (with z == "")
			}
			if _, ok := ParseDatetime(s); ok {
				t.Nontrivial()
			}
			cmpParse(t, "datetime", s, ParseDatetime, implDatetime)
			t.Sample(s)
		},
	}
}

func datetimeNeighbourhood() *core.Family {
	seeds := []string{"1970-01-01", "2024-02-29", "2024-01-01T00:00:00Z", "2024-01-01T00:00:00.000Z", "2024-01-01T01:00:00+0100", "2024-12-31T23:59:59.999-2359", "0000-01-01", "9999-12-31T23:59:59.999Z", "+000010000-01-01", "-000000001-12-31T00:00:00Z",
		"+292278994-08-17T07:12:55.807Z", "-292275055-05-17T16:47:04.192Z", "1969-12-31T23:59:59.999Z", "2000-02-29T12:00:00+0000", "1900-02-28", "2023-02-28T10:10:10.100Z", "+000000000-01-01", "2024-06-30T23:59:59-0000", "2024-01-01T00:00:00.5Z", "10000-01-01"}
	var all []string
	seen := map[string]bool{}
	for _, s := range seeds {
		for _, x := range ed1(s, "019-+TZ:. ") {
			if !seen[x] {
				seen[x] = true
				all = append(all, x)
			}
		}
	}
	return &core.Family{
		Name: "datetime-edit-distance-1",
		Desc: fmt.Sprintf("every string within edit distance 1 (over `0 1 9 - + T Z : . space`) of %d datetime literals (%d strings), judged by the reference recogniser (RFC 80 + RFC 110 forms); also through datetime() in eval", len(seeds), len(all)),
		N:    int64(len(all)),
		Run: func(t *core.T, i int64) {
			s := all[i]
			cmpParse(t, "datetime", s, ParseDatetime, implDatetime)
			want, ok := ParseDatetime(s)
			v, err := eval.Eval(xast.ExtensionCall("datetime", xast.String(s)).AsIsNode(), env0)
			if ok != (err == nil) && !(ok && want.I < firstDayEnd) {
				t.Fail("datetime()-differs-from-syntax:"+shape(s), fmt.Sprintf("%q", s), fmt.Sprint(ok), fmt.Sprint(v, err))
			}
			if ok {
				t.Nontrivial()
			}
			t.Sample(s)
		},
	}
}

// ---------------------------------------------------------------------------
// duration

func implDuration(s string) (Val, error) {
	d, err := types.ParseDuration(s)
	if err != nil {
		return Val{}, err
	}
	return Duration(d.ToMilliseconds()), nil
}

func durationValues() *core.Family {
	var vals []int64
	units := []int64{1, 1000, 60000, 3600000, 86400000}
	for _, u := range units {
		for _, k := range []int64{1, 2, 23, 24, 25, 59, 60, 61, 999, 1000, 1001, 106751991167} {
			for _, d := range []int64{-1, 0, 1} {
				x := new(big.Int).Add(new(big.Int).Mul(big.NewInt(u), big.NewInt(k)), big.NewInt(d))
				if x.IsInt64() {
					vals = append(vals, x.Int64(), -x.Int64())
				}
			}
		}
	}
	vals = append(vals, boundaryInts()...)
	return &core.Family{
		Name: "duration-values",
		Desc: fmt.Sprintf("%d durations (every unit boundary +-1, +-2^k, +-10^k, both limits): printed form is a valid literal and parses back, also through duration() and the Cedar-text form", len(vals)),
		N:    int64(len(vals)),
		Run: func(t *core.T, i int64) {
			ms := vals[i]
			d := types.NewDurationFromMillis(ms)
			s := d.String()
			rv, ok := ParseDuration(s)
			if !ok || rv.I != ms {
				t.Fail("duration-printed-form-invalid", fmt.Sprintf("%d ms -> %q", ms, s), DurationString(ms), s)
				return
			}
			back, err := types.ParseDuration(s)
			if err != nil || back.ToMilliseconds() != ms {
				t.Fail("duration-roundtrip", fmt.Sprintf("%d ms -> %q", ms, s), fmt.Sprint(ms), fmt.Sprint(back.ToMilliseconds(), err))
			}
			if v, err := evalText(string(d.MarshalCedar())); err != nil || !v.Equal(Duration(ms)) {
				t.Fail("duration-cedar-text-roundtrip", string(d.MarshalCedar()), fmt.Sprint(ms), fmt.Sprint(v.Key(), err))
			}
			t.Nontrivial()
			t.Sample(s)
		},
	}
}

// per-unit extremes: each unit absent, 0, 1, or at / one below / one above the largest
// quantity that unit alone can carry. Every single product fits, the SUM of three or
// more may not: an accumulator that is only range-checked at the end wraps silently.
func durationExtremes() *core.Family {
	us := []string{"d", "h", "m", "s", "ms"}
	umax := []int64{106751991167, 2562047788015, 153722867280912, 9223372036854775, 9223372036854775807}
	const nq = 6
	q := func(u, k int) string {
		switch k {
		case 0:
			return ""
		case 1:
			return "0"
		case 2:
			return "1"
		case 3:
			return fmt.Sprint(umax[u] - 1)
		case 4:
			return fmt.Sprint(umax[u])
		}
		return new(big.Int).Add(big.NewInt(umax[u]), big.NewInt(1)).String()
	}
	n := int64(2)
	for range us {
		n *= nq
	}
	return &core.Family{
		Name: "duration-per-unit-extremes",
		Desc: fmt.Sprintf("every combination of the five units, each absent / 0 / 1 / max-1 / max / max+1 of what that unit alone can carry (d %d, h %d, m %d, s %d, ms %d), both signs (%d literals): accepted iff the exact sum is within 64 bits, with the exact value", umax[0], umax[1], umax[2], umax[3], umax[4], n),
		N:    n,
		Run: func(t *core.T, i int64) {
			x := i
			s := ""
			if x%2 == 1 {
				s = "-"
			}
			x /= 2
			any := false
			for u := range us {
				k := int(x % nq)
				x /= nq
				if qs := q(u, k); qs != "" {
					s += qs + us[u]
					any = true
				}
			}
			if !any {
				return
			}
			cmpParse(t, "duration", s, ParseDuration, implDuration)
			if _, ok := ParseDuration(s); ok {
				t.Nontrivial()
			}
			t.Sample(s)
		},
	}
}

// conversions between the Cedar scalars and Go's own types, and the arithmetic accessors:
// exact value or an error, never a wrapped one.
func goConversions() *core.Family {
	is := boundaryInts()
	for _, q := range []int64{math.MaxInt64 / 1000000, math.MaxInt64 / 1000, math.MaxInt64 / 86400000, 9223372036854} {
		for _, d := range []int64{-2, -1, 0, 1, 2} {
			is = append(is, q+d, -(q + d))
		}
	}
	bi := func(x int64) *big.Int { return big.NewInt(x) }
	quoTrunc := func(a, b int64) *big.Int { return new(big.Int).Quo(bi(a), bi(b)) } // Quo truncates toward zero
	return &core.Family{
		Name: "go-conversions",
		Desc: fmt.Sprintf("%d boundary values (+-2^k, +-10^k, the limits of every unit conversion): Duration.ToDays/Hours/Minutes/Seconds/Milliseconds (truncating quotients), Duration.Duration() (exact nanoseconds or an error), NewDuration(time.Duration) (within the same millisecond), NewDatetime(t) / Datetime.Time() / Milliseconds() round trips, Decimal.Compare and Decimal.Float", len(is)),
		N:    int64(len(is)),
		Run: func(t *core.T, idx int64) {
			x := is[idx]
			in := fmt.Sprint(x)
			d := types.NewDurationFromMillis(x)
			for name, c := range map[string]struct{ got, div int64 }{"ToDays": {d.ToDays(), 86400000}, "ToHours": {d.ToHours(), 3600000}, "ToMinutes": {d.ToMinutes(), 60000}, "ToSeconds": {d.ToSeconds(), 1000}, "ToMilliseconds": {d.ToMilliseconds(), 1}} {
				if want := quoTrunc(x, c.div); want.Cmp(bi(c.got)) != 0 {
					t.Fail("duration-accessor:"+name, "duration of "+in+" ms", want.String(), fmt.Sprint(c.got))
				}
			}
			gd, err := d.Duration()
			exact := new(big.Int).Mul(bi(x), bi(1000000))
			switch {
			case exact.IsInt64() && err != nil:
				t.Fail("Duration.Duration-spurious-error", in+" ms", exact.String()+" ns", err.Error())
			case exact.IsInt64() && int64(gd) != exact.Int64():
				t.Fail("Duration.Duration-wrong-value", in+" ms", exact.String()+" ns", fmt.Sprint(int64(gd)))
			case !exact.IsInt64() && err == nil:
				t.Fail("Duration.Duration-wrapped", in+" ms", "an error (the value does not fit a time.Duration)", fmt.Sprintf("%d ns", int64(gd)))
			}
			// x as nanoseconds
			nd := types.NewDuration(time.Duration(x))
			if diff := new(big.Int).Sub(new(big.Int).Mul(bi(nd.ToMilliseconds()), bi(1000000)), bi(x)); diff.CmpAbs(bi(1000000)) >= 0 || (x != 0 && nd.ToMilliseconds() != 0 && (nd.ToMilliseconds() < 0) != (x < 0)) {
				t.Fail("NewDuration-inexact", in+" ns", "the same millisecond", fmt.Sprint(nd.ToMilliseconds(), " ms"))
			}
			// datetimes
			dt := types.NewDatetimeFromMillis(x)
			if dt.Milliseconds() != x || dt.Time().UnixMilli() != x || types.NewDatetime(dt.Time()) != dt || !dt.Time().Equal(time.UnixMilli(x)) || dt.Time().Location() != time.UTC {
				t.Fail("datetime-time-roundtrip", in+" ms", "Milliseconds, Time and NewDatetime agree", fmt.Sprint(dt.Milliseconds(), dt.Time().UnixMilli(), types.NewDatetime(dt.Time()).Milliseconds()))
			}
			if x > -1<<52 && x < 1<<52 {
				// a time with sub-millisecond digits is truncated to its millisecond (floor)
				tm := time.UnixMilli(x).Add(999 * time.Microsecond)
				if got := types.NewDatetime(tm).Milliseconds(); got != x {
					t.Fail("NewDatetime-truncation", tm.Format(time.RFC3339Nano), in, fmt.Sprint(got))
				}
			}
			// decimals (x as raw ten-thousandths)
			dx, e1 := types.NewDecimal(x, -4)
			dy, e2 := types.NewDecimal(is[(idx+1)%int64(len(is))], -4)
			if e1 == nil && e2 == nil {
				y := is[(idx+1)%int64(len(is))]
				want := 0
				if x < y {
					want = -1
				} else if x > y {
					want = 1
				}
				if dx.Compare(dy) != want || dy.Compare(dx) != -want || dx.Compare(dx) != 0 {
					t.Fail("Decimal.Compare", fmt.Sprintf("%d vs %d ten-thousandths", x, y), fmt.Sprint(want), fmt.Sprint(dx.Compare(dy)))
				}
				f := dx.Float()
				ex := float64(x) / 10000
				if math.Abs(f-ex) > math.Abs(ex)*1e-15+1e-300 {
					t.Fail("Decimal.Float", in+" ten-thousandths", fmt.Sprint(ex), fmt.Sprint(f))
				}
			}
			t.Nontrivial()
			t.Sample(in)
		},
	}
}

func durationSubsets() *core.Family {
	us := []string{"d", "h", "m", "s", "ms"}
	qs := []string{"0", "1", "59", "1000", "106751991167", "9223372036854775807", "9223372036854775808", "01",
		// quantities written with many leading zeros: the value counts, not the number of digits
		"00000000000000000001", "09223372036854775807", "000000000000000000000000000059"}
	// all 32 subsets x quantity per position pattern (one quantity index per run) x sign, plus all ordered pairs of units
	var strs []string
	for mask := 0; mask < 32; mask++ {
		for qi := range qs {
			for qj := range qs {
				for _, sign := range []string{"", "-"} {
					s := sign
					k := 0
					for u := 0; u < 5; u++ {
						if mask>>u&1 == 1 {
							q := qs[qi]
							if k%2 == 1 {
								q = qs[qj]
							}
							s += q + us[u]
							k++
						}
					}
					strs = append(strs, s)
				}
			}
		}
	}
	for _, a := range us {
		for _, b := range us {
			strs = append(strs, "1"+a+"2"+b, "-1"+a+"2"+b)
			for _, c := range us {
				strs = append(strs, "1"+a+"2"+b+"3"+c)
			}
		}
	}
	return &core.Family{
		Name: "duration-unit-subsets",
		Desc: fmt.Sprintf("all 32 unit subsets x boundary quantities x sign, all unit orderings of length 2 and 3 (%d strings): accepted iff units are in order, each once, total in range", len(strs)),
		N:    int64(len(strs)),
		Run: func(t *core.T, i int64) {
			s := strs[i]
			cmpParse(t, "duration", s, ParseDuration, implDuration)
			if _, ok := ParseDuration(s); ok {
				t.Nontrivial()
			}
			t.Sample(s)
		},
	}
}

func durationNeighbourhood() *core.Family {
	seeds := []string{"0ms", "1ms", "1s", "1m", "1h", "1d", "1d1h1m1s1ms", "-1d", "10d9h", "59m59s", "9223372036854775807ms", "-9223372036854775808ms", "106751991167d7h12m55s807ms", "-106751991167d7h12m55s808ms", "1h1ms", "999ms", "1d0h"}
	var all []string
	seen := map[string]bool{}
	for _, s := range seeds {
		for _, x := range ed1(s, "019dhms- ") {
			if !seen[x] {
				seen[x] = true
				all = append(all, x)
			}
		}
	}
	return &core.Family{
		Name: "duration-edit-distance-1",
		Desc: fmt.Sprintf("every string within edit distance 1 (over `0 1 9 d h m s - space`) of %d duration literals (%d strings); also through duration() in eval", len(seeds), len(all)),
		N:    int64(len(all)),
		Run: func(t *core.T, i int64) {
			s := all[i]
			cmpParse(t, "duration", s, ParseDuration, implDuration)
			_, ok := ParseDuration(s)
			v, err := eval.Eval(xast.ExtensionCall("duration", xast.String(s)).AsIsNode(), env0)
			if ok != (err == nil) {
				t.Fail("duration()-differs-from-syntax:"+shape(s), fmt.Sprintf("%q", s), fmt.Sprint(ok), fmt.Sprint(v, err))
			}
			if ok {
				t.Nontrivial()
			}
			t.Sample(s)
		},
	}
}

// ---------------------------------------------------------------------------
// ip

func ipFamily() *core.Family {
	v4 := [][4]byte{{0, 0, 0, 0}, {127, 0, 0, 1}, {255, 255, 255, 255}, {10, 1, 2, 3}, {224, 0, 0, 1}, {192, 168, 100, 200}}
	v6 := [][16]byte{{}, {15: 1}, {0: 0xff, 1: 0xff, 2: 0xff, 3: 0xff, 4: 0xff, 5: 0xff, 6: 0xff, 7: 0xff, 8: 0xff, 9: 0xff, 10: 0xff, 11: 0xff, 12: 0xff, 13: 0xff, 14: 0xff, 15: 0xff}, {0: 0x20, 1: 0x01, 2: 0x0d, 3: 0xb8, 15: 1}, {0: 0xff, 15: 2}, {0: 0x20, 1: 0x01, 6: 0, 7: 1, 8: 0, 9: 1, 14: 0, 15: 1},
		// IPv4-mapped (::ffff:a.b.c.d), IPv4-compatible (::a.b.c.d) and NAT64 (64:ff9b::/96) addresses: Go prints the first kind with a dotted quad
		{10: 0xff, 11: 0xff, 12: 192, 13: 0, 14: 2, 15: 128}, {10: 0xff, 11: 0xff, 15: 1}, {12: 192, 13: 0, 14: 2, 15: 128}, {0: 0, 1: 0x64, 2: 0xff, 3: 0x9b, 12: 192, 13: 0, 14: 2, 15: 128}}
	var vals []Val
	for _, a := range v4 {
		for p := 0; p <= 32; p++ {
			vals = append(vals, IP4(a[0], a[1], a[2], a[3], p))
		}
	}
	for _, a := range v6 {
		for p := 0; p <= 128; p++ {
			vals = append(vals, IP6(a, p))
		}
	}
	lits := gen.ExtLits["ip"]
	return &core.Family{
		Name: "ipaddr",
		Desc: fmt.Sprintf("every prefix length (0-32, 0-128) on 6+10 addresses incl. IPv4-mapped / IPv4-compatible / NAT64 ones (%d values): printed form parses back to the same value and is valid by the reference recogniser; %d valid / obviously invalid literal forms judged by the reference recogniser", len(vals), len(lits)),
		N:    int64(len(vals) + len(lits)),
		Run: func(t *core.T, i int64) {
			t.Nontrivial()
			if int(i) >= len(vals) {
				s := lits[int(i)-len(vals)]
				want, ok, known := ParseIP(s)
				t.Sample(s)
				if !known {
					return
				}
				got, err := types.ParseIPAddr(s)
				if ok != (err == nil) {
					t.Fail("ip-literal-acceptance:"+s, fmt.Sprintf("%q", s), fmt.Sprint(ok), fmt.Sprint(got, err))
				} else if ok {
					if rv, _ := FromImpl(got); !rv.Equal(want) {
						t.Fail("ip-literal-value:"+s, s, want.Key(), rv.Key())
					}
				}
				return
			}
			v := vals[i]
			ip := v.ToImpl().(types.IPAddr)
			s := ip.String()
			t.Sample(s)
			back, err := types.ParseIPAddr(s)
			if err != nil {
				if v.V6 && v.Addr[10] == 0xff && v.Addr[11] == 0xff && v.Addr[0] == 0 && v.Addr[9] == 0 {
					t.Fail("ip-printed-form-rejected:ipv4-mapped-ipv6", v.Key()+" -> "+s, "parses", err.Error())
					return
				}
				t.Fail("ip-roundtrip-error", v.Key()+" -> "+s, "parses", err.Error())
				return
			}
			if rv, _ := FromImpl(back); !rv.Equal(v) {
				t.Fail("ip-roundtrip-value", v.Key()+" -> "+s, v.Key(), rv.Key())
			}
			if rv, ok, known := ParseIP(s); known && (!ok || !rv.Equal(v)) {
				t.Fail("ip-printed-form-invalid", v.Key()+" -> "+s, v.Key(), fmt.Sprint(rv.Key(), ok))
			}
			if rv, err := evalText(string(ip.MarshalCedar())); err != nil || !rv.Equal(v) {
				t.Fail("ip-cedar-text-roundtrip", string(ip.MarshalCedar()), v.Key(), fmt.Sprint(rv.Key(), err))
			}
		},
	}
}

// ---------------------------------------------------------------------------
// entity uid / string over all scalars

func entityUIDScalars(lo, hi rune, name string) *core.Family {
	const block = 1024
	n := (int64(hi-lo) + block) / block
	return &core.Family{
		Name: name,
		Desc: fmt.Sprintf("every Unicode scalar value U+%04X..U+%04X in an entity id (alone and after \"a\\\"\"): EntityUID.MarshalCedar -> UnmarshalCedar and MarshalBinary -> UnmarshalBinary give back the same UID; the Cedar renderings of a set of strings and of a record keyed by strings made of the same scalars parse and evaluate to an equal value", lo, hi),
		N:    n,
		Run: func(t *core.T, i int64) {
			for r := lo + rune(i*block); r < lo+rune((i+1)*block) && r <= hi; r++ {
				if !utf8.ValidRune(r) {
					continue
				}
				for _, id := range []string{string(r), "a\"" + string(r) + "\\"} {
					u := types.NewEntityUID("NS::T", types.String(id))
					var back types.EntityUID
					if err := back.UnmarshalCedar(u.MarshalCedar()); err != nil || back != u {
						t.Fail(fmt.Sprintf("entityuid-text-roundtrip:U+%04X", r), string(u.MarshalCedar()), fmt.Sprintf("%q", id), fmt.Sprint(back, err))
					}
					b, _ := u.MarshalBinary()
					var back2 types.EntityUID
					if err := back2.UnmarshalBinary(b); err != nil || back2 != u {
						t.Fail(fmt.Sprintf("entityuid-binary-roundtrip:U+%04X", r), string(b), fmt.Sprintf("%q", id), fmt.Sprint(back2, err))
					}
				}
			}
			// String / Set / Record renderings of the same scalars evaluate to an equal value
			var strs []types.Value
			rm := types.RecordMap{}
			var cur []rune
			flush := func() {
				if len(cur) > 0 {
					strs = append(strs, types.String(string(cur)))
					rm[types.String(string(cur))] = types.String(string(cur))
					cur = nil
				}
			}
			for r := lo + rune(i*block); r < lo+rune((i+1)*block) && r <= hi; r++ {
				if utf8.ValidRune(r) {
					cur = append(cur, r)
					if len(cur) == 16 {
						flush()
					}
				}
			}
			flush()
			for _, v := range []types.Value{types.NewSet(strs...), types.NewRecord(rm)} {
				if len(strs) == 0 {
					break
				}
				text := "permit(principal, action, resource) when { " + string(v.MarshalCedar()) + " == context.v };"
				ps, err := cedar.NewPolicySetFromBytes("s.cedar", []byte(text))
				if err != nil {
					t.Fail("value-rendering-does-not-parse", fmt.Sprintf("block U+%04X: %.200s", lo+rune(i*block), text), "parses", err.Error())
					continue
				}
				d, dg := cedar.Authorize(ps, types.EntityMap{}, cedar.Request{Context: types.NewRecord(types.RecordMap{"v": v})})
				if d != cedar.Allow {
					t.Fail("value-rendering-evaluates-differently", fmt.Sprintf("block U+%04X: %.200s", lo+rune(i*block), text), "evaluates to a value equal to the original", fmt.Sprint(d, dg.Errors))
				}
			}
			t.Nontrivial()
			t.SampleF(func() string { return fmt.Sprintf("block U+%04X", lo+rune(i*block)) })
		},
	}
}

// thorough: edit distance 2 around a few short literals of each kind.
func ed2Family() *core.Family {
	type item struct {
		kind, s string
	}
	var all []item
	seen := map[string]bool{}
	add := func(kind string, seeds []string, alphabet string) {
		for _, s := range seeds {
			for _, x := range ed1(s, alphabet) {
				for _, y := range ed1(x, alphabet) {
					if !seen[kind+y] {
						seen[kind+y] = true
						all = append(all, item{kind, y})
					}
				}
			}
		}
	}
	add("decimal", []string{"1.0", "-0.5", "12.3456"}, "09.-+")
	add("duration", []string{"1d2h", "-1ms", "1h1m1s"}, "01dhms-")
	add("datetime", []string{"2024-02-29", "2024-01-01T00:00:00Z", "2024-01-01T00:00:00.000+0100"}, "019-+TZ:.")
	return &core.Family{
		Name: "edit-distance-2",
		Desc: fmt.Sprintf("every string within edit distance 2 of 9 short literals (%d strings)", len(all)),
		N:    int64(len(all)),
		Run: func(t *core.T, i int64) {
			it := all[i]
			switch it.kind {
			case "decimal":
				cmpParse(t, "decimal", it.s, ParseDecimal, implDecimal)
			case "duration":
				cmpParse(t, "duration", it.s, ParseDuration, implDuration)
			default:
				cmpParse(t, "datetime", it.s, ParseDatetime, implDatetime)
			}
			t.Nontrivial()
			t.Sample(it.s)
		},
	}
}

func Check() *core.Check {
	return &core.Check{
		ID:        "C12",
		HangAfter: 120 * time.Second, // cases take at most seconds (max_case_s in the evidence); see core.Family.HangAfter
		Title:     "Scalar and extension values have exact, canonical text forms",
		Rule: "bounded-exhaustive: boundary grids of every scalar type (longs and decimals at +-2^k, +-10^k, limits, every decimal below 2.0; datetimes at every day boundary +-1 ms of selected years incl. year 0, leap centuries, the expanded-year switch and both limits; durations at every unit boundary; every IP prefix length), independently rendered literals judged by a reference calendar / big-int recogniser, every string within edit distance 1 of valid literals, constructor exactness at the multiples where products wrap, every Unicode scalar in entity ids; " +
			"a case is non-trivial if the reference accepts the literal / the value is representable",
		Assumptions: []string{
			"reference recognisers follow the documented syntaxes (decimal: -?[0-9]+\\.[0-9]{1,4}; datetime: RFC 80 + RFC 110 forms listed in the source comment; duration: ordered d h m s ms components)",
			"NewDecimalFromFloat is only required to be within one float ulp of f*10^4 or to fail",
			"IPv6 zone ids, leading zeros and IPv4-in-IPv6 spellings: oracle abstains",
		},
		Families: func(tier string) []*core.Family {
			th := tier == "thorough"
			fams := []*core.Family{longFamily(), decimalSmall(), decimalBoundary(), decimalNeighbourhood(), newDecimalFamily(), floatFamily(),
				datetimeGrid(true), datetimeLeapYears(th), datetimeRender(true), datetimeNeighbourhood(), durationValues(), durationSubsets(), durationExtremes(), goConversions(), durationNeighbourhood(), ipFamily(),
				entityUIDScalars(0, 0x10FFFF, "entityuid-all-scalars")}
			_ = th
			return append(fams, ed2Family())
		},
	}
}
