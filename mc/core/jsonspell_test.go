package core

import (
	"encoding/json"
	"reflect"
	"testing"
)

func TestJSONSpellings(t *testing.T) {
	doc := `{"a/b":["x/y","\u0000\"\\é😀",{"k":1.5,"n":null,"t":true}],"__extn":{"fn":"ip","arg":"10.0.0.0/8"}}`
	var want any
	if err := json.Unmarshal([]byte(doc), &want); err != nil {
		t.Fatal(err)
	}
	alts, err := JSONSpellings([]byte(doc))
	if err != nil || len(alts) != 6 {
		t.Fatal(err, len(alts))
	}
	for i, a := range alts {
		var got any
		if err := json.Unmarshal([]byte(a), &got); err != nil || !reflect.DeepEqual(got, want) {
			t.Errorf("%d: %s: %v", i, a, err)
		}
	}
	t.Log(alts[4], alts[5])
}
