package core

import (
	"bytes"
	"encoding/json"
	"fmt"
	"os"
	"os/exec"
	"path/filepath"
	"runtime"
	"runtime/debug"
	"strconv"
	"strings"
	"sync"
	"sync/atomic"
	"syscall"
	"time"
)

// E7 — crash-isolating runner. A family marked Isolated is executed by worker
// subprocesses (shard w of W takes indices i ≡ w mod W). Each worker appends the
// index it is about to run to a progress file, so a fatal error (stack overflow,
// out of memory — not recoverable in Go) is attributed to a case. The parent
// re-runs that case alone, in a fresh process with the DEFAULT stack limit, and
// only reports it if it dies every time.

type shardOut struct {
	Stat     famStat   `json:"stat"`
	Failures []Failure `json:"failures"`
	Obs      []string  `json:"obs"`
	States   int64     `json:"states"`
	Trans    int64     `json:"trans"`
	Traces   int64     `json:"traces"`
	Samples  []any     `json:"samples"`
}

// ChildMain is called by main() when --shard is present. It never returns.
func ChildMain(c *Check, args []string) {
	var famName, out, prog, tier string
	var w, W int64 = 0, 1
	var from, only int64 = 0, -1
	lowStack := false
	for i := 0; i < len(args); i++ {
		switch args[i] {
		case "--family":
			i++
			famName = args[i]
		case "--shard":
			i++
			fmt.Sscanf(args[i], "%d/%d", &w, &W)
		case "--out":
			i++
			out = args[i]
		case "--progress":
			i++
			prog = args[i]
		case "--from":
			i++
			from, _ = strconv.ParseInt(args[i], 10, 64)
		case "--only":
			i++
			only, _ = strconv.ParseInt(args[i], 10, 64)
		case "--lowstack":
			lowStack = true
		case "quick", "thorough":
			tier = args[i]
		}
	}
	// address-space limit so that a runaway allocation dies instead of eating the box
	var lim syscall.Rlimit
	lim.Cur, lim.Max = 12<<30, 12<<30
	syscall.Setrlimit(syscall.RLIMIT_AS, &lim)
	if lowStack {
		debug.SetMaxStack(32 << 20)
	}
	runtime.GOMAXPROCS(1)
	var fam *Family
	if tier == "" {
		tier = "quick"
	}
	for _, f := range c.Families(tier) {
		if f.Name == famName {
			fam = f
		}
	}
	if fam == nil {
		fmt.Fprintf(os.Stderr, "unknown family %s\n", famName)
		os.Exit(2)
	}
	n := fam.N
	if tier == "quick" && fam.QuickN > 0 && fam.QuickN < n {
		n = fam.QuickN
	}
	res := &result{failures: map[string]*Failure{}, obs: map[string]struct{}{}, famOrder: map[string]int{fam.Name: 0}}
	var pf *os.File
	if prog != "" {
		pf, _ = os.OpenFile(prog, os.O_CREATE|os.O_WRONLY|os.O_TRUNC, 0o644)
	}
	var so shardOut
	var failures []Failure
	runOne := func(i int64) {
		if pf != nil {
			pf.WriteAt([]byte(fmt.Sprintf("%020d\n", i)), 0)
		}
		t := &T{fam: fam, idx: i, Tier: tier, wantSample: len(so.Samples) < 2}
		func() {
			defer func() {
				if r := recover(); r != nil {
					st := string(debug.Stack())
					t.Fail("harness-panic:"+fam.Name+":"+PanicSite(st), fmt.Sprintf("case %d", i), "no panic", fmt.Sprintf("%v\n%s", r, clip(st)))
				}
			}()
			fam.Run(t, i)
		}()
		so.Stat.Done++
		if t.nontrivial {
			so.Stat.Nontrivial++
		}
		so.States += t.states
		so.Trans += t.trans
		so.Traces += t.traces
		for _, f := range t.failures {
			f.Property = c.ID
			res.addFailure(f)
		}
		for _, o := range t.obs {
			res.obs[o] = struct{}{}
		}
		if t.sample != "" && len(so.Samples) < 2 {
			so.Samples = append(so.Samples, map[string]any{"family": fam.Name, "index": i, "case": t.sample})
		}
	}
	if only >= 0 {
		runOne(only)
	} else {
		start := from
		for start%W != w {
			start++
		}
		for i := start; i < n; i += W {
			runOne(i)
		}
	}
	for _, f := range res.failures {
		failures = append(failures, *f)
	}
	so.Failures = failures
	for o := range res.obs {
		so.Obs = append(so.Obs, o)
	}
	b, _ := json.Marshal(so)
	if out != "" {
		os.WriteFile(out, b, 0o644)
	}
	os.Exit(0)
}

func runIsolated(c *Check, f *Family, tier string, res *result, deadline time.Time) famStat {
	start := time.Now()
	n := f.N
	desc := f.Desc
	if tier == "quick" && f.QuickN > 0 && f.QuickN < n {
		n = f.QuickN
		desc = f.QuickDesc
	}
	st := famStat{Name: f.Name, Desc: desc, N: n}
	W := int64(runtime.GOMAXPROCS(0))
	if W > n {
		W = n
	}
	if W < 1 {
		W = 1
	}
	tmp, err := os.MkdirTemp("", "mciso")
	if err != nil {
		panic(err)
	}
	defer os.RemoveAll(tmp)
	exe, _ := os.Executable()
	hangAfter := f.HangAfter
	if hangAfter == 0 {
		hangAfter = c.HangAfter
	}
	var mu sync.Mutex
	var wg sync.WaitGroup
	complete := true
	for w := int64(0); w < W; w++ {
		wg.Add(1)
		go func(w int64) {
			defer wg.Done()
			from := int64(0)
			for attempt := 0; ; attempt++ {
				out := filepath.Join(tmp, fmt.Sprintf("out-%d-%d.json", w, attempt))
				prog := filepath.Join(tmp, fmt.Sprintf("prog-%d-%d", w, attempt))
				remain := time.Until(deadline)
				if remain < time.Second {
					mu.Lock()
					complete = false
					mu.Unlock()
					return
				}
				cmd := exec.Command(exe, c.ID, tier, "--family", f.Name, "--shard", fmt.Sprintf("%d/%d", w, W), "--out", out, "--progress", prog, "--from", strconv.FormatInt(from, 10), "--lowstack")
				var stderr bytes.Buffer
				cmd.Stderr = &tailWriter{buf: &stderr, max: 1 << 16}
				cmd.Stdout = nil
				timer := time.AfterFunc(remain, func() { cmd.Process.Kill() })
				// stall detector: the worker rewrites its progress file at the start of
				// every case; no change for hangAfter means one case has been running that long
				var stalled int32
				stopWatch := make(chan struct{})
				if hangAfter > 0 {
					go func() {
						last, since := "", time.Now()
						tk := time.NewTicker(time.Second)
						defer tk.Stop()
						for {
							select {
							case <-stopWatch:
								return
							case <-tk.C:
								b, _ := os.ReadFile(prog)
								if string(b) != last {
									last, since = string(b), time.Now()
								} else if last != "" && time.Since(since) > hangAfter {
									atomic.StoreInt32(&stalled, 1)
									cmd.Process.Kill()
									return
								}
							}
						}
					}()
				}
				runErr := cmd.Run()
				close(stopWatch)
				timedOut := !timer.Stop()
				if atomic.LoadInt32(&stalled) != 0 {
					pb, _ := os.ReadFile(prog)
					idx, perr := strconv.ParseInt(strings.TrimSpace(string(pb)), 10, 64)
					if perr != nil {
						res.addFailure(Failure{Property: c.ID, Sig: "harness-worker-stalled:" + f.Name, Family: f.Name, Index: -1, Observed: "worker stalled without a progress record"})
						mu.Lock()
						complete = false
						mu.Unlock()
						return
					}
					if fl := stallFailure(c, f, tier, idx, 3*hangAfter); fl != nil {
						res.addFailure(*fl)
					}
					mu.Lock()
					st.Done += (idx-from)/W + 1
					mu.Unlock()
					from = idx + 1
					continue
				}
				b, rerr := os.ReadFile(out)
				if rerr == nil {
					var so shardOut
					if json.Unmarshal(b, &so) == nil {
						mu.Lock()
						st.Done += so.Stat.Done
						st.Nontrivial += so.Stat.Nontrivial
						res.states += so.States
						res.trans += so.Trans
						res.traces += so.Traces
						if len(res.samples) < 60 {
							res.samples = append(res.samples, so.Samples...)
						}
						mu.Unlock()
						for _, fl := range so.Failures {
							for k := int64(0); k < max64(fl.Count, 1); k++ {
								g := fl
								res.addFailure(g)
							}
						}
						res.mu.Lock()
						for _, o := range so.Obs {
							res.obs[o] = struct{}{}
						}
						res.mu.Unlock()
						return
					}
				}
				if timedOut {
					mu.Lock()
					complete = false
					mu.Unlock()
					return
				}
				// the worker died: attribute to the last logged case
				pb, _ := os.ReadFile(prog)
				idx, perr := strconv.ParseInt(strings.TrimSpace(string(pb)), 10, 64)
				if perr != nil {
					res.addFailure(Failure{Property: c.ID, Sig: "harness-worker-died:" + f.Name, Family: f.Name, Index: -1, Observed: fmt.Sprintf("%v: %s", runErr, stderr.String())})
					mu.Lock()
					complete = false
					mu.Unlock()
					return
				}
				// confirm: 3 fresh processes, default stack limit
				died := 0
				var last string
				const confirm = 3
				for k := 0; k < confirm; k++ {
					cc := exec.Command(exe, c.ID, tier, "--family", f.Name, "--shard", "0/1", "--only", strconv.FormatInt(idx, 10), "--out", filepath.Join(tmp, fmt.Sprintf("confirm-%d-%d", w, k)))
					var eb bytes.Buffer
					cc.Stderr = &tailWriter{buf: &eb, max: 1 << 16, headOnly: true}
					killed := false
					ct := time.AfterFunc(max(time.Until(deadline), 30*time.Second), func() { killed = true; cc.Process.Kill() })
					err := cc.Run()
					ct.Stop()
					if killed {
						// not a verdict: the confirmation did not finish within the budget
						mu.Lock()
						complete = false
						mu.Unlock()
						died = -1
						break
					}
					if err != nil {
						died++
						last = fmt.Sprintf("%v: %s", err, eb.String())
					}
				}
				if died == confirm {
					kind := "fatal"
					if strings.Contains(last, "stack overflow") || strings.Contains(last, "goroutine stack exceeds") {
						kind = "stack-overflow"
					} else if strings.Contains(last, "out of memory") || strings.Contains(last, "cannot allocate") {
						kind = "out-of-memory"
					}
					site := fatalSite(last)
					if f.CrashClass != nil {
						site = f.CrashClass(idx)
					}
					in := fmt.Sprintf("family %s case %d (see replay: index addresses the generated input)", f.Name, idx)
					res.addFailure(Failure{Property: c.ID, Sig: f.Name + ":" + kind + ":" + site, Family: f.Name, Index: idx, Input: in, Expected: "returns a value or an error", Observed: clip(last)})
				} else if died > 0 {
					res.addFailure(Failure{Property: c.ID, Sig: "harness-flaky-crash:" + f.Name, Family: f.Name, Index: idx, Observed: last})
				}
				// died == 0: only the lowered stack limit killed it — not a violation.
				mu.Lock()
				st.Done += (idx-from)/W + 1 // approximately; the shard continues after idx
				mu.Unlock()
				from = idx + 1
			}
		}(w)
	}
	wg.Wait()
	if st.Done > n {
		st.Done = n
	}
	st.Exhaustive = complete && st.Done == n
	st.WallS = time.Since(start).Seconds()
	res.evals += st.Done
	res.nontriv += st.Nontrivial
	return st
}

func max64(a, b int64) int64 {
	if a > b {
		return a
	}
	return b
}

// fatalSite finds the first cedar-go frame in a fatal-error dump.
func fatalSite(dump string) string {
	for _, l := range strings.Split(dump, "\n") {
		if strings.HasPrefix(l, "github.com/cedar-policy/cedar-go/") && !strings.HasPrefix(l, "github.com/cedar-policy/cedar-go/verif/") {
			fn := l
			if j := strings.LastIndex(fn, "("); j > 0 {
				fn = fn[:j]
			}
			return strings.TrimPrefix(fn, "github.com/cedar-policy/cedar-go/")
		}
	}
	return "unknown"
}

// tailWriter keeps a bounded amount of a child's stderr (stack-overflow dumps are huge).
type tailWriter struct {
	buf      *bytes.Buffer
	max      int
	headOnly bool
}

func (t *tailWriter) Write(p []byte) (int, error) {
	if t.buf.Len() < t.max {
		k := t.max - t.buf.Len()
		if k > len(p) {
			k = len(p)
		}
		t.buf.Write(p[:k])
	}
	return len(p), nil
}
