// Package core is the shared model-checking machinery: bounded-exhaustive
// enumeration over index-addressable spaces (E1), deviation-bounded choice
// exploration (E2, explore.go), explicit-state BFS (E3, bfs.go), the cooperative
// scheduler (E4, sched.go), evidence / replay / known-findings plumbing (E8).
package core

import (
	"bytes"
	"encoding/json"
	"fmt"
	"hash/fnv"
	"os"
	"os/exec"
	"path/filepath"
	"runtime"
	"runtime/debug"
	"sort"
	"strconv"
	"strings"
	"sync"
	"sync/atomic"
	"time"
)

// A Family is one finite, index-addressable space of cases of a check. Case i can
// be regenerated from i alone, so a violation is replayable by (family, index).
type Family struct {
	Name string
	Desc string // descriptor of the space (alphabet and bound), goes into evidence
	N    int64  // number of cases; every index in [0,N) is executed
	// Run executes case i against the real code and the oracle.
	Run func(t *T, i int64)
	// Serial families are executed by one goroutine in index order (used by
	// engines that keep state across cases or that must not be run concurrently).
	Serial bool
	// Isolated families run in worker subprocesses (fatal errors cannot be recovered).
	Isolated bool
	// ThoroughOnly families are skipped in the quick tier.
	ThoroughOnly bool
	// QuickN, if > 0, limits the quick tier to the first QuickN indices (spaces are
	// ordered smallest-first, so this is a smaller bound, not a sample).
	QuickN int64
	// QuickDesc describes the sub-bound covered by QuickN.
	QuickDesc string
	// CrashClass, for Isolated families, names the input class of case i; a fatal error is
	// reported under the signature <family>:<kind>:<class> (the frame at which a stack
	// overflow happens to trip is not stable, the input class is).
	CrashClass func(i int64) string
	// HangAfter, if > 0, arms the stall detector: a case that runs longer than this is
	// re-run alone in fresh subprocesses (each allowed 3x HangAfter); if it never
	// finishes there either it is reported as <family>:hang:<class>. It is set only on
	// families whose cases take milliseconds (the evidence reports max_case_s, so the
	// margin is visible), never used as a performance oracle.
	HangAfter time.Duration
}

// A Check is everything registered for one property.
type Check struct {
	ID          string
	Title       string
	Rule        string
	Assumptions []string
	Families    func(tier string) []*Family
	// HangAfter is the default stall threshold of the check's families (0 = none).
	HangAfter time.Duration
}

// Failure is one observed disagreement between implementation and oracle.
type Failure struct {
	Property string `json:"property"`
	Sig      string `json:"signature"`
	Family   string `json:"family"`
	Index    int64  `json:"index"`
	Choices  []int  `json:"choices,omitempty"`
	Input    string `json:"input"`
	Expected string `json:"expected"`
	Observed string `json:"observed"`
	Count    int64  `json:"count,omitempty"` // how many cases share the signature
	Tier     string `json:"tier,omitempty"`  // the tier whose index space Family/Index refer to
}

// T is handed to Family.Run for one case.
type T struct {
	fam        *Family
	idx        int64
	nontrivial bool
	failures   []Failure
	obs        []string
	states     int64
	trans      int64
	traces     int64
	sample     string
	wantSample bool
	// Replay: if non-nil, explorers run exactly this choice sequence.
	ReplayChoices []int
	curChoices    []int
	Tier          string
	parent        *T
	mu            sync.Mutex
	capped        bool
	caseDeadline  time.Time
}

// Deadline is the end of the run's budget (zero: none). An explorer inside a case stops
// starting new executions once it has passed and marks the case as capped; the family is then
// reported with exhaustive:false (the exit status is unaffected).
var Deadline time.Time

// Capped marks this case as not fully explored (budget or an explicit cap reached).
func (t *T) Capped() {
	for x := t; x != nil; x = x.parent {
		x.mu.Lock()
		x.capped = true
		x.mu.Unlock()
	}
}

// ShareBudget gives this case an equal share of what is left of the run's budget, assuming
// `remaining` cases (this one included) still have to run one after the other: an explorer
// inside the case stops (capped) when the share is used up, so that the later cases of a
// serial family are not starved by the earlier ones.
func (t *T) ShareBudget(remaining int64) {
	if Deadline.IsZero() || remaining <= 0 {
		return
	}
	left := time.Until(Deadline)
	if left < 0 {
		left = 0
	}
	t.caseDeadline = time.Now().Add(left / time.Duration(remaining))
}

func (t *T) pastCaseDeadline() bool {
	return !t.caseDeadline.IsZero() && time.Now().After(t.caseDeadline)
}

// PastDeadline reports whether the run's budget is used up.
func PastDeadline() bool { return !Deadline.IsZero() && time.Now().After(Deadline) }

// Child returns a T for one sub-execution (a BFS transition, a schedule) that may run
// concurrently with other children; its failures carry the given choice sequence and
// are delivered to the parent.
func (t *T) Child(choices []int) *T {
	return &T{fam: t.fam, idx: t.idx, Tier: t.Tier, parent: t, curChoices: choices, ReplayChoices: t.ReplayChoices}
}

func (t *T) Index() int64 { return t.idx }

// Nontrivial marks this case as non-trivial by the check's stated rule.
func (t *T) Nontrivial() { t.nontrivial = true }

// Obs records one observation class (the number of distinct ones is reported).
func (t *T) Obs(s string) { t.obs = append(t.obs, s) }

func (t *T) AddStates(n int64) { t.states += n }
func (t *T) AddTrans(n int64)  { t.trans += n }
func (t *T) AddTraces(n int64) { t.traces += n }

// Sample sets the rendered form of this case (kept for first/middle/last cases).
func (t *T) Sample(s string) { t.sample = s }

// SampleF is the lazy form: f is only called for the cases that are kept.
func (t *T) SampleF(f func() string) {
	if t.wantSample {
		t.sample = f()
	}
}

// SetChoices is used by the explorers so that a failure carries its schedule.
func (t *T) SetChoices(c []int) { t.curChoices = c }

// Fail reports a violation. sig must identify the defect class (operator and
// operand class, call site, minimal history) — it is what known_findings.json lists.
func (t *T) Fail(sig, input, expected, observed string) {
	f := Failure{Sig: sig, Family: t.fam.Name, Index: t.idx, Input: clip(input), Expected: clip(expected), Observed: clip(observed)}
	if t.curChoices != nil {
		f.Choices = append([]int{}, t.curChoices...)
	}
	t.failures = append(t.failures, f)
	if p := t.parent; p != nil {
		p.mu.Lock()
		p.failures = append(p.failures, f)
		p.mu.Unlock()
	}
}

func (t *T) Failf(sig, input, format string, a ...any) {
	t.Fail(sig, input, "", fmt.Sprintf(format, a...))
}

func (t *T) Failed() bool { return len(t.failures) > 0 }

func clip(s string) string {
	if len(s) > 4000 {
		return s[:4000] + "…(clipped)"
	}
	return s
}

// Protect runs f and converts a panic into a failure with the given signature
// prefix (used by checks for which "no panic" is part of the property). It
// returns true if f panicked.
func (t *T) Protect(sig, input string, f func()) (panicked bool) {
	defer func() {
		if r := recover(); r != nil {
			panicked = true
			st := string(debug.Stack())
			t.Fail(sig+":panic:"+PanicSite(st), input, "no panic", fmt.Sprintf("panic: %v\n%s", r, clip(st)))
		}
	}()
	f()
	return false
}

// PanicSite extracts the innermost cedar-go frame (file:func) from a stack, used as
// the call-site part of a signature.
// PanicInLibrary reports whether the innermost non-runtime frame of a recovered panic is
// code of the library under test (and not of the harness).
func PanicInLibrary(stack string) bool {
	lines := strings.Split(stack, "\n")
	seenPanic := false
	for _, l := range lines {
		if strings.HasPrefix(l, "panic(") {
			seenPanic = true
			continue
		}
		if !seenPanic || strings.HasPrefix(l, "\t") || strings.HasPrefix(l, "runtime.") || strings.HasPrefix(l, "runtime/") {
			continue
		}
		return strings.HasPrefix(l, "github.com/cedar-policy/cedar-go/") && !strings.HasPrefix(l, "github.com/cedar-policy/cedar-go/verif/")
	}
	return false
}

func PanicSite(stack string) string {
	lines := strings.Split(stack, "\n")
	seenPanic := false
	for i := 0; i < len(lines); i++ {
		l := lines[i]
		if strings.HasPrefix(l, "panic(") {
			seenPanic = true
			continue
		}
		if !seenPanic {
			continue
		}
		if strings.HasPrefix(l, "github.com/cedar-policy/cedar-go/") && !strings.HasPrefix(l, "github.com/cedar-policy/cedar-go/verif/") {
			fn := l
			if j := strings.LastIndex(fn, "("); j > 0 {
				fn = fn[:j]
			}
			fn = strings.TrimPrefix(fn, "github.com/cedar-policy/cedar-go/")
			return fn
		}
	}
	return "unknown"
}

// ---------------------------------------------------------------------------

type famStat struct {
	Name       string  `json:"family"`
	Desc       string  `json:"space"`
	N          int64   `json:"size"`
	Done       int64   `json:"executed"`
	Nontrivial int64   `json:"nontrivial"`
	Exhaustive bool    `json:"exhaustive"`
	WallS      float64 `json:"wall_s"`
	MaxCaseS   float64 `json:"max_case_s,omitempty"`
}

type result struct {
	fams     []famStat
	failures map[string]*Failure // by signature, smallest (family order, index)
	famOrder map[string]int
	obs      map[string]struct{}
	states   int64
	trans    int64
	traces   int64
	evals    int64
	nontriv  int64
	samples  []any
	exhaust  bool
	mu       sync.Mutex
}

func (r *result) addFailure(f Failure) {
	r.mu.Lock()
	defer r.mu.Unlock()
	old, ok := r.failures[f.Sig]
	if !ok {
		if len(r.failures) >= 400 {
			return
		}
		f.Count = 1
		c := f
		r.failures[f.Sig] = &c
		return
	}
	cnt := old.Count + 1
	if r.famOrder[f.Family] < r.famOrder[old.Family] || (f.Family == old.Family && f.Index < old.Index) {
		c := f
		r.failures[f.Sig] = &c
		old = r.failures[f.Sig]
	}
	old.Count = cnt
}

// Budget in seconds per tier; a run that exceeds it stops taking new cases and
// reports exhaustive:false (exit status is unaffected).
func budget(tier string) time.Duration {
	if s := os.Getenv("VERIF_BUDGET_S"); s != "" {
		var n int
		fmt.Sscan(s, &n)
		if n > 0 {
			return time.Duration(n) * time.Second
		}
	}
	if tier == "thorough" {
		return 40 * time.Minute
	}
	return 4 * time.Minute
}

func runFamily(c *Check, f *Family, tier string, res *result, deadline time.Time, only int64, replay []int) famStat {
	start := time.Now()
	n := f.N
	desc := f.Desc
	if tier == "quick" && f.QuickN > 0 && f.QuickN < n {
		n = f.QuickN
		desc = f.QuickDesc
	}
	st := famStat{Name: f.Name, Desc: desc, N: n}
	workers := runtime.GOMAXPROCS(0)
	if f.Serial || only >= 0 {
		workers = 1
	}
	var next int64
	var done, nontriv, states, trans, traces int64
	var timedOut int32
	var wg sync.WaitGroup
	const chunk = 64
	sampleIdx := map[int64]bool{0: true, n / 2: true, n - 1: true}
	one := func(i int64) {
		t := &T{fam: f, idx: i, Tier: tier, ReplayChoices: replay, wantSample: sampleIdx[i]}
		func() {
			defer func() {
				if r := recover(); r != nil {
					// A panic escaping Run is a harness error unless the check
					// protects the call itself; report it loudly.
					st := string(debug.Stack())
					if PanicInLibrary(st) {
						// the innermost frame is library code: the call under test did not return
						t.Fail("library-panic:"+f.Name+":"+PanicSite(st), fmt.Sprintf("case %d", i), "the call returns (a value or an error)", fmt.Sprintf("panic: %v\n%s", r, clip(st)))
					} else {
						t.Fail("harness-panic:"+f.Name+":"+PanicSite(st), fmt.Sprintf("case %d", i), "no panic", fmt.Sprintf("%v\n%s", r, clip(st)))
					}
				}
			}()
			f.Run(t, i)
		}()
		atomic.AddInt64(&done, 1)
		if t.capped {
			atomic.StoreInt32(&timedOut, 1)
		}
		if t.nontrivial {
			atomic.AddInt64(&nontriv, 1)
		}
		atomic.AddInt64(&states, t.states)
		atomic.AddInt64(&trans, t.trans)
		atomic.AddInt64(&traces, t.traces)
		for _, fl := range t.failures {
			fl.Property = c.ID
			res.addFailure(fl)
		}
		if len(t.obs) > 0 || (sampleIdx[i] && t.sample != "") {
			res.mu.Lock()
			for _, o := range t.obs {
				if len(res.obs) < 100000 {
					res.obs[o] = struct{}{}
				}
			}
			if sampleIdx[i] && t.sample != "" && len(res.samples) < 60 {
				res.samples = append(res.samples, map[string]any{"family": f.Name, "index": i, "case": t.sample})
			}
			res.mu.Unlock()
		}
	}
	hangAfter := f.HangAfter
	if hangAfter == 0 {
		hangAfter = c.HangAfter
	}
	var maxCase int64 // nanoseconds
	timed := func(i int64) {
		t0 := time.Now()
		one(i)
		d := int64(time.Since(t0))
		for {
			m := atomic.LoadInt64(&maxCase)
			if d <= m || atomic.CompareAndSwapInt64(&maxCase, m, d) {
				break
			}
		}
	}
	hung := false
	if only >= 0 {
		if hangAfter > 0 {
			fin := make(chan struct{})
			go func() { timed(only); close(fin) }()
			select {
			case <-fin:
			case <-time.After(3 * hangAfter):
				hung = true
				res.addFailure(hangFailure(c, f, only, 3*hangAfter))
			}
		} else {
			timed(only)
		}
	} else {
		cur := make([]int64, workers)   // index+1 of the case a worker is running, 0 = none
		began := make([]int64, workers) // when it started (unix nanoseconds)
		var stop int32
		for w := 0; w < workers; w++ {
			wg.Add(1)
			go func(w int) {
				defer wg.Done()
				for {
					if time.Now().After(deadline) {
						atomic.StoreInt32(&timedOut, 1)
						return
					}
					if atomic.LoadInt32(&stop) != 0 {
						return
					}
					lo := atomic.AddInt64(&next, chunk) - chunk
					if lo >= n {
						return
					}
					hi := lo + chunk
					if hi > n {
						hi = n
					}
					for i := lo; i < hi; i++ {
						atomic.StoreInt64(&began[w], time.Now().UnixNano())
						atomic.StoreInt64(&cur[w], i+1)
						timed(i)
						atomic.StoreInt64(&cur[w], 0)
					}
				}
			}(w)
		}
		fin := make(chan struct{})
		go func() { wg.Wait(); close(fin) }()
		if hangAfter <= 0 {
			<-fin
		} else {
			// stall detector
			cleared := map[int64]time.Duration{}
			tick := time.NewTicker(time.Second)
		watch:
			for {
				select {
				case <-fin:
					break watch
				case <-tick.C:
					for w := range cur {
						i := atomic.LoadInt64(&cur[w]) - 1
						if i < 0 {
							continue
						}
						el := time.Since(time.Unix(0, atomic.LoadInt64(&began[w])))
						thr := hangAfter
						if t, ok := cleared[i]; ok {
							thr = t
						}
						if el <= thr || atomic.LoadInt64(&cur[w])-1 != i {
							continue
						}
						if fl := stallFailure(c, f, tier, i, 3*hangAfter); fl != nil {
							res.addFailure(*fl)
							hung = true
							atomic.StoreInt32(&stop, 1)
							break watch
						}
						cleared[i] = el + 10*hangAfter // finished on its own when run alone: slow, not stuck
					}
				}
			}
			tick.Stop()
		}
	}
	done = atomic.LoadInt64(&done)
	nontriv = atomic.LoadInt64(&nontriv)
	if hung {
		atomic.StoreInt32(&timedOut, 1)
	}
	st.MaxCaseS = float64(atomic.LoadInt64(&maxCase)) / 1e9
	st.Done = done
	st.Nontrivial = nontriv
	st.Exhaustive = done == n && timedOut == 0
	st.WallS = time.Since(start).Seconds()
	res.evals += done
	res.nontriv += nontriv
	res.states += states
	res.trans += trans
	res.traces += traces
	return st
}

func hangClass(f *Family, i int64) string {
	if f.CrashClass != nil {
		return f.CrashClass(i)
	}
	return "case"
}

func hangFailure(c *Check, f *Family, i int64, limit time.Duration) Failure {
	return Failure{Property: c.ID, Sig: f.Name + ":hang:" + hangClass(f, i), Family: f.Name, Index: i,
		Input:    fmt.Sprintf("family %s case %d (the replay index addresses the generated input)", f.Name, i),
		Expected: "the call returns (cases of this family take milliseconds)",
		Observed: fmt.Sprintf("still running after %v, also when re-run alone in fresh processes", limit)}
}

// confirmCase re-runs case i alone in two fresh subprocesses (default stack limit),
// each allowed limit. Result: "ok" (it finished at least once: slow, not stuck), "hang"
// (never finished), or "stack-overflow" / "out-of-memory" / "fatal" (died every time).
func confirmCase(c *Check, f *Family, tier string, i int64, limit time.Duration) (kind, detail string) {
	exe, err := os.Executable()
	if err != nil {
		return "ok", ""
	}
	tmp, err := os.MkdirTemp("", "mchang")
	if err != nil {
		return "ok", ""
	}
	defer os.RemoveAll(tmp)
	hangs, deaths, oks := 0, 0, 0
	const runs = 2
	var mu sync.Mutex
	var wg sync.WaitGroup
	for k := 0; k < runs; k++ {
		wg.Add(1)
		go func(k int) {
			defer wg.Done()
			cc := exec.Command(exe, c.ID, tier, "--family", f.Name, "--shard", "0/1", "--only", strconv.FormatInt(i, 10), "--out", filepath.Join(tmp, fmt.Sprintf("o%d", k)))
			var eb bytes.Buffer
			cc.Stderr = &tailWriter{buf: &eb, max: 1 << 16, headOnly: true}
			killed := int32(0)
			if err := cc.Start(); err != nil {
				mu.Lock()
				oks++
				mu.Unlock()
				return
			}
			ct := time.AfterFunc(limit, func() { atomic.StoreInt32(&killed, 1); cc.Process.Kill() })
			werr := cc.Wait()
			ct.Stop()
			mu.Lock()
			defer mu.Unlock()
			switch {
			case atomic.LoadInt32(&killed) != 0:
				hangs++
			case werr != nil:
				deaths++
				detail = fmt.Sprintf("%v: %s", werr, eb.String())
			default:
				oks++
			}
		}(k)
	}
	wg.Wait()
	if oks > 0 {
		return "ok", ""
	}
	if hangs == runs {
		return "hang", ""
	}
	if deaths == runs {
		switch {
		case strings.Contains(detail, "stack overflow") || strings.Contains(detail, "goroutine stack exceeds"):
			return "stack-overflow", detail
		case strings.Contains(detail, "out of memory") || strings.Contains(detail, "cannot allocate"):
			return "out-of-memory", detail
		}
		return "fatal", detail
	}
	// one run was killed and one died: it does not return either way
	return "hang", detail
}

// stallFailure turns the verdict of confirmCase into a failure (nil for "ok").
func stallFailure(c *Check, f *Family, tier string, i int64, limit time.Duration) *Failure {
	kind, detail := confirmCase(c, f, tier, i, limit)
	if kind == "ok" {
		return nil
	}
	fl := hangFailure(c, f, i, limit)
	if kind != "hang" {
		fl.Sig = f.Name + ":" + kind + ":" + hangClass(f, i)
		fl.Expected = "returns a value or an error"
		fl.Observed = clip(detail)
	}
	return &fl
}

// ---------------------------------------------------------------------------
// known findings

type KnownFinding struct {
	Property  string `json:"property"`
	Signature string `json:"signature"`
	What      string `json:"what"`
}

type knownFile struct {
	Findings []KnownFinding `json:"findings"`
	Fixed    []string       `json:"fixed"`
}

func loadKnown(root string) map[string]KnownFinding {
	m := map[string]KnownFinding{}
	b, err := os.ReadFile(filepath.Join(root, "known_findings.json"))
	if err != nil {
		return m
	}
	var kf knownFile
	if err := json.Unmarshal(b, &kf); err != nil {
		fmt.Fprintf(os.Stderr, "known_findings.json: %v\n", err)
		os.Exit(2)
	}
	for _, k := range kf.Findings {
		m[k.Property+"|"+k.Signature] = k
	}
	return m
}

// ---------------------------------------------------------------------------

func Root() string {
	if r := os.Getenv("VERIF_ROOT"); r != "" {
		return r
	}
	return "/verif"
}

// OutRoot is where evidence and replay files are written (VERIF_OUT overrides, used
// by the selftest so that mutant runs do not overwrite real evidence).
func OutRoot() string {
	if r := os.Getenv("VERIF_OUT"); r != "" {
		return r
	}
	return Root()
}

func sigFile(sig string) string {
	h := fnv.New64a()
	h.Write([]byte(sig))
	clean := strings.Map(func(r rune) rune {
		switch {
		case r >= 'a' && r <= 'z', r >= 'A' && r <= 'Z', r >= '0' && r <= '9', r == '-', r == '_', r == '.':
			return r
		}
		return '_'
	}, sig)
	if len(clean) > 80 {
		clean = clean[:80]
	}
	return fmt.Sprintf("%s-%08x.json", clean, uint32(h.Sum64()))
}

// Main runs one check: mc <id> <tier> | mc <id> --replay <file>.
func Main(c *Check, args []string) int {
	tier := "quick"
	replayPath := ""
	onlyFam := ""
	for i := 0; i < len(args); i++ {
		switch args[i] {
		case "quick", "thorough":
			tier = args[i]
		case "--replay":
			i++
			replayPath = args[i]
		case "--family":
			i++
			onlyFam = args[i]
		}
	}
	if v := os.Getenv("VERIF_TIER"); v == "quick" || v == "thorough" {
		if len(args) == 0 {
			tier = v
		}
	}
	seed := 0
	fmt.Sscan(os.Getenv("VERIF_SEED"), &seed)
	root := Root()
	start := time.Now()
	res := &result{failures: map[string]*Failure{}, obs: map[string]struct{}{}, famOrder: map[string]int{}}
	fams := c.Families(tier)
	for i, f := range fams {
		res.famOrder[f.Name] = i
	}
	if replayPath != "" {
		b, err := os.ReadFile(replayPath)
		if err != nil {
			fmt.Fprintln(os.Stderr, err)
			return 2
		}
		var fl Failure
		if err := json.Unmarshal(b, &fl); err != nil {
			fmt.Fprintln(os.Stderr, err)
			return 2
		}
		// replay in the index space of the tier that found the violation
		rt := fl.Tier
		if rt == "" {
			rt = "quick"
		}
		fams = c.Families(rt)
		for _, f := range fams {
			if f.Name == fl.Family {
				crashed := false
				if f.Isolated {
					// a case of an isolated family may kill the process: run it in worker
					// processes first (address-space limit, crash classification)
					if sf := stallFailure(c, f, rt, fl.Index, 10*time.Minute); sf != nil {
						sf.Property = c.ID
						res.addFailure(*sf)
						crashed = true
					}
				}
				if !crashed {
					runFamily(c, f, rt, res, time.Now().Add(time.Hour), fl.Index, fl.Choices)
				}
				if len(res.failures) == 0 {
					fmt.Printf("REPLAY property=%s family=%s index=%d: no violation\n", c.ID, fl.Family, fl.Index)
					return 0
				}
				for _, g := range sortedFailures(res) {
					fmt.Printf("REPLAY property=%s signature=%s\n  input: %s\n  expected: %s\n  observed: %s\n", c.ID, g.Sig, g.Input, g.Expected, g.Observed)
				}
				fmt.Printf("VIOLATION property=%s replay=%s\n", c.ID, replayPath)
				return 1
			}
		}
		fmt.Fprintf(os.Stderr, "unknown family %q\n", fl.Family)
		return 2
	}
	deadline := start.Add(budget(tier))
	Deadline = deadline
	allEx := true
	for _, f := range fams {
		if tier == "quick" && f.ThoroughOnly {
			continue
		}
		if onlyFam != "" && f.Name != onlyFam {
			continue
		}
		var st famStat
		if f.Isolated {
			st = runIsolated(c, f, tier, res, deadline)
		} else {
			st = runFamily(c, f, tier, res, deadline, -1, nil)
		}
		res.fams = append(res.fams, st)
		if !st.Exhaustive {
			allEx = false
		}
		fmt.Fprintf(os.Stderr, "[%s] %-28s %10d/%-10d nontrivial=%-9d %.1fs exhaustive=%v\n", c.ID, f.Name, st.Done, st.N, st.Nontrivial, st.WallS, st.Exhaustive)
	}
	res.exhaust = allEx

	// classify failures
	known := loadKnown(root)
	fails := sortedFailures(res)
	exit := 0
	var knownHit []string
	nviol := 0
	for _, f := range fails {
		if strings.HasPrefix(f.Sig, "harness-") {
			fmt.Printf("HARNESS-ERROR property=%s %s: %s\n", c.ID, f.Sig, f.Observed)
			if exit == 0 {
				exit = 2
			}
			continue
		}
		if k, ok := known[c.ID+"|"+f.Sig]; ok {
			fmt.Printf("KNOWN-FINDING: property=%s %s (%s; %d cases, first: %s)\n", c.ID, f.Sig, k.What, f.Count, oneLine(f.Input))
			knownHit = append(knownHit, f.Sig)
			continue
		}
		nviol++
		f.Tier = tier
		dir := filepath.Join(OutRoot(), "replays", c.ID)
		os.MkdirAll(dir, 0o755)
		p := filepath.Join(dir, sigFile(f.Sig))
		b, _ := json.MarshalIndent(f, "", " ")
		os.WriteFile(p, b, 0o644)
		fmt.Printf("  signature=%s cases=%d\n  input: %s\n  expected: %s\n  observed: %s\n", f.Sig, f.Count, oneLine(f.Input), oneLine(f.Expected), oneLine(f.Observed))
		fmt.Printf("VIOLATION property=%s replay=%s\n", c.ID, p)
		exit = 1
	}
	writeEvidence(c, tier, seed, res, knownHit, nviol, time.Since(start).Seconds(), OutRoot())
	return exit
}

func oneLine(s string) string {
	s = strings.ReplaceAll(s, "\n", "\\n")
	if len(s) > 600 {
		s = s[:600] + "…"
	}
	return s
}

func sortedFailures(res *result) []*Failure {
	var out []*Failure
	for _, f := range res.failures {
		out = append(out, f)
	}
	sort.Slice(out, func(i, j int) bool {
		a, b := out[i], out[j]
		if res.famOrder[a.Family] != res.famOrder[b.Family] {
			return res.famOrder[a.Family] < res.famOrder[b.Family]
		}
		if a.Index != b.Index {
			return a.Index < b.Index
		}
		return a.Sig < b.Sig
	})
	return out
}

func writeEvidence(c *Check, tier string, seed int, res *result, knownHit []string, nviol int, wall float64, root string) {
	states := res.states
	trans := res.trans
	traces := res.traces
	if states == 0 {
		states = res.evals // E1: every enumerated input is one explored state
	}
	if trans == 0 {
		trans = res.evals
	}
	if traces == 0 {
		traces = res.evals
	}
	samples := res.samples
	if len(samples) == 0 {
		samples = []any{"(no sample recorded)"}
	}
	var bounds []string
	for _, f := range res.fams {
		bounds = append(bounds, fmt.Sprintf("%s: %s [%d/%d]", f.Name, f.Desc, f.Done, f.N))
	}
	ev := map[string]any{
		"property_id": c.ID,
		"tier":        tier,
		"seed":        seed,
		"level":       "model_checking",
		"coverage": map[string]any{
			"states":                        states,
			"transitions":                   trans,
			"traces_validated_against_impl": traces,
			"evaluations":                   res.evals,
			"distinct_nontrivial":           res.nontriv,
			"rule":                          c.Rule,
			"samples":                       samples,
			"exhaustive":                    res.exhaust,
			"families":                      res.fams,
			"bound":                         bounds,
			"distinct_observations":         len(res.obs),
			"known_findings_hit":            knownHit,
		},
		"assumptions": c.Assumptions,
		"wall_s":      wall,
		"violations":  nviol,
	}
	b, _ := json.MarshalIndent(ev, "", " ")
	os.MkdirAll(filepath.Join(root, "evidence"), 0o755)
	if err := os.WriteFile(filepath.Join(root, "evidence", c.ID+".json"), b, 0o644); err != nil {
		fmt.Fprintln(os.Stderr, err)
	}
	fmt.Printf("SUMMARY property=%s tier=%s evaluations=%d nontrivial=%d states=%d transitions=%d distinct_obs=%d exhaustive=%v violations=%d known=%d wall=%.1fs\n",
		c.ID, tier, res.evals, res.nontriv, states, trans, len(res.obs), res.exhaust, nviol, len(knownHit), wall)
}
