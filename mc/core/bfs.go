package core

import (
	"runtime"
	"sync"
)

// E3 — explicit-state breadth-first search over operation histories.
//
// A state is identified by the canonical key that step() returns for the history
// reaching it; live objects are never cloned: step(path) builds a fresh real
// object and a fresh model, replays the path on both (comparing every step), and
// returns the canonical form of the model state. step reports disagreements via
// the T it is given (a child of the family's T carrying the path).

type BFSStats struct {
	States, Transitions int64
	MaxDepth            int
	Capped              bool
}

// BFS explores all histories of length <= maxDepth over an alphabet of nOps
// operations, level by level, the transitions of one level in parallel. step
// returns (key, expand): expand=false stops expansion below the state (used after a
// failure, so that one defect is not reported once per suffix). maxStates
// (0 = unlimited) caps the number of distinct states; reaching it is reported.
func BFS(t *T, nOps, maxDepth int, maxStates int64, step func(ct *T, path []int) (key string, expand bool)) BFSStats {
	var st BFSStats
	if t.ReplayChoices != nil {
		step(t.Child(t.ReplayChoices), t.ReplayChoices)
		st.States, st.Transitions = 1, int64(len(t.ReplayChoices))
		return st
	}
	seen := map[string]struct{}{}
	k0, ex := step(t.Child([]int{}), nil)
	seen[k0] = struct{}{}
	st.States = 1
	frontier := [][]int{{}}
	if !ex {
		frontier = nil
	}
	workers := runtime.GOMAXPROCS(0)
	for depth := 1; depth <= maxDepth && len(frontier) > 0; depth++ {
		var next [][]int
		var mu sync.Mutex
		var wg sync.WaitGroup
		total := len(frontier) * nOps
		var cursor int
		for w := 0; w < workers; w++ {
			wg.Add(1)
			go func() {
				defer wg.Done()
				for {
					mu.Lock()
					lo := cursor
					cursor += 32
					if lo < total && PastDeadline() {
						st.Capped = true
						t.Capped()
						cursor = total
						lo = total
					}
					mu.Unlock()
					if lo >= total {
						return
					}
					hi := min(lo+32, total)
					for j := lo; j < hi; j++ {
						p := frontier[j/nOps]
						np := make([]int, len(p)+1)
						copy(np, p)
						np[len(p)] = j % nOps
						k, ex := step(t.Child(np), np)
						mu.Lock()
						st.Transitions++
						if _, ok := seen[k]; !ok {
							if maxStates > 0 && st.States >= maxStates {
								st.Capped = true
								t.Capped()
							} else {
								seen[k] = struct{}{}
								st.States++
								st.MaxDepth = depth
								if ex {
									next = append(next, np)
								}
							}
						}
						mu.Unlock()
					}
				}
			}()
		}
		wg.Wait()
		frontier = next
	}
	t.AddStates(st.States)
	t.AddTrans(st.Transitions)
	t.AddTraces(st.Transitions)
	return st
}
