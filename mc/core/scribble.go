package core

// Scribbled runs decode on a private copy of src and then overwrites the copy: what a decoder
// built from the bytes must not keep pointing into them (callers reuse their read buffers).
func Scribbled(src []byte, decode func(b []byte) error) error {
	b := append(make([]byte, 0, len(src)+8), src...)
	err := decode(b)
	for i := range b {
		b[i] = '#'
	}
	b = b[:cap(b)]
	for i := range b {
		b[i] = '#'
	}
	return err
}
