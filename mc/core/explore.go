package core

import "fmt"

// E2 — deviation-bounded stateless exploration with prefix replay.
//
// The body calls ctx.Choose wherever the environment decides something.
// Alternative 0 is the default answer; any other alternative costs one deviation
// (or the cost given to ChooseCost). Explore runs the body once per choice
// sequence whose total cost is within the bound.

type point struct {
	label string
	n     int
	costs []int
}

type Ctx struct {
	prefix  []int
	points  []point
	choices []int
	want    []point // points of the parent execution, to detect divergence
	Aux     any
}

// HarnessDivergence is panicked when replaying a prefix does not reproduce the
// same choice points: nondeterminism the harness does not own. Never a verdict.
type HarnessDivergence struct{ Msg string }

func (c *Ctx) Choose(label string, n int) int { return c.ChooseCost(label, n, nil) }

func (c *Ctx) ChooseCost(label string, n int, costs []int) int {
	if n <= 0 {
		panic(HarnessDivergence{fmt.Sprintf("Choose(%s, %d): empty menu", label, n)})
	}
	i := len(c.points)
	if i < len(c.want) && i < len(c.prefix) {
		w := c.want[i]
		if w.label != label || w.n != n {
			panic(HarnessDivergence{fmt.Sprintf("divergence at choice point %d: replay saw (%s,%d), recorded (%s,%d)", i, label, n, w.label, w.n)})
		}
	}
	c.points = append(c.points, point{label, n, costs})
	ch := 0
	if i < len(c.prefix) {
		ch = c.prefix[i]
		if ch >= n {
			panic(HarnessDivergence{fmt.Sprintf("choice %d out of range at point %d (%s,%d)", ch, i, label, n)})
		}
	}
	c.choices = append(c.choices, ch)
	return ch
}

// Choices returns the choices made so far in this execution.
func (c *Ctx) Choices() []int { return c.choices }

// Deviations returns the labels of the choice points at which this execution deviated
// from the default answer (used for violation signatures).
func (c *Ctx) Deviations() []string {
	var out []string
	for i, ch := range c.choices {
		if ch != 0 {
			out = append(out, c.points[i].label)
		}
	}
	return out
}

type ExploreStats struct {
	Execs    int64
	Points   int64
	MaxDepth int
	Capped   bool
}

func altCost(p point, alt int) int {
	if alt == 0 {
		return 0
	}
	if p.costs != nil {
		return p.costs[alt]
	}
	return 1
}

// Explore enumerates every execution of body with total deviation cost <= bound.
// maxExec (0 = unlimited) caps the number of executions; hitting the cap is
// reported in the stats, never silently.
func Explore(t *T, bound int, maxExec int64, body func(c *Ctx)) ExploreStats {
	var st ExploreStats
	if t.ReplayChoices != nil {
		c := &Ctx{prefix: t.ReplayChoices}
		t.SetChoices(t.ReplayChoices)
		body(c)
		st.Execs = 1
		st.Points = int64(len(c.points))
		return st
	}
	var rec func(prefix []int, want []point, spent int)
	rec = func(prefix []int, want []point, spent int) {
		if (maxExec > 0 && st.Execs >= maxExec) || (st.Execs > 0 && st.Execs%64 == 0 && (PastDeadline() || t.pastCaseDeadline())) || (st.Capped && (PastDeadline() || t.pastCaseDeadline())) {
			st.Capped = true
			t.Capped()
			return
		}
		c := &Ctx{prefix: prefix, want: want}
		t.SetChoices(prefix)
		body(c)
		st.Execs++
		st.Points += int64(len(c.points))
		if len(c.points) > st.MaxDepth {
			st.MaxDepth = len(c.points)
		}
		// cost spent up to each point
		cost := spent
		for i := len(prefix); i < len(c.points); i++ {
			p := c.points[i]
			for alt := 1; alt < p.n; alt++ {
				ac := altCost(p, alt)
				if cost+ac > bound {
					continue
				}
				np := make([]int, i+1)
				copy(np, c.choices[:i])
				np[i] = alt
				rec(np, c.points, cost+ac)
			}
			// choice at i beyond the prefix is always 0 (cost 0)
		}
	}
	rec(nil, nil, 0)
	t.SetChoices(nil)
	t.AddTrans(st.Points)
	t.AddStates(st.Execs)
	t.AddTraces(st.Execs)
	return st
}

// Perms returns all permutations of 0..n-1 in lexicographic order (identity first).
func Perms(n int) [][]int {
	var out [][]int
	a := make([]int, n)
	for i := range a {
		a[i] = i
	}
	var rec func(k int)
	used := make([]bool, n)
	cur := make([]int, 0, n)
	rec = func(k int) {
		if k == n {
			out = append(out, append([]int{}, cur...))
			return
		}
		for i := 0; i < n; i++ {
			if !used[i] {
				used[i] = true
				cur = append(cur, i)
				rec(k + 1)
				cur = cur[:len(cur)-1]
				used[i] = false
			}
		}
	}
	rec(0)
	return out
}
