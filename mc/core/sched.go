package core

import (
	"fmt"
)

// E4 — cooperative scheduler. Virtual threads are real goroutines that run one at a
// time; Point parks the caller and hands control to the scheduler, which asks the
// explorer (E2) which enabled thread runs next. Continuing the running thread is the
// default (cost 0); switching away from a thread that could continue is a preemption
// (cost 1); switches at thread start / end are free.

type vthread struct {
	id     int
	resume chan struct{}
	done   bool
	f      func()
	panic  any
}

type Sched struct {
	ctx     *Ctx
	threads []*vthread
	cur     int
	yield   chan struct{}
	// OnPoint is called by the scheduler at every scheduling point (the invariant);
	// switched reports whether the previous decision changed the running thread.
	OnPoint func(label string, thread int, switched bool)
	// Filter, if set, decides which labels are scheduling points (others are passed through).
	Filter   func(label string) bool
	Points   int
	Switches int
	horizon  int
	last     string
	active   bool
}

type Deadlock struct{ Msg string }

func NewSched(ctx *Ctx, horizon int) *Sched {
	return &Sched{ctx: ctx, cur: -1, yield: make(chan struct{}), horizon: horizon}
}

// Point is called from a virtual thread (directly or through verifrt.PointHook).
func (s *Sched) Point(label string) {
	if !s.active {
		return
	}
	if s.Filter != nil && !s.Filter(label) {
		return
	}
	t := s.threads[s.cur]
	s.last = label
	s.yield <- struct{}{}
	<-t.resume
}

// Run executes the thread bodies under the scheduler until all have finished.
func (s *Sched) Run(fs ...func()) (panics []any) {
	for i, f := range fs {
		s.threads = append(s.threads, &vthread{id: i, resume: make(chan struct{}), f: f})
	}
	for _, t := range s.threads {
		t := t
		go func() {
			<-t.resume
			defer func() {
				if r := recover(); r != nil {
					t.panic = r
				}
				t.done = true
				s.yield <- struct{}{}
			}()
			t.f()
		}()
	}
	s.active = true
	// whatever ends the run (the horizon, a diverging replay, a failing invariant), the
	// scheduler stops intercepting: parked threads stay parked, later calls pass through
	defer func() { s.active = false }()
	for {
		// enabled threads in canonical order: the running one first (if still enabled), then ascending ids
		var menu []int
		curEnabled := s.cur >= 0 && !s.threads[s.cur].done
		if curEnabled {
			menu = append(menu, s.cur)
		}
		for _, t := range s.threads {
			if !t.done && t.id != s.cur {
				menu = append(menu, t.id)
			}
		}
		if len(menu) == 0 {
			break
		}
		costs := make([]int, len(menu))
		if curEnabled {
			for i := 1; i < len(costs); i++ {
				costs[i] = 1
			}
		}
		ch := 0
		if len(menu) > 1 {
			ch = s.ctx.ChooseCost(fmt.Sprintf("sched@%s", s.last), len(menu), costs)
		}
		next := menu[ch]
		switched := next != s.cur
		if switched && s.cur >= 0 {
			s.Switches++
		}
		s.cur = next
		if s.OnPoint != nil {
			s.OnPoint(s.last, next, switched)
		}
		s.Points++
		if s.Points > s.horizon {
			panic(Deadlock{fmt.Sprintf("horizon of %d scheduling points exceeded", s.horizon)})
		}
		s.threads[next].resume <- struct{}{}
		<-s.yield
	}
	s.active = false
	for _, t := range s.threads {
		if t.panic != nil {
			panics = append(panics, t.panic)
		}
	}
	return panics
}
