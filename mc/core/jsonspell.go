package core

import (
	"bytes"
	"encoding/json"
	"fmt"
	"sort"
	"strings"
	"unicode/utf16"
)

// JSONSpellings: alternative spellings of the same JSON document: indentation, reversed member order at
// every level, every member name with its first character as a \uXXXX escape, and the three
// together; then two spellings of the strings themselves (member names and values): every
// solidus written `\/`, and every character written as \uXXXX escapes (surrogate pairs above
// the BMP). They are the same document to any JSON reader, so they decode to the same object.
func JSONSpellings(js []byte) ([]string, error) {
	dec := json.NewDecoder(bytes.NewReader(js))
	dec.UseNumber()
	var v any
	if err := dec.Decode(&v); err != nil {
		return nil, err
	}
	strMode := 0
	quote := func(k string) string {
		switch strMode {
		case 1:
			b, _ := json.Marshal(k)
			return strings.ReplaceAll(string(b), "/", `\/`)
		case 2:
			var sb strings.Builder
			sb.WriteByte('"')
			for _, r := range k {
				if r >= 0x10000 {
					r1, r2 := utf16.EncodeRune(r)
					fmt.Fprintf(&sb, `\u%04X\u%04x`, r1, r2)
				} else {
					fmt.Fprintf(&sb, `\u%04x`, r)
				}
			}
			sb.WriteByte('"')
			return sb.String()
		}
		b, _ := json.Marshal(k)
		return string(b)
	}
	var render func(v any, rev, esc bool, indent string, sb *strings.Builder)
	render = func(v any, rev, esc bool, indent string, sb *strings.Builder) {
		nl, in2 := "", ""
		if indent != "" {
			nl, in2 = "\n"+indent, indent+"\t"
		}
		switch x := v.(type) {
		case map[string]any:
			keys := make([]string, 0, len(x))
			for k := range x {
				keys = append(keys, k)
			}
			sort.Strings(keys)
			if rev {
				for i, j := 0, len(keys)-1; i < j; i, j = i+1, j-1 {
					keys[i], keys[j] = keys[j], keys[i]
				}
			}
			sb.WriteString("{")
			for i, k := range keys {
				if i > 0 {
					sb.WriteString(",")
				}
				if indent != "" {
					sb.WriteString("\n" + in2)
				}
				ks := quote(k)
				if esc && len(k) > 0 && k[0] < 0x80 {
					rest, _ := json.Marshal(k[1:])
					ks = fmt.Sprintf("\"\\u%04x%s", k[0], rest[1:])
				}
				sb.WriteString(ks + ":")
				if indent != "" {
					sb.WriteString(" ")
				}
				render(x[k], rev, esc, in2, sb)
			}
			sb.WriteString(nl + "}")
		case []any:
			sb.WriteString("[")
			for i, e := range x {
				if i > 0 {
					sb.WriteString(",")
				}
				if indent != "" {
					sb.WriteString("\n" + in2)
				}
				render(e, rev, esc, in2, sb)
			}
			sb.WriteString(nl + "]")
		case string:
			sb.WriteString(quote(x))
		default:
			b, _ := json.Marshal(x)
			sb.Write(b)
		}
	}
	var out []string
	for _, c := range []struct {
		rev, esc bool
		indent   string
	}{{false, false, "\t"}, {true, false, ""}, {false, true, ""}, {true, true, " "}} {
		var sb strings.Builder
		if c.indent == " " {
			sb.WriteString(" \n\t")
		}
		render(v, c.rev, c.esc, c.indent, &sb)
		if c.indent != "" {
			sb.WriteString("\n")
		}
		out = append(out, sb.String())
	}
	for strMode = 1; strMode <= 2; strMode++ {
		var sb strings.Builder
		render(v, false, false, "", &sb)
		out = append(out, sb.String())
	}
	return out, nil
}
