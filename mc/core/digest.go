package core

import (
	"fmt"
	"hash/maphash"
	"reflect"
	"sort"
	"unsafe"
)

// Digest is a deep structural digest of a value graph: basic kinds by value, strings by
// content, pointers followed (cycles cut by the set of ancestors on the current path, so the
// result does not depend on traversal or map iteration order), slices element-wise, maps as
// the sorted list of (key, value) digests, interfaces by dynamic type and value, funcs by code
// pointer, structs field by field including unexported ones. A collision can only hide a change.
func Digest(roots ...any) uint64 {
	d := &digester{path: map[visit]bool{}}
	for _, r := range roots {
		d.walk(reflect.ValueOf(r), 0)
	}
	return d.h
}

type visit struct {
	p uintptr
	t reflect.Type
}

var seed = maphash.MakeSeed()

type digester struct {
	h    uint64
	path map[visit]bool
}

func (d *digester) mix(x uint64) {
	d.h ^= x
	d.h *= 1099511628211
	d.h ^= d.h >> 29
}

func (d *digester) bytes(b []byte) {
	d.mix(maphash.Bytes(seed, b))
	d.mix(uint64(len(b)))
}

func (d *digester) walk(v reflect.Value, depth int) {
	if !v.IsValid() {
		d.mix(0xdead)
		return
	}
	if depth > 100000 {
		panic("digest: too deep")
	}
	d.mix(uint64(v.Kind()))
	switch v.Kind() {
	case reflect.Bool:
		if v.Bool() {
			d.mix(1)
		} else {
			d.mix(2)
		}
	case reflect.Int, reflect.Int8, reflect.Int16, reflect.Int32, reflect.Int64:
		d.mix(uint64(v.Int()))
	case reflect.Uint, reflect.Uint8, reflect.Uint16, reflect.Uint32, reflect.Uint64, reflect.Uintptr:
		d.mix(v.Uint())
	case reflect.Float32, reflect.Float64:
		d.bytes([]byte(fmt.Sprint(v.Float())))
	case reflect.Complex64, reflect.Complex128:
		d.bytes([]byte(fmt.Sprint(v.Complex())))
	case reflect.String:
		s := v.String()
		d.mix(maphash.String(seed, s))
		d.mix(uint64(len(s)))
	case reflect.Pointer:
		if v.IsNil() {
			d.mix(0)
			return
		}
		k := visit{v.Pointer(), v.Type()}
		if d.path[k] {
			d.mix(0xcafe)
			return
		}
		d.path[k] = true
		d.walk(v.Elem(), depth+1)
		delete(d.path, k)
	case reflect.Interface:
		if v.IsNil() {
			d.mix(0)
			return
		}
		d.mix(maphash.String(seed, v.Elem().Type().String()))
		d.walk(v.Elem(), depth+1)
	case reflect.Slice:
		if v.IsNil() {
			d.mix(0)
			return
		}
		d.mix(uint64(v.Len()))
		if v.Cap() > v.Len() {
			// the spare capacity is shared state too (a hoisted scratch buffer lives there)
			v = v.Slice(0, v.Cap())
		}
		if v.Len() == 0 {
			return
		}
		switch v.Type().Elem().Kind() {
		case reflect.Bool, reflect.Int, reflect.Int8, reflect.Int16, reflect.Int32, reflect.Int64, reflect.Uint, reflect.Uint8, reflect.Uint16, reflect.Uint32, reflect.Uint64, reflect.Uintptr:
			// plain memory: hash it in one go
			sz := int(v.Type().Elem().Size())
			d.bytes(unsafe.Slice((*byte)(v.UnsafePointer()), v.Len()*sz))
			return
		}
		k := visit{v.Pointer(), v.Type()}
		if d.path[k] {
			d.mix(0xcaff)
			return
		}
		d.path[k] = true
		for i := 0; i < v.Len(); i++ {
			d.walk(v.Index(i), depth+1)
		}
		delete(d.path, k)
	case reflect.Array:
		for i := 0; i < v.Len(); i++ {
			d.walk(v.Index(i), depth+1)
		}
	case reflect.Map:
		if v.IsNil() {
			d.mix(0)
			return
		}
		k := visit{v.Pointer(), v.Type()}
		if d.path[k] {
			d.mix(0xcafd)
			return
		}
		d.path[k] = true
		type kv struct{ k, v uint64 }
		kvs := make([]kv, 0, v.Len())
		it := v.MapRange()
		for it.Next() {
			dk := &digester{path: d.path}
			dk.walk(it.Key(), depth+1)
			dv := &digester{path: d.path}
			dv.walk(it.Value(), depth+1)
			kvs = append(kvs, kv{dk.h, dv.h})
		}
		delete(d.path, k)
		sort.Slice(kvs, func(i, j int) bool {
			if kvs[i].k != kvs[j].k {
				return kvs[i].k < kvs[j].k
			}
			return kvs[i].v < kvs[j].v
		})
		d.mix(uint64(len(kvs)))
		for _, x := range kvs {
			d.mix(x.k)
			d.mix(x.v)
		}
	case reflect.Struct:
		for i := 0; i < v.NumField(); i++ {
			d.walk(v.Field(i), depth+1)
		}
	case reflect.Func:
		if v.IsNil() {
			d.mix(0)
		} else {
			d.mix(uint64(v.Pointer()))
		}
	case reflect.Chan, reflect.UnsafePointer:
		d.mix(uint64(v.Pointer()))
	}
}
