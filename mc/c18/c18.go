// Package c18: streaming decode is chunking-invariant and source positions are exact (E2).
package c18

import (
	"bytes"
	"errors"
	"fmt"
	"io"
	"reflect"
	"strings"
	"time"
	"unicode/utf8"

	cedar "github.com/cedar-policy/cedar-go"
	"github.com/cedar-policy/cedar-go/types"
	"github.com/cedar-policy/cedar-go/verif/core"
)

// ---------------------------------------------------------------------------
// documents with known positions

type doc struct {
	name string
	src  []byte
	pos  []cedar.Position // expected position of each policy's first token (Filename "")
	bad  bool             // the document does not parse
}

type builder struct {
	sb        strings.Builder
	line, col int
	pos       []cedar.Position
}

func newBuilder() *builder { return &builder{line: 1, col: 1} }

func (b *builder) add(s string) {
	for _, r := range s {
		if r == '\n' {
			b.line++
			b.col = 1
		} else {
			b.col++
		}
	}
	b.sb.WriteString(s)
}

// policy appends a policy text and records the position of its first token.
func (b *builder) policy(s string) {
	b.pos = append(b.pos, cedar.Position{Offset: b.sb.Len(), Line: b.line, Column: b.col})
	b.add(s)
}

func (b *builder) doc(name string) doc {
	return doc{name: name, src: []byte(b.sb.String()), pos: b.pos}
}

var fillers = []string{" ", "\t", "\n", "\r\n", "// comment é✓ \"x\"\n", "/* é */", "  \n\n ", "/* multi\nline ✓ */ ", "\r", "//\n"}

var policies = []string{
	`permit(principal, action, resource);`,
	`forbid (principal == U::"é✓😀", action, resource) when { context.a == "x\u{1F600}\n" };`,
	`@id("p\"3") permit(principal in G::"g", action in [Action::"a", Action::"b"], resource is R) unless { [1, 2, 3].contains(context.n) && !(principal has foo) };`,
	`permit(principal,action,resource)when{1<=2||3>=4&&5!=6};`,
	`forbid(principal, action, resource) when { resource.name like "a*\*b" || ip("10.0.0.1").isInRange(ip("10.0.0.0/8")) };`,
	`permit(principal, action, resource) when { {"k": [context.x, -9223372036854775808], k2: if true then "y" else "z"}.k2 == "y" };`,
}

// mixedDoc: n policies separated by every mix of fillers; long enough to span several buffers.
func mixedDoc(n, seed int) doc {
	b := newBuilder()
	for i := 0; i < n; i++ {
		for k := 0; k < 1+(i+seed)%3; k++ {
			b.add(fillers[(i*3+k+seed)%len(fillers)])
		}
		b.policy(policies[(i+seed)%len(policies)])
	}
	b.add(fillers[seed%len(fillers)])
	return b.doc(fmt.Sprintf("mixed-%d-%d", n, seed))
}

// straddle: a token of the given kind starts at byte offset 1024-shift (the buffer edge is
// inside or next to the token), preceded by padding of the given style.
func straddleDocs() []doc {
	type tk struct{ name, before, token, after string }
	toks := []tk{
		{"identifier", `permit(`, `principal`, `, action, resource);`},
		{"keyword", ``, `permit`, `(principal, action, resource);`},
		{"integer", `permit(principal, action, resource) when { `, `1234567890123`, ` == 1 };`},
		{"string-escapes", `permit(principal, action, resource) when { `, `"ab\n\u{1F600}\x41cd\\"`, ` == "x" };`},
		{"string-2byte", `permit(principal, action, resource) when { `, `"ééééé"`, ` == "x" };`},
		{"string-3byte", `permit(principal, action, resource) when { `, `"✓✓✓✓"`, ` == "x" };`},
		{"string-4byte", `permit(principal, action, resource) when { `, `"😀😀😀"`, ` == "x" };`},
		{"coloncolon", `permit(principal == U`, `::`, `"a", action, resource);`},
		{"eqeq", `permit(principal `, `==`, ` U::"a", action, resource);`},
		{"andand", `permit(principal, action, resource) when { true `, `&&`, ` false };`},
		{"lesseq", `permit(principal, action, resource) when { 1 `, `<=`, ` 2 };`},
		{"line-comment", `permit(principal, action, resource) `, "// é✓ comment with \"quotes\" /* and */\n", `when { true };`},
		{"block-comment", `permit(principal, action, resource) `, "/* é✓ *\n/ * */", `when { true };`},
		{"crlf", `permit(principal, action, resource)`, "\r\n\r\n", `when { true };`},
	}
	var out []doc
	for _, k := range toks {
		for shift := -2; shift <= len(k.token)+3; shift++ {
			for style := 0; style < 3; style++ {
				start := 1024 - shift // offset at which the token starts
				padLen := start - len(k.before)
				if padLen < 4 {
					continue
				}
				var pad string
				switch style {
				case 0:
					pad = strings.Repeat(" ", padLen)
				case 1:
					// a first policy, then newlines
					first := "permit(principal, action, resource);"
					pad = first + strings.Repeat("\n", padLen-len(first))
				default:
					// a comment with multi-byte characters (columns count characters)
					body := strings.Repeat("é", (padLen-5)/2)
					pad = "/*" + body + strings.Repeat("x", padLen-5-2*len([]rune(body))) + "*/ "
				}
				b := newBuilder()
				if style == 1 {
					b.policy("permit(principal, action, resource);")
					b.add(pad[len("permit(principal, action, resource);"):])
				} else {
					b.add(pad)
				}
				b.policy(k.before + k.token + k.after)
				b.add("\n")
				b.policy(policies[1])
				d := b.doc(fmt.Sprintf("straddle-%s-shift%d-style%d", k.name, shift, style))
				if k.name == "keyword" {
					// here the straddling token is the first token of the policy: fine as built
				}
				out = append(out, d)
			}
		}
	}
	return out
}

func badDocs() []doc {
	mk := func(name, s string) doc { return doc{name: name, src: []byte(s), bad: true} }
	long := strings.Repeat("permit(principal, action, resource);\n", 40)
	return []doc{
		mk("syntax-error-late", long+"permit(principal, action);"),
		mk("unterminated-string-late", long+`permit(principal, action, resource) when { "abc };`),
		mk("bad-utf8-late", long+"permit(principal, action, resource) when { \"\xff\" };"),
		mk("nul-late", long+"permit(principal, action, resource) when { \x00 };"),
		mk("unterminated-comment", long+"/* never closed"),
		mk("truncated", long[:len(long)-3]),
		mk("bad-escape", long+`permit(principal, action, resource) when { "\q" };`),
	}
}

// invalidByteDocs: a byte (sequence) that is not valid in Cedar text, or valid but unusual, in
// every lexical context (comments, strings, identifiers, white space, the tail of the
// document), early in the document, late in it, and at each offset around the first buffer
// edge. Whether the whole-slice parse accepts or rejects each is not prescribed here: the
// stream must do the same under every schedule.
func invalidByteDocs() []doc {
	bytesOf := []struct{ name, b string }{
		{"NUL", "\x00"}, {"FF", "\xff"}, {"overlong", "\xc0\x80"}, {"surrogate", "\xed\xa0\x80"}, {"truncated-3byte", "\xe2\x9c"}, {"above-max", "\xf4\x90\x80\x80"},
		{"continuation", "\x80"}, {"DEL", "\x7f"}, {"VT", "\x0b"}, {"FF-whitespace", "\x0c"}, {"BOM", "\ufeff"}, {"LS", "\u2028"}, {"NEL", "\u0085"}, {"NBSP", "\u00a0"},
	}
	ctxs := []struct{ name, before, after string }{
		{"line-comment", "permit(principal, action, resource) // a", "b\nwhen { true };"},
		{"line-comment-at-end", "permit(principal, action, resource);\n// a", "b"},
		{"block-comment", "permit(principal, action, resource) /* a", "b */ when { true };"},
		{"string", "permit(principal, action, resource) when { \"a", "b\" == \"x\" };"},
		{"entity-id", "permit(principal == U::\"a", "b\", action, resource);"},
		{"annotation", "@a(\"x", "y\") permit(principal, action, resource);"},
		{"identifier", "permit(principal, action, resource) when { context.a", "b };"},
		{"white-space", "permit(principal, action, resource) when {", "true };"},
		{"tail", "permit(principal, action, resource);", ""},
		{"between-policies", "permit(principal, action, resource);", "permit(principal, action, resource);"},
	}
	long := strings.Repeat("permit(principal, action, resource);\n", 40)
	var out []doc
	for _, c := range ctxs {
		for _, b := range bytesOf {
			for pl := 0; pl < 7; pl++ {
				var prefix string
				switch pl {
				case 0:
				case 1:
					prefix = long
				default:
					at := 1020 + pl // the byte lands at offsets 1022..1026
					if n := at - len(c.before); n > 0 {
						prefix = strings.Repeat(" ", n)
					}
				}
				out = append(out, doc{name: fmt.Sprintf("invalid-byte-%s-in-%s-placement%d", b.name, c.name, pl), src: []byte(prefix + c.before + b.b + c.after + "\n"), bad: true})
			}
		}
	}
	return out
}

// ---------------------------------------------------------------------------
// scheduled reader

type livelock struct{}

var errInjected = errors.New("injected reader failure")

// the failure a reader reports is an arbitrary error value: io.Reader's contract reserves
// io.EOF ITSELF for the end of the stream; an error that merely wraps it, and
// io.ErrUnexpectedEOF, are failures like any other
var errKinds = []error{errInjected, fmt.Errorf("connection closed by peer: %w", io.EOF), io.ErrUnexpectedEOF}

type schedReader struct {
	data     []byte
	pos      int
	ctx      *core.Ctx // nil: no choices
	uniform  int       // > 0: every read returns at most this many bytes
	failAt   int       // >= 0: the reader fails once pos reaches failAt
	failData bool      // deliver the last bytes together with the error
	failOnce bool      // after the error has been returned once, further reads return io.EOF
	failErr  error     // the error value (nil: errInjected)
	failed   bool
	reads    int
	lastZero bool
	eofSent  int
	trace    []string
}

func (r *schedReader) Read(p []byte) (int, error) {
	r.reads++
	if r.reads > len(r.data)+16 {
		panic(livelock{})
	}
	remaining := len(r.data) - r.pos
	limit := len(p)
	if r.failed && r.failOnce {
		return 0, io.EOF
	}
	if r.failAt >= 0 && r.pos+limit >= r.failAt {
		n := r.failAt - r.pos
		if n < 0 {
			n = 0
		}
		if n > limit {
			n = limit
		}
		if n == 0 || r.failData {
			copy(p, r.data[r.pos:r.pos+n])
			r.pos += n
			r.failed = true
			if r.failErr != nil {
				return n, r.failErr
			}
			return n, errInjected
		}
		copy(p, r.data[r.pos:r.pos+n])
		r.pos += n
		return n, nil
	}
	if remaining == 0 {
		r.eofSent++
		return 0, io.EOF
	}
	n := min(limit, remaining)
	if r.uniform > 0 {
		n = min(n, r.uniform)
	}
	withEOF := false
	if r.ctx != nil {
		// menu: 0 full, 1..4 short counts, 5 zero bytes (not twice in a row), 6 data together with EOF (only when this read reaches the end)
		menu := []int{n, 1, 2, 3, n - 1, 0, -1}
		ch := r.ctx.Choose("read", len(menu))
		switch {
		case ch == 6:
			if n == remaining {
				withEOF = true
			}
		case ch == 5:
			if !r.lastZero {
				r.lastZero = true
				r.trace = append(r.trace, "0")
				return 0, nil
			}
		case ch > 0:
			if m := menu[ch]; m >= 1 && m < n {
				n = m
			}
		}
	}
	r.lastZero = false
	copy(p, r.data[r.pos:r.pos+n])
	r.pos += n
	if len(r.trace) < 64 {
		r.trace = append(r.trace, fmt.Sprint(n))
	}
	if withEOF {
		r.trace = append(r.trace, "+EOF")
		return n, io.EOF
	}
	return n, nil
}

// ---------------------------------------------------------------------------

type expected struct {
	list   cedar.PolicyList
	err    error
	render []string
	after  []string // what further Decode calls return after the first error, reading the document in one piece
}

func whole(d doc) expected {
	l, err := cedar.NewPolicyListFromBytes("", d.src)
	e := expected{list: l, err: err}
	for _, p := range l {
		e.render = append(e.render, string(p.MarshalCedar()))
	}
	if err != nil {
		_, _, _, e.after = decodeMore(bytes.NewReader(d.src))
	}
	return e
}

// decodeMore is decodeAll followed, after the first error, by three more Decode calls on the
// same Decoder: what they return (an error, or a policy) must not depend on how the reader
// delivered the bytes either.
func decodeMore(r io.Reader) (out []*cedar.Policy, err error, panicked any, after []string) {
	defer func() {
		if x := recover(); x != nil {
			panicked = x
		}
	}()
	dec := cedar.NewDecoder(r)
	for {
		var p cedar.Policy
		if e := dec.Decode(&p); e != nil {
			if e == io.EOF {
				return out, nil, nil, nil
			}
			err = e
			break
		}
		out = append(out, &p)
		if len(out) > 10000 {
			panic(livelock{})
		}
	}
	for k := 0; k < 3; k++ {
		var p cedar.Policy
		if e := dec.Decode(&p); e != nil {
			after = append(after, "error: "+e.Error())
		} else {
			after = append(after, "policy: "+string(p.MarshalCedar())+fmt.Sprintf(" at %+v", p.Position()))
		}
	}
	return out, err, nil, after
}

func decodeAll(r io.Reader) (out []*cedar.Policy, err error, panicked any) {
	defer func() {
		if x := recover(); x != nil {
			panicked = x
		}
	}()
	dec := cedar.NewDecoder(r)
	for {
		var p cedar.Policy
		if e := dec.Decode(&p); e != nil {
			if e == io.EOF {
				return out, nil, nil
			}
			return out, e, nil
		}
		out = append(out, &p)
		if len(out) > 10000 {
			panic(livelock{})
		}
	}
}

func compare(t *core.T, d doc, exp expected, r *schedReader, sched string) {
	got, err, pn, after := decodeMore(r)
	in := func() string {
		return fmt.Sprintf("document %s (%d bytes), reader schedule %s [reads: %s]", d.name, len(d.src), sched, strings.Join(r.trace, ","))
	}
	if pn != nil {
		if _, ok := pn.(livelock); ok {
			t.Fail("reader-livelock:"+kind(d), in(), "bounded number of reads", fmt.Sprintf("%d reads", r.reads))
			return
		}
		t.Fail("decoder-panics:"+kind(d), in(), "no panic", fmt.Sprint(pn))
		return
	}
	if r.failAt >= 0 && r.failAt <= len(d.src) {
		// the reader failed before delivering the whole document
		if err == nil {
			t.Fail("reader-failure-swallowed:"+kind(d), in(), "an error", fmt.Sprintf("%d policies and io.EOF", len(got)))
		} else if len(got) > 0 && !exp.okPrefix(got) {
			t.Fail("reader-failure-truncated-policy:"+kind(d), in(), "only complete policies before the error", "a policy that differs from the document's")
		}
		return
	}
	if exp.err != nil {
		if err == nil {
			t.Fail("invalid-document-accepted-by-decoder:"+kind(d), in(), exp.err.Error(), fmt.Sprintf("%d policies, io.EOF", len(got)))
		} else if !strings.Contains(exp.err.Error(), err.Error()) {
			t.Fail("decoder-error-differs:"+kind(d), in(), exp.err.Error(), err.Error())
		} else if fmt.Sprint(after) != fmt.Sprint(exp.after) {
			t.Fail("decoder-calls-after-error-depend-on-chunking:"+kind(d), in(), fmt.Sprint(exp.after), fmt.Sprint(after))
		}
		return
	}
	if err != nil {
		t.Fail("valid-document-rejected-by-decoder:"+kind(d), in(), fmt.Sprintf("%d policies", len(exp.list)), err.Error())
		return
	}
	if len(got) != len(exp.list) {
		t.Fail("decoder-policy-count:"+kind(d), in(), fmt.Sprint(len(exp.list)), fmt.Sprint(len(got)))
		return
	}
	for i := range got {
		if !reflect.DeepEqual(got[i].AST(), exp.list[i].AST()) {
			t.Fail("decoder-policy-differs:"+kind(d), in(), fmt.Sprintf("policy %d: %+v", i, *exp.list[i].AST()), fmt.Sprintf("%+v", *got[i].AST()))
			return
		}
	}
}

func (e expected) okPrefix(got []*cedar.Policy) bool {
	if len(got) > len(e.list) {
		return false
	}
	for i := range got {
		if !reflect.DeepEqual(got[i].AST(), e.list[i].AST()) {
			return false
		}
	}
	return true
}

func kind(d doc) string {
	parts := strings.Split(d.name, "-shift")
	return parts[0]
}

// positions of the whole-slice parse and of authorization diagnostics equal the constructed ones.
func checkPositions(t *core.T, d doc, exp expected) {
	if d.bad {
		if exp.err == nil {
			t.Fail("harness-bad-doc-parses", d.name, "error", "parsed")
		}
		return
	}
	if exp.err != nil {
		t.Fail("harness-doc-does-not-parse:"+kind(d), d.name+": "+string(d.src[max(0, len(d.src)-200):]), "parses", exp.err.Error())
		return
	}
	if len(exp.list) != len(d.pos) {
		t.Fail("policy-count:"+kind(d), d.name, fmt.Sprint(len(d.pos)), fmt.Sprint(len(exp.list)))
		return
	}
	for i, p := range exp.list {
		if p.Position() != d.pos[i] {
			t.Fail("position-wrong:"+kind(d), fmt.Sprintf("%s policy %d", d.name, i), fmt.Sprintf("%+v", d.pos[i]), fmt.Sprintf("%+v", p.Position()))
		}
		// sanity of the construction itself: the offset points at the first token
		if !utf8.Valid(d.src) {
			continue
		}
	}
	ps, err := cedar.NewPolicySetFromBytes("file.cedar", d.src)
	if err != nil {
		t.Fail("policyset-parse-differs:"+kind(d), d.name, "parses", err.Error())
		return
	}
	// SetFilename changes the file name of that policy's position and nothing else
	for id, p := range ps.All() {
		var k int
		fmt.Sscanf(string(id), "policy%d", &k)
		before := p.Position()
		p.SetFilename("renamed.cedar")
		want := before
		want.Filename = "renamed.cedar"
		if p.Position() != want || before.Filename != "file.cedar" {
			t.Fail("SetFilename:"+kind(d), fmt.Sprintf("%s %s", d.name, id), fmt.Sprintf("%+v", want), fmt.Sprintf("%+v (was %+v)", p.Position(), before))
		}
		p.SetFilename("file.cedar")
	}
	req := cedar.Request{Principal: types.NewEntityUID("U", "é✓😀"), Action: types.NewEntityUID("Action", "a"), Resource: types.NewEntityUID("R", "r"),
		Context: types.NewRecord(types.RecordMap{"a": types.String("x😀\n"), "n": types.Long(7), "x": types.Long(1)})}
	_, diag := cedar.Authorize(ps, nil, req)
	for _, r := range diag.Reasons {
		var k int
		fmt.Sscanf(string(r.PolicyID), "policy%d", &k)
		want := d.pos[k]
		want.Filename = "file.cedar"
		if r.Position != want {
			t.Fail("diagnostic-reason-position:"+kind(d), fmt.Sprintf("%s %s", d.name, r.PolicyID), fmt.Sprintf("%+v", want), fmt.Sprintf("%+v", r.Position))
		}
	}
	for _, r := range diag.Errors {
		var k int
		fmt.Sscanf(string(r.PolicyID), "policy%d", &k)
		want := d.pos[k]
		want.Filename = "file.cedar"
		if r.Position != want {
			t.Fail("diagnostic-error-position:"+kind(d), fmt.Sprintf("%s %s", d.name, r.PolicyID), fmt.Sprintf("%+v", want), fmt.Sprintf("%+v", r.Position))
		}
	}
}

func allDocs() []doc {
	var docs []doc
	for n := 0; n <= 3; n++ {
		docs = append(docs, mixedDoc(n, n))
	}
	for seed := 0; seed < 6; seed++ {
		docs = append(docs, mixedDoc(12+seed, seed)) // ~1.5-2.5 KB: spans 2-3 buffers
	}
	docs = append(docs, mixedDoc(40, 3))
	return append(docs, longTokenDocs()...)
}

// longTokenDocs: single tokens (and comments / whitespace runs) longer than the 1024-byte
// buffer, so that one token spans two, three or four refills, followed by further policies
// whose positions depend on the bookkeeping across those refills.
func longTokenDocs() []doc {
	var out []doc
	mk := func(name, before, tok, after string) {
		b := newBuilder()
		b.policy("permit(principal, action, resource);")
		b.add("\n")
		b.policy(before + tok + after)
		b.add(" // é\n")
		b.policy(policies[1])
		b.add("\n")
		b.policy(policies[3])
		out = append(out, b.doc(name))
	}
	for _, n := range []int{1000, 1023, 1024, 1025, 2047, 2048, 2049, 3100} {
		mk(fmt.Sprintf("long-string-%d", n), `permit(principal, action, resource) when { "`, strings.Repeat("a", n), `" == context.a };`)
	}
	mk("long-string-3byte-2100", `permit(principal, action, resource) when { "`, strings.Repeat("✓", 700), `" == context.a };`)
	mk("long-string-escapes-1500", `permit(principal, action, resource) when { "`, strings.Repeat(`\n\u{1F600}x`, 150), `" == context.a };`)
	mk("long-identifier-1100", `permit(principal, action, resource) when { context.`, strings.Repeat("k", 1100), ` == 1 };`)
	mk("long-identifier-2100", `permit(principal, action, resource) when { context has `, strings.Repeat("Z", 2100), ` };`)
	mk("long-line-comment-2500", `permit(principal, action, resource) `, "// "+strings.Repeat("é", 1250)+"\n", `when { true };`)
	mk("long-block-comment-2500", `permit(principal, action, resource) `, "/* "+strings.Repeat("x\n", 1250)+" */", `when { true };`)
	mk("long-whitespace-3000", `permit(principal, action, resource)`, strings.Repeat(" \t\r\n", 750), `when { true };`)
	return out
}

func Check() *core.Check {
	return &core.Check{
		ID:        "C18",
		HangAfter: 120 * time.Second, // cases take at most seconds (max_case_s in the evidence); see core.Family.HangAfter
		Title:     "Streaming decode is chunking-invariant and source positions are exact",
		Rule: "deviation-bounded exploration of reader schedules (each Read may return the full request, 1, 2, 3, len-1 or 0 bytes, or data together with io.EOF) on documents built with known offsets (every token kind straddling the 1024-byte buffer edge at every alignment, single tokens / comments / whitespace runs of 1000..3100 bytes spanning up to four refills, multi-byte characters, CR/LF mixes, comments), plus every uniform chunk size 1..1030 and a reader failure at every byte offset; oracle: the whole-slice parse (policies, positions, error-ness) and the positions computed from the construction of the document; " +
			"a case is non-trivial if the document parses to at least one policy or exercises an error path",
		Assumptions: []string{"a reader never returns 0 bytes twice in a row (a reader that returns (0, nil) forever violates io.Reader's contract)", "for documents that do not parse only error-ness and the error text are compared"},
		Families: func(tier string) []*core.Family {
			bound := 2
			if tier == "thorough" {
				bound = 5
			}
			docs := allDocs()
			strad := straddleDocs()
			bad := badDocs()
			inv := invalidByteDocs()
			return []*core.Family{
				{
					Name: "positions",
					Desc: fmt.Sprintf("%d documents with constructed offsets/lines/columns (mixed fillers, multi-byte comments, tokens straddling the buffer edge): Policy.Position() of every policy and the positions in authorization diagnostics", len(docs)+len(strad)),
					N:    int64(len(docs) + len(strad) + len(bad)),
					Run: func(t *core.T, i int64) {
						all := append(append(append([]doc{}, docs...), strad...), bad...)
						d := all[i]
						checkPositions(t, d, whole(d))
						t.Nontrivial()
						t.Sample(d.name)
					},
				},
				{
					Name: "schedules-bounded-deviations",
					Desc: fmt.Sprintf("every reader schedule with <=%d deviations from full reads (menu: 1, 2, 3, len-1, 0 bytes, data+EOF) on %d straddle documents, %d mixed documents, %d invalid documents and %d documents with an invalid or unusual byte in every lexical context", bound, len(strad), len(docs), len(bad), len(inv)),
					N:    int64(len(docs) + len(strad) + len(bad) + len(inv)),
					Run: func(t *core.T, i int64) {
						all := append(append(append(append([]doc{}, docs...), strad...), bad...), inv...)
						d := all[i]
						exp := whole(d)
						st := core.Explore(t, bound, 0, func(c *core.Ctx) {
							r := &schedReader{data: d.src, ctx: c, failAt: -1}
							compare(t, d, exp, r, fmt.Sprintf("choices %v", c.Choices()))
						})
						if st.Execs > 1 {
							t.Nontrivial()
						}
						t.Obs(fmt.Sprintf("%s:%d", kind(d), st.Execs))
						t.Sample(fmt.Sprintf("%s: %d schedules, %d choice points", d.name, st.Execs, st.Points))
					},
				},
				{
					Name: "uniform-chunk-sizes",
					Desc: fmt.Sprintf("every uniform chunk size c = 1..1030 (each Read returns at most c bytes) on %d mixed documents, a subset of straddle documents and %d invalid documents", len(docs), len(bad)),
					N:    1030,
					Run: func(t *core.T, i int64) {
						c := int(i) + 1
						for _, d := range docs {
							compare(t, d, whole(d), &schedReader{data: d.src, uniform: c, failAt: -1}, fmt.Sprintf("uniform %d", c))
							t.AddStates(1)
						}
						for k := int(i) % 7; k < len(strad); k += 7 {
							compare(t, strad[k], whole(strad[k]), &schedReader{data: strad[k].src, uniform: c, failAt: -1}, fmt.Sprintf("uniform %d", c))
							t.AddStates(1)
						}
						for _, d := range bad {
							compare(t, d, whole(d), &schedReader{data: d.src, uniform: c, failAt: -1}, fmt.Sprintf("uniform %d", c))
							t.AddStates(1)
						}
						for k := int(i) % 3; k < len(inv); k += 3 { // 3 is coprime to the 7 placements
							compare(t, inv[k], whole(inv[k]), &schedReader{data: inv[k].src, uniform: c, failAt: -1}, fmt.Sprintf("uniform %d", c))
							t.AddStates(1)
						}
						t.Nontrivial()
						t.Sample(fmt.Sprintf("chunk size %d", c))
					},
				},
				{
					Name: "reader-failure-at-every-offset",
					Desc: "the reader fails at byte offset k (the error alone or together with the last bytes; afterwards the same error again or io.EOF; the error value is a plain error, an error wrapping io.EOF, or io.ErrUnexpectedEOF), for every k of 3 mixed documents and 2 straddle documents, under full reads and 7-byte reads",
					N:    int64(len(docs[6].src)+1) + int64(len(docs[4].src)+1) + int64(len(docs[2].src)+1) + int64(len(strad[50].src)+1) + int64(len(strad[400].src)+1),
					Run: func(t *core.T, i int64) {
						k := int(i)
						for _, d := range []doc{docs[6], docs[4], docs[2], strad[50], strad[400]} {
							if k <= len(d.src) {
								exp := whole(d)
								for _, withData := range []bool{false, true} {
									for _, once := range []bool{false, true} {
										for _, u := range []int{0, 7} {
											for ek, fe := range errKinds {
												compare(t, d, exp, &schedReader{data: d.src, failAt: k, failData: withData, failOnce: once, uniform: u, failErr: fe}, fmt.Sprintf("fail at offset %d (with data: %v, then EOF: %v, chunk %d, error kind %d: %v)", k, withData, once, u, ek, fe))
												t.AddStates(1)
											}
										}
									}
								}
								t.Nontrivial()
								t.Sample(fmt.Sprintf("%s fails at %d", d.name, k))
								return
							}
							k -= len(d.src) + 1
						}
					},
				},
			}
		},
	}
}
