package refsem

import (
	"math/big"
	"unicode/utf8"
)

type ErrClass int

const (
	OK ErrClass = iota
	ErrType
	ErrOverflow
	ErrAttr   // missing attribute or tag
	ErrEntity // entity not in the store
	ErrExt    // malformed extension literal
	ErrFunc   // unknown function or wrong arity
	Abstain   // the oracle has no opinion (input outside the asserted specification)
)

var errNames = [...]string{"ok", "type-error", "overflow", "missing-attribute-or-tag", "missing-entity", "extension-literal-error", "unknown-function-or-arity", "oracle-abstains"}

func (e ErrClass) String() string { return errNames[e] }

var extArity = map[string]int{
	"ip": 1, "decimal": 1, "datetime": 1, "duration": 1,
	"lessThan": 2, "lessThanOrEqual": 2, "greaterThan": 2, "greaterThanOrEqual": 2,
	"isIpv4": 1, "isIpv6": 1, "isLoopback": 1, "isMulticast": 1, "isInRange": 2,
	"toDate": 1, "toTime": 1, "offset": 2, "durationSince": 2,
	"toDays": 1, "toHours": 1, "toMinutes": 1, "toSeconds": 1, "toMilliseconds": 1,
}

// ExtIsMethod: the text syntax of each extension function.
var ExtIsMethod = map[string]bool{
	"ip": false, "decimal": false, "datetime": false, "duration": false,
	"lessThan": true, "lessThanOrEqual": true, "greaterThan": true, "greaterThanOrEqual": true,
	"isIpv4": true, "isIpv6": true, "isLoopback": true, "isMulticast": true, "isInRange": true,
	"toDate": true, "toTime": true, "offset": true, "durationSince": true,
	"toDays": true, "toHours": true, "toMinutes": true, "toSeconds": true, "toMilliseconds": true,
}

func ExtNames() []string {
	return []string{"ip", "decimal", "datetime", "duration", "lessThan", "lessThanOrEqual", "greaterThan", "greaterThanOrEqual",
		"isIpv4", "isIpv6", "isLoopback", "isMulticast", "isInRange", "toDate", "toTime", "offset", "durationSince",
		"toDays", "toHours", "toMinutes", "toSeconds", "toMilliseconds"}
}

// Eval is the reference evaluator.
func Eval(e *Expr, env *Env) (Val, ErrClass) {
	switch e.Op {
	case OLit:
		return e.Val, OK
	case OVar:
		switch e.Str {
		case "principal":
			return env.Principal, OK
		case "action":
			return env.Action, OK
		case "resource":
			return env.Resource, OK
		}
		return env.Context, OK
	case OAnd, OOr:
		l, ec := Eval(e.Args[0], env)
		if ec != OK {
			return Val{}, ec
		}
		if l.K != KBool {
			return Val{}, ErrType
		}
		if l.B == (e.Op == OOr) {
			return l, OK
		}
		r, ec := Eval(e.Args[1], env)
		if ec != OK {
			return Val{}, ec
		}
		if r.K != KBool {
			return Val{}, ErrType
		}
		return r, OK
	case ONot:
		v, ec := Eval(e.Args[0], env)
		if ec != OK {
			return Val{}, ec
		}
		if v.K != KBool {
			return Val{}, ErrType
		}
		return Bool(!v.B), OK
	case OIf:
		c, ec := Eval(e.Args[0], env)
		if ec != OK {
			return Val{}, ec
		}
		if c.K != KBool {
			return Val{}, ErrType
		}
		if c.B {
			return Eval(e.Args[1], env)
		}
		return Eval(e.Args[2], env)
	case OEq, ONe:
		l, r, ec := eval2(e, env)
		if ec != OK {
			return Val{}, ec
		}
		return Bool(l.Equal(r) == (e.Op == OEq)), OK
	case OLt, OLe, OGt, OGe:
		l, r, ec := eval2(e, env)
		if ec != OK {
			return Val{}, ec
		}
		if l.K != r.K || (l.K != KLong && l.K != KDatetime && l.K != KDuration) {
			return Val{}, ErrType
		}
		switch e.Op {
		case OLt:
			return Bool(l.I < r.I), OK
		case OLe:
			return Bool(l.I <= r.I), OK
		case OGt:
			return Bool(l.I > r.I), OK
		}
		return Bool(l.I >= r.I), OK
	case OAdd, OSub, OMul:
		l, r, ec := eval2(e, env)
		if ec != OK {
			return Val{}, ec
		}
		if l.K != KLong || r.K != KLong {
			return Val{}, ErrType
		}
		x := new(big.Int)
		switch e.Op {
		case OAdd:
			x.Add(bi(l.I), bi(r.I))
		case OSub:
			x.Sub(bi(l.I), bi(r.I))
		default:
			x.Mul(bi(l.I), bi(r.I))
		}
		if !fits(x) {
			return Val{}, ErrOverflow
		}
		return Long(x.Int64()), OK
	case ONeg:
		v, ec := Eval(e.Args[0], env)
		if ec != OK {
			return Val{}, ec
		}
		if v.K != KLong {
			return Val{}, ErrType
		}
		x := new(big.Int).Neg(bi(v.I))
		if !fits(x) {
			return Val{}, ErrOverflow
		}
		return Long(x.Int64()), OK
	case OIn:
		l, r, ec := eval2(e, env)
		if ec != OK {
			return Val{}, ec
		}
		return doIn(l, r, env)
	case OIs:
		v, ec := Eval(e.Args[0], env)
		if ec != OK {
			return Val{}, ec
		}
		if v.K != KEntity {
			return Val{}, ErrType
		}
		return Bool(v.T == e.Str), OK
	case OIsIn:
		v, ec := Eval(e.Args[0], env)
		if ec != OK {
			return Val{}, ec
		}
		if v.K != KEntity {
			return Val{}, ErrType
		}
		if v.T != e.Str {
			return Bool(false), OK
		}
		r, ec := Eval(e.Args[1], env)
		if ec != OK {
			return Val{}, ec
		}
		return doIn(v, r, env)
	case OHas:
		v, ec := Eval(e.Args[0], env)
		if ec != OK {
			return Val{}, ec
		}
		switch v.K {
		case KRecord:
			_, ok := v.Get(e.Str)
			return Bool(ok), OK
		case KEntity:
			ent, ok := env.Store[[2]string{v.T, v.S}]
			if !ok {
				return Bool(false), OK
			}
			_, ok = ent.Attrs.Get(e.Str)
			return Bool(ok), OK
		}
		return Val{}, ErrType
	case OAccess:
		v, ec := Eval(e.Args[0], env)
		if ec != OK {
			return Val{}, ec
		}
		switch v.K {
		case KRecord:
			x, ok := v.Get(e.Str)
			if !ok {
				return Val{}, ErrAttr
			}
			return x, OK
		case KEntity:
			ent, ok := env.Store[[2]string{v.T, v.S}]
			if !ok {
				return Val{}, ErrEntity
			}
			x, ok := ent.Attrs.Get(e.Str)
			if !ok {
				return Val{}, ErrAttr
			}
			return x, OK
		}
		return Val{}, ErrType
	case OHasTag, OGetTag:
		l, r, ec := eval2(e, env)
		if ec != OK {
			return Val{}, ec
		}
		if l.K != KEntity || r.K != KString {
			return Val{}, ErrType
		}
		ent, ok := env.Store[[2]string{l.T, l.S}]
		if e.Op == OHasTag {
			if !ok {
				return Bool(false), OK
			}
			_, ok = ent.Tags.Get(r.S)
			return Bool(ok), OK
		}
		if !ok {
			return Val{}, ErrEntity
		}
		x, ok := ent.Tags.Get(r.S)
		if !ok {
			return Val{}, ErrAttr
		}
		return x, OK
	case OLike:
		v, ec := Eval(e.Args[0], env)
		if ec != OK {
			return Val{}, ec
		}
		if v.K != KString {
			return Val{}, ErrType
		}
		return Bool(LikeMatch(e.Pat, v.S)), OK
	case OSetLit:
		var elems []Val
		for _, a := range e.Args {
			v, ec := Eval(a, env)
			if ec != OK {
				return Val{}, ec
			}
			elems = append(elems, v)
		}
		return Set(elems...), OK
	case ORecLit:
		var kvs []KV
		for i, a := range e.Args {
			v, ec := Eval(a, env)
			if ec != OK {
				return Val{}, ec
			}
			kvs = append(kvs, KV{e.Keys[i], v})
		}
		return Rec(kvs...), OK
	case OContains:
		l, r, ec := eval2(e, env)
		if ec != OK {
			return Val{}, ec
		}
		if l.K != KSet {
			return Val{}, ErrType
		}
		return Bool(l.SetContains(r)), OK
	case OContainsAll, OContainsAny:
		l, r, ec := eval2(e, env)
		if ec != OK {
			return Val{}, ec
		}
		if l.K != KSet || r.K != KSet {
			return Val{}, ErrType
		}
		all, any := true, false
		for _, x := range r.Elems {
			if l.SetContains(x) {
				any = true
			} else {
				all = false
			}
		}
		if e.Op == OContainsAll {
			return Bool(all), OK
		}
		return Bool(any), OK
	case OIsEmpty:
		v, ec := Eval(e.Args[0], env)
		if ec != OK {
			return Val{}, ec
		}
		if v.K != KSet {
			return Val{}, ErrType
		}
		return Bool(len(v.Elems) == 0), OK
	case OExt:
		return evalExt(e, env)
	}
	panic("refsem: bad op")
}

func eval2(e *Expr, env *Env) (Val, Val, ErrClass) {
	l, ec := Eval(e.Args[0], env)
	if ec != OK {
		return Val{}, Val{}, ec
	}
	r, ec := Eval(e.Args[1], env)
	if ec != OK {
		return Val{}, Val{}, ec
	}
	return l, r, OK
}

func doIn(l, r Val, env *Env) (Val, ErrClass) {
	if l.K != KEntity {
		return Val{}, ErrType
	}
	switch r.K {
	case KEntity:
		return Bool(env.Store.Reaches([2]string{l.T, l.S}, [2]string{r.T, r.S})), OK
	case KSet:
		for _, x := range r.Elems {
			if x.K != KEntity {
				return Val{}, ErrType
			}
		}
		for _, x := range r.Elems {
			if env.Store.Reaches([2]string{l.T, l.S}, [2]string{x.T, x.S}) {
				return Bool(true), OK
			}
		}
		return Bool(false), OK
	}
	return Val{}, ErrType
}

func evalExt(e *Expr, env *Env) (Val, ErrClass) {
	ar, ok := extArity[e.Str]
	if !ok || ar != len(e.Args) {
		return Val{}, ErrFunc
	}
	args := make([]Val, len(e.Args))
	for i, a := range e.Args {
		v, ec := Eval(a, env)
		if ec != OK {
			return Val{}, ec
		}
		args[i] = v
	}
	need := func(ks ...Kind) bool {
		for i, k := range ks {
			if args[i].K != k {
				return false
			}
		}
		return true
	}
	switch e.Str {
	case "decimal", "datetime", "duration", "ip":
		if !need(KString) {
			return Val{}, ErrType
		}
		var v Val
		var ok bool
		switch e.Str {
		case "decimal":
			v, ok = ParseDecimal(args[0].S)
		case "datetime":
			v, ok = ParseDatetime(args[0].S)
		case "duration":
			v, ok = ParseDuration(args[0].S)
		default:
			var known bool
			v, ok, known = ParseIP(args[0].S)
			if !known {
				return Val{}, Abstain
			}
		}
		if !ok {
			return Val{}, ErrExt
		}
		return v, OK
	case "lessThan", "lessThanOrEqual", "greaterThan", "greaterThanOrEqual":
		if !need(KDecimal, KDecimal) {
			return Val{}, ErrType
		}
		a, b := args[0].I, args[1].I
		switch e.Str {
		case "lessThan":
			return Bool(a < b), OK
		case "lessThanOrEqual":
			return Bool(a <= b), OK
		case "greaterThan":
			return Bool(a > b), OK
		}
		return Bool(a >= b), OK
	case "isIpv4", "isIpv6", "isLoopback", "isMulticast":
		if !need(KIP) {
			return Val{}, ErrType
		}
		ip := args[0]
		switch e.Str {
		case "isIpv4":
			return Bool(!ip.V6), OK
		case "isIpv6":
			return Bool(ip.V6), OK
		case "isLoopback":
			if ip.V6 && isV4Mapped(ip) {
				return Val{}, Abstain
			}
			n := ipMask(ip, ip.Plen)
			if !ip.V6 {
				return Bool(n.Addr[0] == 127), OK
			}
			var one [16]byte
			one[15] = 1
			return Bool(n.Addr == one), OK
		default:
			if ip.V6 && isV4Mapped(ip) {
				return Val{}, Abstain
			}
			if !ip.V6 {
				return Bool(ip.Addr[0]>>4 == 0xe && ip.Plen >= 4), OK
			}
			return Bool(ip.Addr[0] == 0xff && ip.Plen >= 8), OK
		}
	case "isInRange":
		if !need(KIP, KIP) {
			return Val{}, ErrType
		}
		a, b := args[0], args[1]
		if a.V6 != b.V6 || a.Plen < b.Plen {
			return Bool(false), OK
		}
		return Bool(ipMask(a, b.Plen).Addr == ipMask(b, b.Plen).Addr), OK
	case "toDate", "toTime":
		if !need(KDatetime) {
			return Val{}, ErrType
		}
		day := floorDiv(args[0].I, 86400000)
		start := new(big.Int).Mul(bi(day), bi(86400000))
		if e.Str == "toDate" {
			if !fits(start) {
				return Val{}, ErrOverflow
			}
			return Datetime(start.Int64()), OK
		}
		return Duration(new(big.Int).Sub(bi(args[0].I), start).Int64()), OK
	case "offset":
		if !need(KDatetime, KDuration) {
			return Val{}, ErrType
		}
		x := new(big.Int).Add(bi(args[0].I), bi(args[1].I))
		if !fits(x) {
			return Val{}, ErrOverflow
		}
		return Datetime(x.Int64()), OK
	case "durationSince":
		if !need(KDatetime, KDatetime) {
			return Val{}, ErrType
		}
		x := new(big.Int).Sub(bi(args[0].I), bi(args[1].I))
		if !fits(x) {
			return Val{}, ErrOverflow
		}
		return Duration(x.Int64()), OK
	case "toDays", "toHours", "toMinutes", "toSeconds", "toMilliseconds":
		if !need(KDuration) {
			return Val{}, ErrType
		}
		div := map[string]int64{"toDays": 86400000, "toHours": 3600000, "toMinutes": 60000, "toSeconds": 1000, "toMilliseconds": 1}[e.Str]
		q := new(big.Int).Quo(bi(args[0].I), bi(div)) // truncation toward zero
		return Long(q.Int64()), OK
	}
	return Val{}, ErrFunc
}

func isV4Mapped(ip Val) bool {
	for i := 0; i < 10; i++ {
		if ip.Addr[i] != 0 {
			return false
		}
	}
	return ip.Addr[10] == 0xff && ip.Addr[11] == 0xff
}

func ipMask(ip Val, plen int) Val {
	out := ip
	n := 4
	if ip.V6 {
		n = 16
	}
	for i := 0; i < n; i++ {
		bits := plen - 8*i
		switch {
		case bits >= 8:
		case bits <= 0:
			out.Addr[i] = 0
		default:
			out.Addr[i] &= ^byte(0xff >> bits)
		}
	}
	for i := n; i < 16; i++ {
		out.Addr[i] = 0
	}
	return out
}

// LikeMatch: `*` matches any (possibly empty) sequence of characters, every other
// pattern character matches itself. Dynamic programming over code points. Strings
// that are not valid UTF-8 are compared bytewise.
func LikeMatch(pat []PatElem, s string) bool {
	// flatten to a sequence of tokens: -1 = wildcard, otherwise a code unit
	var toks []int32
	unit := func(x string) []int32 {
		var out []int32
		if utf8.ValidString(x) {
			for _, r := range x {
				out = append(out, int32(r))
			}
		} else {
			for i := 0; i < len(x); i++ {
				out = append(out, int32(x[i]))
			}
		}
		return out
	}
	valid := utf8.ValidString(s)
	for _, p := range pat {
		if p.Wild {
			toks = append(toks, -1)
		} else {
			valid = valid && utf8.ValidString(p.Lit)
		}
	}
	bytewise := func(x string) []int32 {
		out := make([]int32, len(x))
		for i := 0; i < len(x); i++ {
			out[i] = int32(x[i])
		}
		return out
	}
	toks = toks[:0]
	for _, p := range pat {
		if p.Wild {
			toks = append(toks, -1)
		} else if valid {
			toks = append(toks, unit(p.Lit)...)
		} else {
			toks = append(toks, bytewise(p.Lit)...)
		}
	}
	var str []int32
	if valid {
		str = unit(s)
	} else {
		str = bytewise(s)
	}
	// dp[j]: pattern prefix matches str[:j]
	dp := make([]bool, len(str)+1)
	dp[0] = true
	for _, t := range toks {
		nd := make([]bool, len(str)+1)
		if t == -1 {
			any := false
			for j := 0; j <= len(str); j++ {
				any = any || dp[j]
				nd[j] = any
			}
		} else {
			for j := 1; j <= len(str); j++ {
				nd[j] = dp[j-1] && str[j-1] == t
			}
		}
		dp = nd
	}
	return dp[len(str)]
}

// ExtArity returns the arity of a known extension function (-1 if unknown).
func ExtArity(name string) int {
	if a, ok := extArity[name]; ok {
		return a
	}
	return -1
}
