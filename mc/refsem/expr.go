package refsem

import (
	"fmt"
	"strings"

	"github.com/cedar-policy/cedar-go/types"
	"github.com/cedar-policy/cedar-go/x/exp/ast"
)

type Op int

const (
	OLit Op = iota
	OVar
	OAnd
	OOr
	ONot
	OIf
	OEq
	ONe
	OLt
	OLe
	OGt
	OGe
	OAdd
	OSub
	OMul
	ONeg
	OIn
	OIs
	OIsIn
	OHas
	OAccess
	OHasTag
	OGetTag
	OLike
	OSetLit
	ORecLit
	OContains
	OContainsAll
	OContainsAny
	OIsEmpty
	OExt // function or method call, Str = name
	nOps
)

var opNames = [...]string{"lit", "var", "&&", "||", "!", "if", "==", "!=", "<", "<=", ">", ">=", "+", "-", "*", "neg", "in", "is", "is-in", "has", ".", "hasTag", "getTag", "like", "set", "record", "contains", "containsAll", "containsAny", "isEmpty", "ext"}

func (o Op) String() string { return opNames[o] }

type PatElem struct {
	Wild bool
	Lit  string
}

type Expr struct {
	Op   Op
	Args []*Expr
	Val  Val    // OLit
	Str  string // variable name, attribute, entity type, extension name
	Pat  []PatElem
	Keys []string // ORecLit, parallel to Args
}

func L(v Val) *Expr                { return &Expr{Op: OLit, Val: v} }
func Var(name string) *Expr        { return &Expr{Op: OVar, Str: name} }
func Un(op Op, a *Expr) *Expr      { return &Expr{Op: op, Args: []*Expr{a}} }
func Bin(op Op, a, b *Expr) *Expr  { return &Expr{Op: op, Args: []*Expr{a, b}} }
func If(c, t, e *Expr) *Expr       { return &Expr{Op: OIf, Args: []*Expr{c, t, e}} }
func Is(a *Expr, typ string) *Expr { return &Expr{Op: OIs, Args: []*Expr{a}, Str: typ} }
func IsIn(a *Expr, typ string, b *Expr) *Expr {
	return &Expr{Op: OIsIn, Args: []*Expr{a, b}, Str: typ}
}
func Has(a *Expr, attr string) *Expr    { return &Expr{Op: OHas, Args: []*Expr{a}, Str: attr} }
func Access(a *Expr, attr string) *Expr { return &Expr{Op: OAccess, Args: []*Expr{a}, Str: attr} }
func Like(a *Expr, pat ...PatElem) *Expr {
	return &Expr{Op: OLike, Args: []*Expr{a}, Pat: pat}
}
func SetLit(elems ...*Expr) *Expr { return &Expr{Op: OSetLit, Args: elems} }
func RecLit(keys []string, vals []*Expr) *Expr {
	return &Expr{Op: ORecLit, Keys: keys, Args: vals}
}
func Ext(name string, args ...*Expr) *Expr { return &Expr{Op: OExt, Str: name, Args: args} }

// ToAST builds the implementation AST through the public builders.
func (e *Expr) ToAST() ast.Node {
	a := func(i int) ast.Node { return e.Args[i].ToAST() }
	switch e.Op {
	case OLit:
		return ast.Value(e.Val.ToImpl())
	case OVar:
		switch e.Str {
		case "principal":
			return ast.Principal()
		case "action":
			return ast.Action()
		case "resource":
			return ast.Resource()
		case "context":
			return ast.Context()
		}
		panic("harness: bad variable " + e.Str)
	case OAnd:
		return a(0).And(a(1))
	case OOr:
		return a(0).Or(a(1))
	case ONot:
		return ast.Not(a(0))
	case OIf:
		return ast.IfThenElse(a(0), a(1), a(2))
	case OEq:
		return a(0).Equal(a(1))
	case ONe:
		return a(0).NotEqual(a(1))
	case OLt:
		return a(0).LessThan(a(1))
	case OLe:
		return a(0).LessThanOrEqual(a(1))
	case OGt:
		return a(0).GreaterThan(a(1))
	case OGe:
		return a(0).GreaterThanOrEqual(a(1))
	case OAdd:
		return a(0).Add(a(1))
	case OSub:
		return a(0).Subtract(a(1))
	case OMul:
		return a(0).Multiply(a(1))
	case ONeg:
		return ast.Negate(a(0))
	case OIn:
		return a(0).In(a(1))
	case OIs:
		return a(0).Is(types.EntityType(e.Str))
	case OIsIn:
		return a(0).IsIn(types.EntityType(e.Str), a(1))
	case OHas:
		return a(0).Has(types.String(e.Str))
	case OAccess:
		return a(0).Access(types.String(e.Str))
	case OHasTag:
		return a(0).HasTag(a(1))
	case OGetTag:
		return a(0).GetTag(a(1))
	case OLike:
		return a(0).Like(PatImpl(e.Pat))
	case OSetLit:
		if len(e.Args) == 0 {
			return ast.Set()
		}
		ns := make([]ast.Node, len(e.Args))
		for i := range e.Args {
			ns[i] = a(i)
		}
		return ast.Set(ns...)
	case ORecLit:
		ps := make(ast.Pairs, len(e.Args))
		for i := range e.Args {
			ps[i] = ast.Pair{Key: types.String(e.Keys[i]), Value: a(i)}
		}
		return ast.Record(ps)
	case OContains:
		return a(0).Contains(a(1))
	case OContainsAll:
		return a(0).ContainsAll(a(1))
	case OContainsAny:
		return a(0).ContainsAny(a(1))
	case OIsEmpty:
		return a(0).IsEmpty()
	case OExt:
		if len(e.Args) == 0 {
			return ast.ExtensionCall(types.Path(e.Str))
		}
		ns := make([]ast.Node, len(e.Args))
		for i := range e.Args {
			ns[i] = a(i)
		}
		return ast.ExtensionCall(types.Path(e.Str), ns...)
	}
	panic("harness: bad op")
}

func PatImpl(p []PatElem) types.Pattern {
	if len(p) == 0 {
		return types.NewPattern(types.String(""))
	}
	var comps []any
	for _, c := range p {
		if c.Wild {
			comps = append(comps, types.Wildcard{})
		} else {
			comps = append(comps, types.String(c.Lit))
		}
	}
	return types.NewPattern(comps...)
}

// String renders the expression for reports (fully parenthesised, not Cedar syntax
// for every literal; the reference printer for Cedar text is in print.go).
func (e *Expr) String() string {
	var sb strings.Builder
	e.str(&sb)
	return sb.String()
}

func (e *Expr) str(sb *strings.Builder) {
	switch e.Op {
	case OLit:
		sb.WriteString(e.Val.Key())
	case OVar:
		sb.WriteString(e.Str)
	case OIs, OHas, OAccess:
		sb.WriteByte('(')
		e.Args[0].str(sb)
		fmt.Fprintf(sb, " %s %q)", e.Op, e.Str)
	case OIsIn:
		sb.WriteByte('(')
		e.Args[0].str(sb)
		fmt.Fprintf(sb, " is %s in ", e.Str)
		e.Args[1].str(sb)
		sb.WriteByte(')')
	case OLike:
		sb.WriteByte('(')
		e.Args[0].str(sb)
		sb.WriteString(" like ")
		for _, p := range e.Pat {
			if p.Wild {
				sb.WriteString("<*>")
			} else {
				fmt.Fprintf(sb, "%q", p.Lit)
			}
		}
		sb.WriteByte(')')
	case ORecLit:
		sb.WriteByte('{')
		for i, k := range e.Keys {
			fmt.Fprintf(sb, "%q:", k)
			e.Args[i].str(sb)
			sb.WriteByte(',')
		}
		sb.WriteByte('}')
	default:
		name := e.Op.String()
		if e.Op == OExt {
			name = "ext:" + e.Str
		}
		sb.WriteString(name)
		sb.WriteByte('(')
		for i, a := range e.Args {
			if i > 0 {
				sb.WriteString(", ")
			}
			a.str(sb)
		}
		sb.WriteByte(')')
	}
}
