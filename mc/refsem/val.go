// Package refsem is the reference model of the Cedar language used as oracle by
// the checks: values, expressions, an evaluator, literal recognisers, a printer
// and the authorization decision table. It is written from the Cedar
// documentation (language reference, RFC 80/110), not from the Go code, and is
// deliberately boring: math/big arithmetic, sorted slices, floor division.
package refsem

import (
	"fmt"
	"math/big"
	"sort"
	"strings"
)

type Kind int

const (
	KBool Kind = iota
	KLong
	KString
	KEntity
	KSet
	KRecord
	KDecimal
	KIP
	KDatetime
	KDuration
)

var kindNames = [...]string{"bool", "long", "string", "entity", "set", "record", "decimal", "ip", "datetime", "duration"}

func (k Kind) String() string { return kindNames[k] }

// Val is a Cedar value in neutral form.
type Val struct {
	K     Kind
	B     bool
	I     int64  // long; decimal in 1/10000 units; datetime / duration in ms
	S     string // string; entity id
	T     string // entity type
	Elems []Val  // set: duplicate-free, sorted by Key()
	Keys  []string
	Vals  []Val // record: parallel to Keys, sorted by key
	// ip
	V6   bool
	Addr [16]byte // IPv4 in the first 4 bytes
	Plen int
}

func Bool(b bool) Val         { return Val{K: KBool, B: b} }
func Long(i int64) Val        { return Val{K: KLong, I: i} }
func Str(s string) Val        { return Val{K: KString, S: s} }
func Entity(t, id string) Val { return Val{K: KEntity, T: t, S: id} }
func Decimal(units int64) Val { return Val{K: KDecimal, I: units} }
func Datetime(ms int64) Val   { return Val{K: KDatetime, I: ms} }
func Duration(ms int64) Val   { return Val{K: KDuration, I: ms} }
func IP4(a, b, c, d byte, plen int) Val {
	v := Val{K: KIP, Plen: plen}
	v.Addr[0], v.Addr[1], v.Addr[2], v.Addr[3] = a, b, c, d
	return v
}
func IP6(addr [16]byte, plen int) Val { return Val{K: KIP, V6: true, Addr: addr, Plen: plen} }

// Set builds a set value: duplicates (under reference equality) removed.
func Set(elems ...Val) Val {
	m := map[string]Val{}
	for _, e := range elems {
		m[e.Key()] = e
	}
	keys := make([]string, 0, len(m))
	for k := range m {
		keys = append(keys, k)
	}
	sort.Strings(keys)
	out := Val{K: KSet, Elems: make([]Val, 0, len(keys))}
	for _, k := range keys {
		out.Elems = append(out.Elems, m[k])
	}
	return out
}

// Rec builds a record from alternating key, value arguments given as pairs.
type KV struct {
	K string
	V Val
}

func Rec(kvs ...KV) Val {
	m := map[string]Val{}
	for _, kv := range kvs {
		m[kv.K] = kv.V
	}
	keys := make([]string, 0, len(m))
	for k := range m {
		keys = append(keys, k)
	}
	sort.Strings(keys)
	out := Val{K: KRecord, Keys: keys, Vals: make([]Val, len(keys))}
	for i, k := range keys {
		out.Vals[i] = m[k]
	}
	return out
}

func (v Val) Get(key string) (Val, bool) {
	for i, k := range v.Keys {
		if k == key {
			return v.Vals[i], true
		}
	}
	return Val{}, false
}

// Key is an injective canonical rendering: two values are equal under the Cedar
// `==` iff their keys are equal. (Equality is structural and type-distinguishing.)
func (v Val) Key() string {
	var sb strings.Builder
	v.key(&sb)
	return sb.String()
}

func (v Val) key(sb *strings.Builder) {
	switch v.K {
	case KBool:
		fmt.Fprintf(sb, "b:%v", v.B)
	case KLong:
		fmt.Fprintf(sb, "l:%d", v.I)
	case KString:
		fmt.Fprintf(sb, "s:%q", v.S)
	case KEntity:
		fmt.Fprintf(sb, "e:%q::%q", v.T, v.S)
	case KDecimal:
		fmt.Fprintf(sb, "dec:%d", v.I)
	case KDatetime:
		fmt.Fprintf(sb, "dt:%d", v.I)
	case KDuration:
		fmt.Fprintf(sb, "dur:%d", v.I)
	case KIP:
		n := 4
		if v.V6 {
			n = 16
		}
		fmt.Fprintf(sb, "ip:%v:%x/%d", v.V6, v.Addr[:n], v.Plen)
	case KSet:
		sb.WriteString("set[")
		for _, e := range v.Elems {
			e.key(sb)
			sb.WriteByte(',')
		}
		sb.WriteByte(']')
	case KRecord:
		sb.WriteString("rec{")
		for i, k := range v.Keys {
			fmt.Fprintf(sb, "%q=", k)
			v.Vals[i].key(sb)
			sb.WriteByte(',')
		}
		sb.WriteByte('}')
	}
}

func (v Val) Equal(w Val) bool { return v.Key() == w.Key() }

func (v Val) String() string { return v.Key() }

// SetContains reports membership under reference equality.
func (v Val) SetContains(e Val) bool {
	k := e.Key()
	for _, x := range v.Elems {
		if x.Key() == k {
			return true
		}
	}
	return false
}

// ---------------------------------------------------------------------------
// exact arithmetic helpers

var (
	minI64 = big.NewInt(-1 << 63)
	maxI64 = new(big.Int).SetUint64(1<<63 - 1)
)

func fits(x *big.Int) bool { return x.Cmp(minI64) >= 0 && x.Cmp(maxI64) <= 0 }

func bi(i int64) *big.Int { return big.NewInt(i) }

// floorDiv / floorMod on int64 with a positive divisor.
func floorDiv(a, d int64) int64 {
	q := a / d
	if a%d != 0 && a < 0 {
		q--
	}
	return q
}
