package refsem

import (
	"math/big"
	"strings"
)

// Reference recognisers for the extension literal syntaxes (Cedar docs, RFC 80,
// RFC 110). Each returns (value, true) iff the string is a valid literal whose
// value is representable.

func isDigits(s string) bool {
	if s == "" {
		return false
	}
	for i := 0; i < len(s); i++ {
		if s[i] < '0' || s[i] > '9' {
			return false
		}
	}
	return true
}

// ParseDecimal: -?[0-9]+\.[0-9]{1,4}, value*10^4 within int64.
func ParseDecimal(s string) (Val, bool) {
	neg := strings.HasPrefix(s, "-")
	body := strings.TrimPrefix(s, "-")
	dot := strings.IndexByte(body, '.')
	if dot < 0 {
		return Val{}, false
	}
	ip, fp := body[:dot], body[dot+1:]
	if !isDigits(ip) || !isDigits(fp) || len(fp) > 4 {
		return Val{}, false
	}
	for len(fp) < 4 {
		fp += "0"
	}
	n, _ := new(big.Int).SetString(ip+fp, 10)
	if neg {
		n.Neg(n)
	}
	if !fits(n) {
		return Val{}, false
	}
	return Decimal(n.Int64()), true
}

// DecimalString is the canonical printed form: at least one fractional digit,
// trailing zeros removed.
func DecimalString(units int64) string {
	n := big.NewInt(units)
	neg := n.Sign() < 0
	n.Abs(n)
	q, r := new(big.Int).QuoRem(n, big.NewInt(10000), new(big.Int))
	fp := r.String()
	for len(fp) < 4 {
		fp = "0" + fp
	}
	for len(fp) > 1 && fp[len(fp)-1] == '0' {
		fp = fp[:len(fp)-1]
	}
	s := q.String() + "." + fp
	if neg {
		s = "-" + s
	}
	return s
}

// ---------------------------------------------------------------------------
// calendar (proleptic Gregorian, astronomical year numbering)

func isLeap(y int64) bool { return (y%4 == 0 && y%100 != 0) || y%400 == 0 }

func daysInMonth(y int64, m int) int {
	switch m {
	case 1, 3, 5, 7, 8, 10, 12:
		return 31
	case 4, 6, 9, 11:
		return 30
	}
	if isLeap(y) {
		return 29
	}
	return 28
}

// DaysFromCivil: days since 1970-01-01 (Howard Hinnant's algorithm).
func DaysFromCivil(y int64, m, d int) int64 {
	if m <= 2 {
		y--
	}
	era := floorDiv(y, 400)
	yoe := y - era*400
	mp := int64((m + 9) % 12)
	doy := (153*mp+2)/5 + int64(d) - 1
	doe := yoe*365 + yoe/4 - yoe/100 + doy
	return era*146097 + doe - 719468
}

// CivilFromDays is the inverse.
func CivilFromDays(z int64) (y int64, m, d int) {
	z += 719468
	era := floorDiv(z, 146097)
	doe := z - era*146097
	yoe := (doe - doe/1460 + doe/36524 - doe/146096) / 365
	y = yoe + era*400
	doy := doe - (365*yoe + yoe/4 - yoe/100)
	mp := (5*doy + 2) / 153
	d = int(doy - (153*mp+2)/5 + 1)
	if mp < 10 {
		m = int(mp + 3)
	} else {
		m = int(mp - 9)
	}
	if m <= 2 {
		y++
	}
	return
}

func num(s string) int64 {
	var n int64
	for i := 0; i < len(s); i++ {
		n = n*10 + int64(s[i]-'0')
	}
	return n
}

// ParseDatetime recognises
//
//	YYYY-MM-DD | YYYY-MM-DDThh:mm:ss[.SSS](Z|(+|-)hhmm)
//
// and the same with a signed 9-digit year ((+|-)YYYYYYYYY). Calendar-valid date,
// hh<=23, mm<=59, ss<=59, offset hh<=23 mm<=59, result within int64 ms.
func ParseDatetime(s string) (Val, bool) {
	ylen, sign := 4, int64(1)
	if s != "" && (s[0] == '+' || s[0] == '-') {
		ylen = 9
		if s[0] == '-' {
			sign = -1
		}
		s = s[1:]
	}
	if len(s) < ylen+6 || !isDigits(s[:ylen]) {
		return Val{}, false
	}
	year := sign * num(s[:ylen])
	s = s[ylen:]
	if s[0] != '-' || !isDigits(s[1:3]) || s[3] != '-' || !isDigits(s[4:6]) {
		return Val{}, false
	}
	month, day := int(num(s[1:3])), int(num(s[4:6]))
	s = s[6:]
	if month < 1 || month > 12 || day < 1 || day > daysInMonth(year, month) {
		return Val{}, false
	}
	ms := new(big.Int).Mul(bi(DaysFromCivil(year, month, day)), bi(86400000))
	if s == "" {
		if !fits(ms) {
			return Val{}, false
		}
		return Datetime(ms.Int64()), true
	}
	// Thh:mm:ss
	if len(s) < 9 || s[0] != 'T' || !isDigits(s[1:3]) || s[3] != ':' || !isDigits(s[4:6]) || s[6] != ':' || !isDigits(s[7:9]) {
		return Val{}, false
	}
	hh, mi, ss := num(s[1:3]), num(s[4:6]), num(s[7:9])
	if hh > 23 || mi > 59 || ss > 59 {
		return Val{}, false
	}
	s = s[9:]
	var milli int64
	if strings.HasPrefix(s, ".") {
		if len(s) < 4 || !isDigits(s[1:4]) {
			return Val{}, false
		}
		milli = num(s[1:4])
		s = s[4:]
	}
	var off int64
	switch {
	case s == "Z":
	case len(s) == 5 && (s[0] == '+' || s[0] == '-') && isDigits(s[1:5]):
		oh, om := num(s[1:3]), num(s[3:5])
		if oh > 23 || om > 59 {
			return Val{}, false
		}
		off = (oh*60 + om) * 60000
		if s[0] == '-' {
			off = -off
		}
	default:
		return Val{}, false
	}
	ms.Add(ms, bi(hh*3600000+mi*60000+ss*1000+milli-off))
	if !fits(ms) {
		return Val{}, false
	}
	return Datetime(ms.Int64()), true
}

func pad(n int64, w int) string {
	s := big.NewInt(n).String()
	for len(s) < w {
		s = "0" + s
	}
	return s
}

// DatetimeString is the canonical printed form: YYYY-MM-DDThh:mm:ss.SSSZ for years
// 0000..9999, otherwise the signed 9-digit expanded year.
func DatetimeString(ms int64) string {
	days := floorDiv(ms, 86400000)
	rem := ms - days*86400000
	y, m, d := CivilFromDays(days)
	var ys string
	if y >= 0 && y <= 9999 {
		ys = pad(y, 4)
	} else if y < 0 {
		ys = "-" + pad(-y, 9)
	} else {
		ys = "+" + pad(y, 9)
	}
	return ys + "-" + pad(int64(m), 2) + "-" + pad(int64(d), 2) + "T" + pad(rem/3600000, 2) + ":" + pad(rem/60000%60, 2) + ":" + pad(rem/1000%60, 2) + "." + pad(rem%1000, 3) + "Z"
}

// ParseDuration: -?(Nd)?(Nh)?(Nm)?(Ns)?(Nms)? with at least one component, units in
// that order, each at most once; exact total within int64 ms.
func ParseDuration(s string) (Val, bool) {
	neg := strings.HasPrefix(s, "-")
	s = strings.TrimPrefix(s, "-")
	if s == "" {
		return Val{}, false
	}
	units := []struct {
		u  string
		ms int64
	}{{"d", 86400000}, {"h", 3600000}, {"m", 60000}, {"s", 1000}, {"ms", 1}}
	total := new(big.Int)
	ui := 0
	for s != "" {
		j := 0
		for j < len(s) && s[j] >= '0' && s[j] <= '9' {
			j++
		}
		if j == 0 {
			return Val{}, false
		}
		q, _ := new(big.Int).SetString(s[:j], 10)
		s = s[j:]
		// longest unit match: "ms" before "m"
		var unit string
		switch {
		case strings.HasPrefix(s, "ms"):
			unit = "ms"
		case s != "" && strings.ContainsRune("dhms", rune(s[0])):
			unit = s[:1]
		default:
			return Val{}, false
		}
		s = s[len(unit):]
		found := false
		for ui < len(units) {
			if units[ui].u == unit {
				total.Add(total, q.Mul(q, bi(units[ui].ms)))
				ui++
				found = true
				break
			}
			ui++
		}
		if !found {
			return Val{}, false
		}
	}
	if neg {
		total.Neg(total)
	}
	if !fits(total) {
		return Val{}, false
	}
	return Duration(total.Int64()), true
}

// DurationString is the canonical printed form.
func DurationString(ms int64) string {
	if ms == 0 {
		return "0ms"
	}
	n := big.NewInt(ms)
	out := ""
	if n.Sign() < 0 {
		out = "-"
		n.Abs(n)
	}
	for _, u := range []struct {
		u  string
		ms int64
	}{{"d", 86400000}, {"h", 3600000}, {"m", 60000}, {"s", 1000}, {"ms", 1}} {
		q, r := new(big.Int).QuoRem(n, bi(u.ms), new(big.Int))
		if q.Sign() > 0 {
			out += q.String() + u.u
		}
		n = r
	}
	return out
}

// ParseIP recognises dotted-quad IPv4 and hexadecimal IPv6 (one optional "::",
// no embedded IPv4, no zone), each with an optional /len without leading zeros.
// It deliberately answers "unknown" (ok=false, known=false) for spellings whose
// status in the specification the author is not certain about.
func ParseIP(s string) (v Val, ok bool, known bool) {
	addr, plenS, hasP := strings.Cut(s, "/")
	plen := -1
	if hasP {
		if !isDigits(plenS) || len(plenS) > 3 {
			return Val{}, false, true
		}
		if len(plenS) > 1 && plenS[0] == '0' {
			return Val{}, false, false // leading zero in prefix length: not asserted
		}
		plen = int(num(plenS))
	}
	if strings.Contains(addr, "%") {
		return Val{}, false, false
	}
	if strings.Contains(addr, ":") {
		if strings.Contains(addr, ".") {
			return Val{}, false, true
		}
		var out [16]byte
		parseGroups := func(p string) ([]uint16, bool) {
			if p == "" {
				return nil, true
			}
			var gs []uint16
			for _, g := range strings.Split(p, ":") {
				if len(g) < 1 || len(g) > 4 {
					return nil, false
				}
				var x uint16
				for i := 0; i < len(g); i++ {
					c := g[i]
					var d byte
					switch {
					case c >= '0' && c <= '9':
						d = c - '0'
					case c >= 'a' && c <= 'f':
						d = c - 'a' + 10
					case c >= 'A' && c <= 'F':
						d = c - 'A' + 10
					default:
						return nil, false
					}
					x = x<<4 | uint16(d)
				}
				gs = append(gs, x)
			}
			return gs, true
		}
		var groups []uint16
		if i := strings.Index(addr, "::"); i >= 0 {
			if strings.Contains(addr[i+2:], "::") {
				return Val{}, false, true
			}
			l, ok1 := parseGroups(addr[:i])
			r, ok2 := parseGroups(addr[i+2:])
			if !ok1 || !ok2 || len(l)+len(r) > 7 {
				return Val{}, false, true
			}
			groups = append(groups, l...)
			for k := 0; k < 8-len(l)-len(r); k++ {
				groups = append(groups, 0)
			}
			groups = append(groups, r...)
		} else {
			g, ok1 := parseGroups(addr)
			if !ok1 || len(g) != 8 {
				return Val{}, false, true
			}
			groups = g
		}
		for i, g := range groups {
			out[2*i], out[2*i+1] = byte(g>>8), byte(g)
		}
		if plen < 0 {
			plen = 128
		}
		if plen > 128 {
			return Val{}, false, true
		}
		return IP6(out, plen), true, true
	}
	parts := strings.Split(addr, ".")
	if len(parts) != 4 {
		return Val{}, false, true
	}
	var b [4]byte
	for i, p := range parts {
		if !isDigits(p) || len(p) > 3 {
			return Val{}, false, true
		}
		if len(p) > 1 && p[0] == '0' {
			return Val{}, false, false // leading zeros: not asserted
		}
		n := num(p)
		if n > 255 {
			return Val{}, false, true
		}
		b[i] = byte(n)
	}
	if plen < 0 {
		plen = 32
	}
	if plen > 32 {
		return Val{}, false, true
	}
	return IP4(b[0], b[1], b[2], b[3], plen), true, true
}
