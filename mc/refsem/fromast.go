package refsem

import (
	"fmt"

	"github.com/cedar-policy/cedar-go/types"
	"github.com/cedar-policy/cedar-go/x/exp/ast"
)

// FromAST converts an implementation AST into the neutral expression form. It is used
// only by the oracle-conformance run (refsem against the decisions recorded in the DRT
// corpus), never by a deciding check: there the direction is always refsem -> AST.
func FromAST(n ast.IsNode) (*Expr, error) {
	un := func(op Op, a ast.IsNode) (*Expr, error) {
		x, err := FromAST(a)
		if err != nil {
			return nil, err
		}
		return Un(op, x), nil
	}
	bin := func(op Op, a, b ast.IsNode) (*Expr, error) {
		x, err := FromAST(a)
		if err != nil {
			return nil, err
		}
		y, err := FromAST(b)
		if err != nil {
			return nil, err
		}
		return Bin(op, x, y), nil
	}
	list := func(ns []ast.IsNode) ([]*Expr, error) {
		out := make([]*Expr, len(ns))
		for i, a := range ns {
			x, err := FromAST(a)
			if err != nil {
				return nil, err
			}
			out[i] = x
		}
		return out, nil
	}
	switch v := n.(type) {
	case ast.NodeValue:
		val, err := FromImpl(v.Value)
		if err != nil {
			return nil, err
		}
		return L(val), nil
	case ast.NodeTypeVariable:
		return Var(string(v.Name)), nil
	case ast.NodeTypeAnd:
		return bin(OAnd, v.Left, v.Right)
	case ast.NodeTypeOr:
		return bin(OOr, v.Left, v.Right)
	case ast.NodeTypeNot:
		return un(ONot, v.Arg)
	case ast.NodeTypeNegate:
		return un(ONeg, v.Arg)
	case ast.NodeTypeIfThenElse:
		c, err := FromAST(v.If)
		if err != nil {
			return nil, err
		}
		t, err := FromAST(v.Then)
		if err != nil {
			return nil, err
		}
		e, err := FromAST(v.Else)
		if err != nil {
			return nil, err
		}
		return If(c, t, e), nil
	case ast.NodeTypeEquals:
		return bin(OEq, v.Left, v.Right)
	case ast.NodeTypeNotEquals:
		return bin(ONe, v.Left, v.Right)
	case ast.NodeTypeLessThan:
		return bin(OLt, v.Left, v.Right)
	case ast.NodeTypeLessThanOrEqual:
		return bin(OLe, v.Left, v.Right)
	case ast.NodeTypeGreaterThan:
		return bin(OGt, v.Left, v.Right)
	case ast.NodeTypeGreaterThanOrEqual:
		return bin(OGe, v.Left, v.Right)
	case ast.NodeTypeAdd:
		return bin(OAdd, v.Left, v.Right)
	case ast.NodeTypeSub:
		return bin(OSub, v.Left, v.Right)
	case ast.NodeTypeMult:
		return bin(OMul, v.Left, v.Right)
	case ast.NodeTypeIn:
		return bin(OIn, v.Left, v.Right)
	case ast.NodeTypeIs:
		x, err := FromAST(v.Left)
		if err != nil {
			return nil, err
		}
		return Is(x, string(v.EntityType)), nil
	case ast.NodeTypeIsIn:
		x, err := FromAST(v.Left)
		if err != nil {
			return nil, err
		}
		y, err := FromAST(v.Entity)
		if err != nil {
			return nil, err
		}
		return IsIn(x, string(v.EntityType), y), nil
	case ast.NodeTypeHas:
		x, err := FromAST(v.Arg)
		if err != nil {
			return nil, err
		}
		return Has(x, string(v.Value)), nil
	case ast.NodeTypeAccess:
		x, err := FromAST(v.Arg)
		if err != nil {
			return nil, err
		}
		return Access(x, string(v.Value)), nil
	case ast.NodeTypeHasTag:
		return bin(OHasTag, v.Left, v.Right)
	case ast.NodeTypeGetTag:
		return bin(OGetTag, v.Left, v.Right)
	case ast.NodeTypeLike:
		x, err := FromAST(v.Arg)
		if err != nil {
			return nil, err
		}
		return Like(x, patFromImpl(v.Value)...), nil
	case ast.NodeTypeSet:
		xs, err := list(v.Elements)
		if err != nil {
			return nil, err
		}
		return SetLit(xs...), nil
	case ast.NodeTypeRecord:
		keys := make([]string, len(v.Elements))
		vals := make([]*Expr, len(v.Elements))
		for i, e := range v.Elements {
			x, err := FromAST(e.Value)
			if err != nil {
				return nil, err
			}
			keys[i], vals[i] = string(e.Key), x
		}
		return RecLit(keys, vals), nil
	case ast.NodeTypeContains:
		return bin(OContains, v.Left, v.Right)
	case ast.NodeTypeContainsAll:
		return bin(OContainsAll, v.Left, v.Right)
	case ast.NodeTypeContainsAny:
		return bin(OContainsAny, v.Left, v.Right)
	case ast.NodeTypeIsEmpty:
		return un(OIsEmpty, v.Arg)
	case ast.NodeTypeExtensionCall:
		xs, err := list(v.Args)
		if err != nil {
			return nil, err
		}
		return Ext(string(v.Name), xs...), nil
	}
	return nil, fmt.Errorf("FromAST: unsupported node %T", n)
}

// patFromImpl recovers the components of a pattern from its Cedar rendering
// (the only public view of a types.Pattern): `*` is the wildcard, `\*` a literal star.
func patFromImpl(p types.Pattern) []PatElem {
	b := p.MarshalCedar()
	// strip the quotes, then decode with the reference string-literal decoder
	s := string(b[1 : len(b)-1])
	var out []PatElem
	var lit []rune
	flush := func() {
		if len(lit) > 0 {
			out = append(out, PatElem{Lit: string(lit)})
			lit = nil
		}
	}
	rs := []rune(s)
	for i := 0; i < len(rs); i++ {
		r := rs[i]
		switch {
		case r == '*':
			flush()
			out = append(out, PatElem{Wild: true})
		case r == '\\' && i+1 < len(rs):
			i++
			switch rs[i] {
			case '*':
				lit = append(lit, '*')
			case 'n':
				lit = append(lit, '\n')
			case 'r':
				lit = append(lit, '\r')
			case 't':
				lit = append(lit, '\t')
			case '0':
				lit = append(lit, 0)
			case '"', '\\', '\'':
				lit = append(lit, rs[i])
			case 'u':
				// \u{hex}
				j := i + 2
				var x rune
				for j < len(rs) && rs[j] != '}' {
					var d rune
					switch c := rs[j]; {
					case c >= '0' && c <= '9':
						d = c - '0'
					case c >= 'a' && c <= 'f':
						d = c - 'a' + 10
					case c >= 'A' && c <= 'F':
						d = c - 'A' + 10
					}
					x = x*16 + d
					j++
				}
				lit = append(lit, x)
				i = j
			default:
				lit = append(lit, '\\', rs[i])
			}
		default:
			lit = append(lit, r)
		}
	}
	flush()
	return out
}

func scopeFrom(s any) (Scope, error) {
	ent := func(u types.EntityUID) [2]string { return [2]string{string(u.Type), string(u.ID)} }
	switch v := s.(type) {
	case ast.ScopeTypeAll:
		return Scope{Kind: ScAll}, nil
	case ast.ScopeTypeEq:
		return Scope{Kind: ScEq, Ent: ent(v.Entity)}, nil
	case ast.ScopeTypeIn:
		return Scope{Kind: ScIn, Ent: ent(v.Entity)}, nil
	case ast.ScopeTypeInSet:
		sc := Scope{Kind: ScInSet}
		for _, e := range v.Entities {
			sc.Ents = append(sc.Ents, ent(e))
		}
		return sc, nil
	case ast.ScopeTypeIs:
		return Scope{Kind: ScIs, Type: string(v.Type)}, nil
	case ast.ScopeTypeIsIn:
		return Scope{Kind: ScIsIn, Type: string(v.Type), Ent: ent(v.Entity)}, nil
	}
	return Scope{}, fmt.Errorf("scopeFrom: unsupported scope %T", s)
}

// PolicyFromAST converts a parsed policy.
func PolicyFromAST(p *ast.Policy) (*Policy, error) {
	out := &Policy{Forbid: p.Effect == ast.EffectForbid}
	var err error
	if out.Principal, err = scopeFrom(p.Principal); err != nil {
		return nil, err
	}
	if out.Action, err = scopeFrom(p.Action); err != nil {
		return nil, err
	}
	if out.Resource, err = scopeFrom(p.Resource); err != nil {
		return nil, err
	}
	for _, c := range p.Conditions {
		b, err := FromAST(c.Body)
		if err != nil {
			return nil, err
		}
		out.Conds = append(out.Conds, Cond{When: c.Condition == ast.ConditionWhen, Body: b})
	}
	return out, nil
}

// StoreFromImpl converts an entity map.
func StoreFromImpl(m types.EntityMap) (Store, error) {
	s := Store{}
	for uid, e := range m {
		ent := &Ent{Type: string(uid.Type), ID: string(uid.ID)}
		for p := range e.Parents.All() {
			ent.Parents = append(ent.Parents, [2]string{string(p.Type), string(p.ID)})
		}
		a, err := FromImpl(e.Attributes)
		if err != nil {
			return nil, err
		}
		t, err := FromImpl(e.Tags)
		if err != nil {
			return nil, err
		}
		ent.Attrs, ent.Tags = a, t
		s[[2]string{ent.Type, ent.ID}] = ent
	}
	return s, nil
}
