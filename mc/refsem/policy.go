package refsem

import (
	"sort"

	"github.com/cedar-policy/cedar-go/types"
	"github.com/cedar-policy/cedar-go/x/exp/ast"
)

type ScopeKind int

const (
	ScAll ScopeKind = iota
	ScEq
	ScIn
	ScInSet // action only
	ScIs    // principal / resource only
	ScIsIn  // principal / resource only
)

type Scope struct {
	Kind ScopeKind
	Ent  [2]string   // Eq, In, IsIn
	Ents [][2]string // InSet
	Type string      // Is, IsIn
}

type Cond struct {
	When bool
	Body *Expr
}

type Annot struct{ K, V string }

type Policy struct {
	Forbid                      bool
	Annots                      []Annot
	Principal, Action, Resource Scope
	Conds                       []Cond
}

func uid(e [2]string) types.EntityUID {
	return types.NewEntityUID(types.EntityType(e[0]), types.String(e[1]))
}

func (p *Policy) ToAST() *ast.Policy {
	var out *ast.Policy
	if p.Forbid {
		out = ast.Forbid()
	} else {
		out = ast.Permit()
	}
	for _, a := range p.Annots {
		out.Annotate(types.Ident(a.K), types.String(a.V))
	}
	switch s := p.Principal; s.Kind {
	case ScEq:
		out.PrincipalEq(uid(s.Ent))
	case ScIn:
		out.PrincipalIn(uid(s.Ent))
	case ScIs:
		out.PrincipalIs(types.EntityType(s.Type))
	case ScIsIn:
		out.PrincipalIsIn(types.EntityType(s.Type), uid(s.Ent))
	}
	switch s := p.Action; s.Kind {
	case ScEq:
		out.ActionEq(uid(s.Ent))
	case ScIn:
		out.ActionIn(uid(s.Ent))
	case ScInSet:
		if len(s.Ents) == 0 {
			out.ActionInSet()
			break
		}
		us := make([]types.EntityUID, len(s.Ents))
		for i, e := range s.Ents {
			us[i] = uid(e)
		}
		out.ActionInSet(us...)
	}
	switch s := p.Resource; s.Kind {
	case ScEq:
		out.ResourceEq(uid(s.Ent))
	case ScIn:
		out.ResourceIn(uid(s.Ent))
	case ScIs:
		out.ResourceIs(types.EntityType(s.Type))
	case ScIsIn:
		out.ResourceIsIn(types.EntityType(s.Type), uid(s.Ent))
	}
	for _, c := range p.Conds {
		if c.When {
			out.When(c.Body.ToAST())
		} else {
			out.Unless(c.Body.ToAST())
		}
	}
	return out
}

type Outcome int

const (
	Unsatisfied Outcome = iota
	Satisfied
	Erroring
	NoOpinion // the oracle abstained somewhere on the evaluated path
)

func (o Outcome) String() string {
	return [...]string{"unsatisfied", "satisfied", "erroring", "no-opinion"}[o]
}

func scopeMatch(s Scope, v Val, env *Env) (bool, ErrClass) {
	if s.Kind == ScAll {
		return true, OK
	}
	if v.K != KEntity {
		return false, ErrType
	}
	me := [2]string{v.T, v.S}
	switch s.Kind {
	case ScEq:
		return me == s.Ent, OK
	case ScIn:
		return env.Store.Reaches(me, s.Ent), OK
	case ScInSet:
		for _, e := range s.Ents {
			if env.Store.Reaches(me, e) {
				return true, OK
			}
		}
		return false, OK
	case ScIs:
		return v.T == s.Type, OK
	case ScIsIn:
		return v.T == s.Type && env.Store.Reaches(me, s.Ent), OK
	}
	panic("bad scope")
}

// Sat classifies a policy: satisfied iff scope and all conditions evaluate to
// true (conjunction, left to right, short-circuit); erroring iff the evaluation
// fails or a condition is not boolean.
func (p *Policy) Sat(env *Env) Outcome {
	for _, sv := range []struct {
		s Scope
		v Val
	}{{p.Principal, env.Principal}, {p.Action, env.Action}, {p.Resource, env.Resource}} {
		ok, ec := scopeMatch(sv.s, sv.v, env)
		if ec != OK {
			return Erroring
		}
		if !ok {
			return Unsatisfied
		}
	}
	for _, c := range p.Conds {
		v, ec := Eval(c.Body, env)
		if ec == Abstain {
			return NoOpinion
		}
		if ec != OK || v.K != KBool {
			return Erroring
		}
		if v.B != c.When {
			return Unsatisfied
		}
	}
	return Satisfied
}

// Decision is the authorization decision table.
type Decision struct {
	Allow   bool
	Reasons []string // policy ids, sorted
	Errors  []string // policy ids, sorted
}

func Decide(ids []string, outcomes []Outcome, forbid []bool) Decision {
	var perm, forb, errs []string
	for i, id := range ids {
		switch outcomes[i] {
		case Satisfied:
			if forbid[i] {
				forb = append(forb, id)
			} else {
				perm = append(perm, id)
			}
		case Erroring:
			errs = append(errs, id)
		}
	}
	sort.Strings(perm)
	sort.Strings(forb)
	sort.Strings(errs)
	d := Decision{Errors: errs}
	if len(forb) > 0 {
		d.Reasons = forb
		return d
	}
	if len(perm) > 0 {
		d.Allow = true
		d.Reasons = perm
	}
	return d
}
