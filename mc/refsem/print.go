package refsem

import (
	"fmt"
	"strings"
)

// Reference printer for Cedar policy text, written from the grammar in the Cedar
// documentation:
//
//	Expr     ::= Or | 'if' Expr 'then' Expr 'else' Expr
//	Or       ::= And {'||' And}
//	And      ::= Relation {'&&' Relation}
//	Relation ::= Add [RELOP Add] | Add 'has' (IDENT|STR) | Add 'like' PAT | Add 'is' Path ['in' Add]
//	Add      ::= Mult {('+'|'-') Mult}
//	Mult     ::= Unary {'*' Unary}
//	Unary    ::= ['!'|'-']x4 Member
//	Member   ::= Primary {Access}
//	Primary  ::= LITERAL | VAR | Entity | ExtFun '(' [ExprList] ')' | '(' Expr ')' | '[' [ExprList] ']' | '{' [RecInits] '}'
//
// The printer emits a token list; a layout joins the tokens.

type PrintMode int

const (
	FullParens PrintMode = iota // every operator operand that is not a leaf is parenthesised
	MinParens                   // only the parentheses precedence / associativity require
)

// precedence levels
const (
	lvIf = iota
	lvOr
	lvAnd
	lvRel
	lvAdd
	lvMul
	lvUnary
	lvMember
	lvPrimary
)

func level(e *Expr) int {
	switch e.Op {
	case OIf:
		return lvIf
	case OOr:
		return lvOr
	case OAnd:
		return lvAnd
	case OEq, ONe, OLt, OLe, OGt, OGe, OIn, OHas, OLike, OIs, OIsIn:
		return lvRel
	case OAdd, OSub:
		return lvAdd
	case OMul:
		return lvMul
	case ONot, ONeg:
		return lvUnary
	case OAccess, OHasTag, OGetTag, OContains, OContainsAll, OContainsAny, OIsEmpty:
		return lvMember
	case OExt:
		if ExtIsMethod[e.Str] {
			return lvMember
		}
		return lvPrimary
	case OLit:
		if e.Val.K == KLong && e.Val.I < 0 {
			return lvUnary
		}
		return lvPrimary
	}
	return lvPrimary
}

type printer struct {
	mode PrintMode
	toks []string
}

func (p *printer) emit(t ...string) { p.toks = append(p.toks, t...) }

// child prints e where the grammar position requires at least level min.
func (p *printer) child(e *Expr, min int) {
	need := level(e) < min
	if p.mode == FullParens && !isLeaf(e) {
		need = true
	}
	if need {
		p.emit("(")
		p.expr(e)
		p.emit(")")
		return
	}
	p.expr(e)
}

func isLeaf(e *Expr) bool {
	return (e.Op == OLit && level(e) == lvPrimary) || e.Op == OVar
}

var relText = map[Op]string{OEq: "==", ONe: "!=", OLt: "<", OLe: "<=", OGt: ">", OGe: ">=", OIn: "in"}

func isIdent(s string) bool {
	if s == "" {
		return false
	}
	for i, r := range s {
		if !(r == '_' || (r >= 'a' && r <= 'z') || (r >= 'A' && r <= 'Z') || (i > 0 && r >= '0' && r <= '9')) {
			return false
		}
	}
	switch s {
	case "true", "false", "if", "then", "else", "in", "like", "has", "is", "__cedar":
		return false
	}
	return true
}

// StrLit renders a string literal: printable ASCII as is, `"` and `\` escaped, the
// named escapes for \n \r \t \0, everything else as \u{..}.
func StrLit(s string) string {
	var sb strings.Builder
	sb.WriteByte('"')
	for _, r := range s {
		escRune(&sb, r, false)
	}
	sb.WriteByte('"')
	return sb.String()
}

func escRune(sb *strings.Builder, r rune, pattern bool) {
	switch {
	case r == '"':
		sb.WriteString(`\"`)
	case r == '\\':
		sb.WriteString(`\\`)
	case r == '\n':
		sb.WriteString(`\n`)
	case r == '\r':
		sb.WriteString(`\r`)
	case r == '\t':
		sb.WriteString(`\t`)
	case r == 0:
		sb.WriteString(`\0`)
	case pattern && r == '*':
		sb.WriteString(`\*`)
	case r >= 0x20 && r < 0x7f:
		sb.WriteRune(r)
	default:
		fmt.Fprintf(sb, `\u{%x}`, r)
	}
}

func PatLit(pat []PatElem) string {
	var sb strings.Builder
	sb.WriteByte('"')
	for _, c := range pat {
		if c.Wild {
			sb.WriteByte('*')
			continue
		}
		for _, r := range c.Lit {
			escRune(&sb, r, true)
		}
	}
	sb.WriteByte('"')
	return sb.String()
}

func (p *printer) entity(t, id string) {
	parts := strings.Split(t, "::")
	for i, part := range parts {
		if i > 0 {
			p.emit("::")
		}
		p.emit(part)
	}
	p.emit("::", StrLit(id))
}

func (p *printer) path(t string) {
	for i, part := range strings.Split(t, "::") {
		if i > 0 {
			p.emit("::")
		}
		p.emit(part)
	}
}

func (p *printer) list(open, close string, args []*Expr) {
	p.emit(open)
	for i, a := range args {
		if i > 0 {
			p.emit(",")
		}
		p.child(a, lvIf)
	}
	p.emit(close)
}

func (p *printer) expr(e *Expr) {
	switch e.Op {
	case OLit:
		v := e.Val
		switch v.K {
		case KBool:
			if v.B {
				p.emit("true")
			} else {
				p.emit("false")
			}
		case KLong:
			if v.I < 0 {
				// a negative literal is the unary minus applied to its magnitude
				p.emit("-", strings.TrimPrefix(fmt.Sprint(v.I), "-"))
			} else {
				p.emit(fmt.Sprint(v.I))
			}
		case KString:
			p.emit(StrLit(v.S))
		case KEntity:
			p.entity(v.T, v.S)
		default:
			panic("refsem printer: literal kind " + v.K.String() + " has no literal syntax (use constructor / set / record expressions)")
		}
	case OVar:
		p.emit(e.Str)
	case OIf:
		p.emit("if")
		p.child(e.Args[0], lvIf)
		p.emit("then")
		p.child(e.Args[1], lvIf)
		p.emit("else")
		p.child(e.Args[2], lvIf)
	case OOr:
		p.child(e.Args[0], lvOr)
		p.emit("||")
		p.child(e.Args[1], lvAnd)
	case OAnd:
		p.child(e.Args[0], lvAnd)
		p.emit("&&")
		p.child(e.Args[1], lvRel)
	case OEq, ONe, OLt, OLe, OGt, OGe, OIn:
		p.child(e.Args[0], lvAdd)
		p.emit(relText[e.Op])
		p.child(e.Args[1], lvAdd)
	case OHas:
		p.child(e.Args[0], lvAdd)
		p.emit("has")
		if isIdent(e.Str) {
			p.emit(e.Str)
		} else {
			p.emit(StrLit(e.Str))
		}
	case OLike:
		p.child(e.Args[0], lvAdd)
		p.emit("like", PatLit(e.Pat))
	case OIs:
		p.child(e.Args[0], lvAdd)
		p.emit("is")
		p.path(e.Str)
	case OIsIn:
		p.child(e.Args[0], lvAdd)
		p.emit("is")
		p.path(e.Str)
		p.emit("in")
		p.child(e.Args[1], lvAdd)
	case OAdd, OSub:
		p.child(e.Args[0], lvAdd)
		if e.Op == OAdd {
			p.emit("+")
		} else {
			p.emit("-")
		}
		p.child(e.Args[1], lvMul)
	case OMul:
		p.child(e.Args[0], lvMul)
		p.emit("*")
		p.child(e.Args[1], lvUnary)
	case ONot:
		p.emit("!")
		p.child(e.Args[0], lvUnary)
	case ONeg:
		p.emit("-")
		p.child(e.Args[0], lvUnary)
	case OAccess:
		p.child(e.Args[0], lvMember)
		if isIdent(e.Str) {
			p.emit(".", e.Str)
		} else {
			p.emit("[", StrLit(e.Str), "]")
		}
	case OHasTag, OGetTag, OContains, OContainsAll, OContainsAny:
		p.child(e.Args[0], lvMember)
		name := map[Op]string{OHasTag: "hasTag", OGetTag: "getTag", OContains: "contains", OContainsAll: "containsAll", OContainsAny: "containsAny"}[e.Op]
		p.emit(".", name)
		p.list("(", ")", e.Args[1:])
	case OIsEmpty:
		p.child(e.Args[0], lvMember)
		p.emit(".", "isEmpty", "(", ")")
	case OSetLit:
		p.list("[", "]", e.Args)
	case ORecLit:
		p.emit("{")
		for i, a := range e.Args {
			if i > 0 {
				p.emit(",")
			}
			if isIdent(e.Keys[i]) && i%2 == 0 {
				p.emit(e.Keys[i])
			} else {
				p.emit(StrLit(e.Keys[i]))
			}
			p.emit(":")
			p.child(a, lvIf)
		}
		p.emit("}")
	case OExt:
		if ExtIsMethod[e.Str] {
			p.child(e.Args[0], lvMember)
			p.emit(".", e.Str)
			p.list("(", ")", e.Args[1:])
		} else {
			p.emit(e.Str)
			p.list("(", ")", e.Args)
		}
	default:
		panic("refsem printer: bad op")
	}
}

func (p *printer) scope(varName string, s Scope) {
	p.emit(varName)
	switch s.Kind {
	case ScEq:
		p.emit("==")
		p.entity(s.Ent[0], s.Ent[1])
	case ScIn:
		p.emit("in")
		p.entity(s.Ent[0], s.Ent[1])
	case ScInSet:
		p.emit("in", "[")
		for i, e := range s.Ents {
			if i > 0 {
				p.emit(",")
			}
			p.entity(e[0], e[1])
		}
		p.emit("]")
	case ScIs:
		p.emit("is")
		p.path(s.Type)
	case ScIsIn:
		p.emit("is")
		p.path(s.Type)
		p.emit("in")
		p.entity(s.Ent[0], s.Ent[1])
	}
}

// ExprTokens / PolicyTokens return the token list of the rendering.
func ExprTokens(e *Expr, mode PrintMode) []string {
	p := &printer{mode: mode}
	p.expr(e)
	return p.toks
}

func PolicyTokens(pol *Policy, mode PrintMode) []string {
	p := &printer{mode: mode}
	for _, a := range pol.Annots {
		p.emit("@", a.K, "(", StrLit(a.V), ")")
	}
	if pol.Forbid {
		p.emit("forbid")
	} else {
		p.emit("permit")
	}
	p.emit("(")
	p.scope("principal", pol.Principal)
	p.emit(",")
	p.scope("action", pol.Action)
	p.emit(",")
	p.scope("resource", pol.Resource)
	p.emit(")")
	for _, c := range pol.Conds {
		if c.When {
			p.emit("when")
		} else {
			p.emit("unless")
		}
		p.emit("{")
		p.expr(c.Body)
		p.emit("}")
	}
	p.emit(";")
	return p.toks
}

type Layout int

const (
	LayoutTight Layout = iota // no optional whitespace
	LayoutSpaces
	LayoutComments // newline and a // comment between every pair of tokens
	LayoutCRLFTabs
	LayoutEmptyComments // an empty line comment (`//` directly followed by the newline) between every pair of tokens
	LayoutFormFeed      // blank lines, one-character and adjacent line comments, trailing spaces
	NLayouts
)

func wordish(b byte) bool {
	return b == '_' || (b >= 'a' && b <= 'z') || (b >= 'A' && b <= 'Z') || (b >= '0' && b <= '9')
}

// Join lays the tokens out.
func Join(toks []string, l Layout) string {
	var sb strings.Builder
	for i, t := range toks {
		if i > 0 {
			prev := toks[i-1]
			switch l {
			case LayoutTight:
				if wordish(prev[len(prev)-1]) && wordish(t[0]) {
					sb.WriteByte(' ')
				}
			case LayoutSpaces:
				sb.WriteByte(' ')
			case LayoutComments:
				sb.WriteString(" // é \"c\" */ if\n\t")
			case LayoutCRLFTabs:
				sb.WriteString("\r\n\t")
			case LayoutEmptyComments:
				sb.WriteString("//\n")
			case LayoutFormFeed:
				sb.WriteString(" \n\n //x\n// y\n \t")
			}
		}
		sb.WriteString(t)
	}
	return sb.String()
}
