package refsem

import (
	"fmt"
	"net/netip"
	"unsafe"

	"github.com/cedar-policy/cedar-go/types"
)

// ToImpl builds the implementation value through the public constructors.
func (v Val) ToImpl() types.Value {
	switch v.K {
	case KBool:
		return types.Boolean(v.B)
	case KLong:
		return types.Long(v.I)
	case KString:
		return types.String(v.S)
	case KEntity:
		return types.NewEntityUID(types.EntityType(v.T), types.String(v.S))
	case KDecimal:
		d, err := types.NewDecimal(v.I, -4)
		if err != nil {
			panic(fmt.Sprintf("harness: NewDecimal(%d,-4): %v", v.I, err))
		}
		return d
	case KDatetime:
		return types.NewDatetimeFromMillis(v.I)
	case KDuration:
		return types.NewDurationFromMillis(v.I)
	case KIP:
		return v.ipImpl()
	case KSet:
		if len(v.Elems) == 0 {
			return types.NewSet()
		}
		el := make([]types.Value, len(v.Elems))
		for i, e := range v.Elems {
			el[i] = e.ToImpl()
		}
		return types.NewSet(el...)
	case KRecord:
		m := types.RecordMap{}
		for i, k := range v.Keys {
			m[types.String(k)] = v.Vals[i].ToImpl()
		}
		return types.NewRecord(m)
	}
	panic("harness: bad kind")
}

func (v Val) ipImpl() types.IPAddr {
	var a netip.Addr
	if v.V6 {
		a = netip.AddrFrom16(v.Addr)
	} else {
		a = netip.AddrFrom4([4]byte{v.Addr[0], v.Addr[1], v.Addr[2], v.Addr[3]})
	}
	return types.IPAddr(netip.PrefixFrom(a, v.Plen))
}

// DecimalUnits reads the stored fixed-point value of an implementation Decimal
// without going through any of its (tested) accessors.
func DecimalUnits(d types.Decimal) int64 { return *(*int64)(unsafe.Pointer(&d)) }

// FromImpl converts an implementation value to neutral form using only
// accessors. A structurally malformed value (a set that yields duplicates, a
// length that disagrees with the iteration, a nil member) is an error.
func FromImpl(x types.Value) (Val, error) {
	switch t := x.(type) {
	case nil:
		return Val{}, fmt.Errorf("nil value")
	case types.Boolean:
		return Bool(bool(t)), nil
	case types.Long:
		return Long(int64(t)), nil
	case types.String:
		return Str(string(t)), nil
	case types.EntityUID:
		return Entity(string(t.Type), string(t.ID)), nil
	case types.Decimal:
		return Decimal(DecimalUnits(t)), nil
	case types.Datetime:
		return Datetime(t.Milliseconds()), nil
	case types.Duration:
		return Duration(t.ToMilliseconds()), nil
	case types.IPAddr:
		p := t.Prefix()
		a := p.Addr()
		v := Val{K: KIP, Plen: p.Bits()}
		if a.Is4() {
			b := a.As4()
			copy(v.Addr[:], b[:])
		} else {
			v.V6 = true
			v.Addr = a.As16()
		}
		return v, nil
	case types.Set:
		var elems []Val
		seen := map[string]bool{}
		n := 0
		for e := range t.All() {
			n++
			ev, err := FromImpl(e)
			if err != nil {
				return Val{}, fmt.Errorf("set member: %w", err)
			}
			k := ev.Key()
			if seen[k] {
				return Val{}, fmt.Errorf("set yields duplicate member %s", k)
			}
			seen[k] = true
			elems = append(elems, ev)
		}
		if n != t.Len() {
			return Val{}, fmt.Errorf("set Len()=%d but iteration yields %d", t.Len(), n)
		}
		return Set(elems...), nil
	case types.Record:
		var kvs []KV
		n := 0
		for k, e := range t.All() {
			n++
			ev, err := FromImpl(e)
			if err != nil {
				return Val{}, fmt.Errorf("record member %q: %w", k, err)
			}
			kvs = append(kvs, KV{string(k), ev})
		}
		if n != t.Len() {
			return Val{}, fmt.Errorf("record Len()=%d but iteration yields %d", t.Len(), n)
		}
		return Rec(kvs...), nil
	}
	return Val{}, fmt.Errorf("unknown value type %T", x)
}

// ---------------------------------------------------------------------------
// entity stores

type Ent struct {
	Type, ID string
	Parents  [][2]string // (type, id)
	Attrs    Val         // record
	Tags     Val         // record
}

type Store map[[2]string]*Ent

func NewStore(ents ...*Ent) Store {
	s := Store{}
	for _, e := range ents {
		if e.Attrs.K != KRecord {
			e.Attrs = Rec()
		}
		if e.Tags.K != KRecord {
			e.Tags = Rec()
		}
		s[[2]string{e.Type, e.ID}] = e
	}
	return s
}

func (s Store) ToImpl() types.EntityMap {
	m := types.EntityMap{}
	for k, e := range s {
		uid := types.NewEntityUID(types.EntityType(k[0]), types.String(k[1]))
		ps := make([]types.EntityUID, len(e.Parents))
		for i, p := range e.Parents {
			ps[i] = types.NewEntityUID(types.EntityType(p[0]), types.String(p[1]))
		}
		m[uid] = types.Entity{
			UID:        uid,
			Parents:    types.NewEntityUIDSet(ps...),
			Attributes: e.Attrs.ToImpl().(types.Record),
			Tags:       e.Tags.ToImpl().(types.Record),
		}
	}
	return m
}

// Reaches: a == b, or b reachable from a through parent edges of entities present
// in the store (plain DFS with a visited set over the present-source subgraph).
func (s Store) Reaches(a, b [2]string) bool {
	if a == b {
		return true
	}
	seen := map[[2]string]bool{a: true}
	stack := [][2]string{a}
	for len(stack) > 0 {
		n := stack[len(stack)-1]
		stack = stack[:len(stack)-1]
		e, ok := s[n]
		if !ok {
			continue
		}
		for _, p := range e.Parents {
			if p == b {
				return true
			}
			if !seen[p] {
				seen[p] = true
				stack = append(stack, p)
			}
		}
	}
	return false
}

// Env is a request + store in neutral form.
type Env struct {
	Store                       Store
	Principal, Action, Resource Val
	Context                     Val
}
