// Package c03: entity membership `in` is reflexive-transitive reachability (E1 + E6).
package c03

import (
	"fmt"
	"strings"

	cedar "github.com/cedar-policy/cedar-go"
	publicast "github.com/cedar-policy/cedar-go/ast"
	"github.com/cedar-policy/cedar-go/types"
	"github.com/cedar-policy/cedar-go/verif/core"
	xast "github.com/cedar-policy/cedar-go/x/exp/ast"
	"github.com/cedar-policy/cedar-go/x/exp/eval"
)

// nodes: n0,n1 of type A; n2,n3 of type B; plus one entity that is never in a store.
var nodeUID = []types.EntityUID{
	types.NewEntityUID("A", "n0"), types.NewEntityUID("A", "n1"), types.NewEntityUID("B", "n2"), types.NewEntityUID("B", "n3"),
}
var never = types.NewEntityUID("A", "never")
var typeNames = []types.EntityType{"A", "B"}

// countingGetter bounds the number of Get calls of one evaluation: the hierarchy
// loops call Get on every iteration, so exceeding the bound is non-termination.
type countingGetter struct {
	m     types.EntityMap
	calls int
	limit int
}

type runaway struct{}

func (g *countingGetter) Get(uid types.EntityUID) (types.Entity, bool) {
	g.calls++
	if g.calls > g.limit {
		panic(runaway{})
	}
	e, ok := g.m[uid]
	return e, ok
}

type graph struct {
	n       int
	present []bool
	parents []int // bitmask over n nodes (only for present nodes)
}

func decode(n int, i int64) graph {
	g := graph{n: n, present: make([]bool, n), parents: make([]int, n)}
	radix := int64(1 + (1 << n))
	for j := 0; j < n; j++ {
		d := i % radix
		i /= radix
		if d > 0 {
			g.present[j] = true
			g.parents[j] = int(d - 1)
		}
	}
	return g
}

func (g graph) String() string {
	var sb strings.Builder
	for j := 0; j < g.n; j++ {
		if !g.present[j] {
			fmt.Fprintf(&sb, "n%d:absent ", j)
			continue
		}
		fmt.Fprintf(&sb, "n%d->{", j)
		for k := 0; k < g.n; k++ {
			if g.parents[j]>>k&1 == 1 {
				fmt.Fprintf(&sb, "n%d,", k)
			}
		}
		sb.WriteString("} ")
	}
	return sb.String()
}

// reach[a][b]: reference reachability (Floyd–Warshall on the present-source subgraph).
func (g graph) reach() [][]bool {
	n := g.n
	r := make([][]bool, n)
	for a := 0; a < n; a++ {
		r[a] = make([]bool, n)
		r[a][a] = true
		if g.present[a] {
			for b := 0; b < n; b++ {
				if g.parents[a]>>b&1 == 1 {
					r[a][b] = true
				}
			}
		}
	}
	for k := 0; k < n; k++ {
		for a := 0; a < n; a++ {
			for b := 0; b < n; b++ {
				if r[a][k] && r[k][b] {
					r[a][b] = true
				}
			}
		}
	}
	return r
}

func (g graph) store() types.EntityMap {
	m := types.EntityMap{}
	for j := 0; j < g.n; j++ {
		if !g.present[j] {
			continue
		}
		var ps []types.EntityUID
		for k := 0; k < g.n; k++ {
			if g.parents[j]>>k&1 == 1 {
				ps = append(ps, nodeUID[k])
			}
		}
		m[nodeUID[j]] = types.Entity{UID: nodeUID[j], Parents: types.NewEntityUIDSet(ps...)}
	}
	return m
}

// precomputed per n: target list (nodes + never), target subsets, policies
type pre struct {
	n        int
	targets  []types.EntityUID    // index n == never
	inOne    []*cedar.PolicySet   // principal in targets[b]
	inSet    []*cedar.PolicySet   // action in [subset]
	isIn     [][]*cedar.PolicySet // [type][b] resource is T in targets[b]
	inOneAST []*xast.Policy
	inSetAST []*xast.Policy
	isInAST  [][]*xast.Policy
	setVals  []types.Value
	subsets  [][]types.EntityUID
}

func one(p *xast.Policy) *cedar.PolicySet {
	ps := cedar.NewPolicySet()
	ps.Add("p", cedar.NewPolicyFromAST((*publicast.Policy)(p)))
	return ps
}

func mkPre(n int) *pre {
	p := &pre{n: n}
	p.targets = append(append([]types.EntityUID{}, nodeUID[:n]...), never)
	for _, b := range p.targets {
		a := xast.Permit().PrincipalIn(b)
		p.inOneAST = append(p.inOneAST, a)
		p.inOne = append(p.inOne, one(a))
	}
	for s := 0; s < 1<<(n+1); s++ {
		var us []types.EntityUID
		var vs []types.Value
		for k := 0; k <= n; k++ {
			if s>>k&1 == 1 {
				us = append(us, p.targets[k])
				vs = append(vs, p.targets[k])
			}
		}
		p.subsets = append(p.subsets, us)
		p.setVals = append(p.setVals, types.NewSet(vs...))
		a := xast.Permit().ActionInSet(us...)
		p.inSetAST = append(p.inSetAST, a)
		p.inSet = append(p.inSet, one(a))
	}
	for _, t := range typeNames {
		var row []*cedar.PolicySet
		var rowA []*xast.Policy
		for _, b := range p.targets {
			a := xast.Permit().ResourceIsIn(t, b)
			rowA = append(rowA, a)
			row = append(row, one(a))
		}
		p.isIn = append(p.isIn, row)
		p.isInAST = append(p.isInAST, rowA)
	}
	return p
}

func family(n int) *core.Family {
	p := mkPre(n)
	radix := int64(1 + (1 << n))
	total := int64(1)
	for j := 0; j < n; j++ {
		total *= radix
	}
	other := types.NewEntityUID("Z", "z")
	return &core.Family{
		Name: fmt.Sprintf("graphs-n%d", n),
		Desc: fmt.Sprintf("all parent graphs over %d nodes (self-loops allowed) x every presence subset (absent nodes carry no edges: %d canonical stores) x every ordered pair incl. a never-present target x every target set (2^%d) x seams {Eval in, Eval in-set, Eval is-in, Authorize scope in / in-set / is-in, PartialPolicy scope}", n, total, n+1),
		N:    total,
		Run: func(t *core.T, i int64) {
			g := decode(n, i)
			r := g.reach()
			em := g.store()
			getter := &countingGetter{m: em, limit: 200 + 20*n*n}
			reachT := func(a, b int) bool { return b < n && r[a][b] } // never-node: only reflexively, and a is never it
			nontriv := false
			guard := func(sig string, in func() string, f func()) {
				getter.calls = 0
				defer func() {
					if x := recover(); x != nil {
						if _, ok := x.(runaway); ok {
							t.Fail("non-termination:"+sig, in(), "terminates", fmt.Sprintf("more than %d EntityGetter.Get calls in one evaluation", getter.limit))
							return
						}
						panic(x)
					}
				}()
				f()
			}
			for a := 0; a < n; a++ {
				ua := nodeUID[a]
				env := eval.Env{Entities: getter, Principal: ua, Action: ua, Resource: ua, Context: types.Record{}}
				req := cedar.Request{Principal: ua, Action: ua, Resource: ua}
				// pairs
				for b := 0; b <= n; b++ {
					want := reachT(a, b)
					if want && a != b {
						nontriv = true
					}
					in := func() string { return fmt.Sprintf("store: %s; n%d in %s", g, a, p.targets[b]) }
					guard("eval-in", in, func() {
						v, err := eval.Eval(xast.Value(ua).In(xast.Value(p.targets[b])).AsIsNode(), env)
						if err != nil || v != types.Boolean(want) {
							t.Fail("eval-in:wrong", in(), fmt.Sprint(want), fmt.Sprintf("%v, %v", v, err))
						}
					})
					guard("authorize-principal-in", in, func() {
						dec, diag := cedar.Authorize(p.inOne[b], getter, req)
						if bool(dec) != want || len(diag.Errors) != 0 {
							t.Fail("authorize-principal-in:wrong", in(), fmt.Sprint(want), fmt.Sprintf("%v %v", dec, diag.Errors))
						}
					})
					guard("partial-principal-in", in, func() {
						_, keep := eval.PartialPolicy(env, p.inOneAST[b])
						if keep != want {
							t.Fail("partial-principal-in:wrong", in(), fmt.Sprint(want), fmt.Sprint(keep))
						}
					})
					for ti, tn := range typeNames {
						wantT := want && ua.Type == tn
						inT := func() string { return fmt.Sprintf("store: %s; n%d is %s in %s", g, a, tn, p.targets[b]) }
						guard("eval-is-in", inT, func() {
							v, err := eval.Eval(xast.Value(ua).IsIn(tn, xast.Value(p.targets[b])).AsIsNode(), env)
							if err != nil || v != types.Boolean(wantT) {
								t.Fail("eval-is-in:wrong", inT(), fmt.Sprint(wantT), fmt.Sprintf("%v, %v", v, err))
							}
						})
						guard("authorize-resource-is-in", inT, func() {
							dec, diag := cedar.Authorize(p.isIn[ti][b], getter, req)
							if bool(dec) != wantT || len(diag.Errors) != 0 {
								t.Fail("authorize-resource-is-in:wrong", inT(), fmt.Sprint(wantT), fmt.Sprintf("%v %v", dec, diag.Errors))
							}
						})
						guard("partial-resource-is-in", inT, func() {
							_, keep := eval.PartialPolicy(env, p.isInAST[ti][b])
							if keep != wantT {
								t.Fail("partial-resource-is-in:wrong", inT(), fmt.Sprint(wantT), fmt.Sprint(keep))
							}
						})
					}
				}
				// target sets
				for s := range p.subsets {
					want := false
					for k := 0; k <= n; k++ {
						if s>>k&1 == 1 && reachT(a, k) {
							want = true
						}
					}
					in := func() string { return fmt.Sprintf("store: %s; n%d in %v", g, a, p.subsets[s]) }
					guard("eval-in-set", in, func() {
						v, err := eval.Eval(xast.Value(ua).In(xast.Value(p.setVals[s])).AsIsNode(), env)
						if err != nil || v != types.Boolean(want) {
							t.Fail("eval-in-set:wrong", in(), fmt.Sprint(want), fmt.Sprintf("%v, %v", v, err))
						}
					})
					guard("authorize-action-in-set", in, func() {
						dec, diag := cedar.Authorize(p.inSet[s], getter, req)
						if bool(dec) != want || len(diag.Errors) != 0 {
							t.Fail("authorize-action-in-set:wrong", in(), fmt.Sprint(want), fmt.Sprintf("%v %v", dec, diag.Errors))
						}
					})
					guard("partial-action-in-set", in, func() {
						_, keep := eval.PartialPolicy(env, p.inSetAST[s])
						if keep != want {
							t.Fail("partial-action-in-set:wrong", in(), fmt.Sprint(want), fmt.Sprint(keep))
						}
					})
				}
			}
			// a queried entity that is not in the store and not a node: only reflexive
			{
				env := eval.Env{Entities: getter, Principal: other, Action: other, Resource: other, Context: types.Record{}}
				for b := 0; b <= n; b++ {
					in := func() string { return fmt.Sprintf("store: %s; Z::z in %s", g, p.targets[b]) }
					guard("eval-in-foreign", in, func() {
						v, err := eval.Eval(xast.Value(other).In(xast.Value(p.targets[b])).AsIsNode(), env)
						if err != nil || v != types.Boolean(false) {
							t.Fail("eval-in-foreign:wrong", in(), "false", fmt.Sprintf("%v, %v", v, err))
						}
					})
				}
				guard("eval-in-self", func() string { return "Z::z in Z::z" }, func() {
					v, err := eval.Eval(xast.Value(other).In(xast.Value(other)).AsIsNode(), env)
					if err != nil || v != types.Boolean(true) {
						t.Fail("eval-in-self:wrong", "Z::z in Z::z", "true", fmt.Sprintf("%v, %v", v, err))
					}
				})
			}
			if nontriv {
				t.Nontrivial()
			}
			t.AddStates(1)
			t.AddTrans(int64(n*(n+1)*9 + n*(1<<(n+1))*3))
			t.SampleF(g.String)
		},
	}
}

func Check() *core.Check {
	return &core.Check{
		ID:    "C03",
		Title: "Entity membership `in` is reflexive-transitive reachability",
		Rule: "every directed parent graph over n named nodes with every subset of nodes present in the store, every (a,b) pair and every target set, on three copies of the hierarchy logic (evaluator, compiled scope in Authorize, partial-evaluation scope); oracle = Floyd-Warshall reachability over edges whose source is present; " +
			"a case (store) is non-trivial if some pair a!=b is reachable; termination is decided by bounding EntityGetter.Get calls",
		Assumptions: []string{"graphs with more than 4 nodes are outside the bound (the quantifier's random larger graphs would be sampling and are not done)"},
		Families: func(tier string) []*core.Family {
			fams := []*core.Family{family(1), family(2), family(3)}
			f4 := family(4)
			return append(fams, f4)
		},
	}
}
