// Package c03: entity membership `in` is reflexive-transitive reachability (E1 + E6).
package c03

import (
	"fmt"
	"strings"
	"time"

	cedar "github.com/cedar-policy/cedar-go"
	publicast "github.com/cedar-policy/cedar-go/ast"
	"github.com/cedar-policy/cedar-go/types"
	"github.com/cedar-policy/cedar-go/verif/core"
	xast "github.com/cedar-policy/cedar-go/x/exp/ast"
	"github.com/cedar-policy/cedar-go/x/exp/eval"
)

// nodes: two of type A, two of type B, and the id strings are SHARED across the types
// (A::"x", A::"y", B::"x", B::"y"): an entity is identified by type and id together, so
// anything keyed by the id alone conflates two nodes; plus one entity that is never in a store.
var nodeUID = []types.EntityUID{
	types.NewEntityUID("A", "x"), types.NewEntityUID("A", "y"), types.NewEntityUID("B", "x"), types.NewEntityUID("B", "y"),
}
var never = types.NewEntityUID("A", "never")
var typeNames = []types.EntityType{"A", "B"}

// countingGetter bounds the number of Get calls of one evaluation: the hierarchy
// loops call Get on every iteration, so exceeding the bound is non-termination.
type countingGetter struct {
	m     types.EntityMap
	calls int
	limit int
}

type runaway struct{}

func (g *countingGetter) Get(uid types.EntityUID) (types.Entity, bool) {
	g.calls++
	if g.calls > g.limit {
		panic(runaway{})
	}
	e, ok := g.m[uid]
	return e, ok
}

type graph struct {
	n       int
	present []bool
	parents []int // bitmask over n nodes (only for present nodes)
}

func decode(n int, i int64) graph {
	g := graph{n: n, present: make([]bool, n), parents: make([]int, n)}
	radix := int64(1 + (1 << n))
	for j := 0; j < n; j++ {
		d := i % radix
		i /= radix
		if d > 0 {
			g.present[j] = true
			g.parents[j] = int(d - 1)
		}
	}
	return g
}

func (g graph) String() string {
	var sb strings.Builder
	for j := 0; j < g.n; j++ {
		if !g.present[j] {
			fmt.Fprintf(&sb, "n%d:absent ", j)
			continue
		}
		fmt.Fprintf(&sb, "n%d->{", j)
		for k := 0; k < g.n; k++ {
			if g.parents[j]>>k&1 == 1 {
				fmt.Fprintf(&sb, "n%d,", k)
			}
		}
		sb.WriteString("} ")
	}
	return sb.String()
}

// reach[a][b]: reference reachability (Floyd–Warshall on the present-source subgraph).
func (g graph) reach() [][]bool {
	n := g.n
	r := make([][]bool, n)
	for a := 0; a < n; a++ {
		r[a] = make([]bool, n)
		r[a][a] = true
		if g.present[a] {
			for b := 0; b < n; b++ {
				if g.parents[a]>>b&1 == 1 {
					r[a][b] = true
				}
			}
		}
	}
	for k := 0; k < n; k++ {
		for a := 0; a < n; a++ {
			for b := 0; b < n; b++ {
				if r[a][k] && r[k][b] {
					r[a][b] = true
				}
			}
		}
	}
	return r
}

func (g graph) store() types.EntityMap {
	m := types.EntityMap{}
	for j := 0; j < g.n; j++ {
		if !g.present[j] {
			continue
		}
		var ps []types.EntityUID
		for k := 0; k < g.n; k++ {
			if g.parents[j]>>k&1 == 1 {
				ps = append(ps, nodeUID[k])
			}
		}
		m[nodeUID[j]] = types.Entity{UID: nodeUID[j], Parents: types.NewEntityUIDSet(ps...)}
	}
	return m
}

// precomputed per n: target list (nodes + never), target subsets, policies
type pre struct {
	n        int
	targets  []types.EntityUID    // index n == never
	inOne    []*cedar.PolicySet   // principal in targets[b]
	inSet    []*cedar.PolicySet   // action in [subset]
	isIn     [][]*cedar.PolicySet // [type][b] resource is T in targets[b]
	inOneAST []*xast.Policy
	inSetAST []*xast.Policy
	isInAST  [][]*xast.Policy
	setVals  []types.Value
	subsets  [][]types.EntityUID
}

func one(p *xast.Policy) *cedar.PolicySet {
	ps := cedar.NewPolicySet()
	ps.Add("p", cedar.NewPolicyFromAST((*publicast.Policy)(p)))
	return ps
}

func mkPre(n int) *pre {
	p := &pre{n: n}
	p.targets = append(append([]types.EntityUID{}, nodeUID[:n]...), never)
	for _, b := range p.targets {
		a := xast.Permit().PrincipalIn(b)
		p.inOneAST = append(p.inOneAST, a)
		p.inOne = append(p.inOne, one(a))
	}
	for s := 0; s < 1<<(n+1); s++ {
		var us []types.EntityUID
		var vs []types.Value
		for k := 0; k <= n; k++ {
			if s>>k&1 == 1 {
				us = append(us, p.targets[k])
				vs = append(vs, p.targets[k])
			}
		}
		p.subsets = append(p.subsets, us)
		p.setVals = append(p.setVals, types.NewSet(vs...))
		a := xast.Permit().ActionInSet(us...)
		p.inSetAST = append(p.inSetAST, a)
		p.inSet = append(p.inSet, one(a))
	}
	for _, t := range typeNames {
		var row []*cedar.PolicySet
		var rowA []*xast.Policy
		for _, b := range p.targets {
			a := xast.Permit().ResourceIsIn(t, b)
			rowA = append(rowA, a)
			row = append(row, one(a))
		}
		p.isIn = append(p.isIn, row)
		p.isInAST = append(p.isInAST, rowA)
	}
	return p
}

func family(n int) *core.Family {
	p := mkPre(n)
	radix := int64(1 + (1 << n))
	total := int64(1)
	for j := 0; j < n; j++ {
		total *= radix
	}
	other := types.NewEntityUID("Z", "z")
	return &core.Family{
		Name: fmt.Sprintf("graphs-n%d", n),
		Desc: fmt.Sprintf("all parent graphs over %d nodes (self-loops allowed) x every presence subset (absent nodes carry no edges: %d canonical stores) x every ordered pair incl. a never-present target x every target set (2^%d) x seams {Eval in, Eval in-set, Eval is-in, Authorize scope in / in-set / is-in, PartialPolicy scope}", n, total, n+1),
		N:    total,
		Run: func(t *core.T, i int64) {
			g := decode(n, i)
			r := g.reach()
			em := g.store()
			getter := &countingGetter{m: em, limit: 200 + 20*n*n}
			reachT := func(a, b int) bool { return b < n && r[a][b] } // never-node: only reflexively, and a is never it
			nontriv := false
			guard := func(sig string, in func() string, f func()) {
				getter.calls = 0
				defer func() {
					if x := recover(); x != nil {
						if _, ok := x.(runaway); ok {
							t.Fail("non-termination:"+sig, in(), "terminates", fmt.Sprintf("more than %d EntityGetter.Get calls in one evaluation", getter.limit))
							return
						}
						panic(x)
					}
				}()
				f()
			}
			for a := 0; a < n; a++ {
				ua := nodeUID[a]
				env := eval.Env{Entities: getter, Principal: ua, Action: ua, Resource: ua, Context: types.Record{}}
				req := cedar.Request{Principal: ua, Action: ua, Resource: ua}
				// pairs
				for b := 0; b <= n; b++ {
					want := reachT(a, b)
					if want && a != b {
						nontriv = true
					}
					in := func() string {
						return fmt.Sprintf("store (n0..n3 = A::x, A::y, B::x, B::y): %s; n%d in %s", g, a, p.targets[b])
					}
					guard("eval-in", in, func() {
						v, err := eval.Eval(xast.Value(ua).In(xast.Value(p.targets[b])).AsIsNode(), env)
						if err != nil || v != types.Boolean(want) {
							t.Fail("eval-in:wrong", in(), fmt.Sprint(want), fmt.Sprintf("%v, %v", v, err))
						}
					})
					guard("authorize-principal-in", in, func() {
						dec, diag := cedar.Authorize(p.inOne[b], getter, req)
						if bool(dec) != want || len(diag.Errors) != 0 {
							t.Fail("authorize-principal-in:wrong", in(), fmt.Sprint(want), fmt.Sprintf("%v %v", dec, diag.Errors))
						}
					})
					guard("partial-principal-in", in, func() {
						_, keep := eval.PartialPolicy(env, p.inOneAST[b])
						if keep != want {
							t.Fail("partial-principal-in:wrong", in(), fmt.Sprint(want), fmt.Sprint(keep))
						}
					})
					for ti, tn := range typeNames {
						wantT := want && ua.Type == tn
						inT := func() string { return fmt.Sprintf("store: %s; n%d is %s in %s", g, a, tn, p.targets[b]) }
						guard("eval-is-in", inT, func() {
							v, err := eval.Eval(xast.Value(ua).IsIn(tn, xast.Value(p.targets[b])).AsIsNode(), env)
							if err != nil || v != types.Boolean(wantT) {
								t.Fail("eval-is-in:wrong", inT(), fmt.Sprint(wantT), fmt.Sprintf("%v, %v", v, err))
							}
						})
						guard("authorize-resource-is-in", inT, func() {
							dec, diag := cedar.Authorize(p.isIn[ti][b], getter, req)
							if bool(dec) != wantT || len(diag.Errors) != 0 {
								t.Fail("authorize-resource-is-in:wrong", inT(), fmt.Sprint(wantT), fmt.Sprintf("%v %v", dec, diag.Errors))
							}
						})
						guard("partial-resource-is-in", inT, func() {
							_, keep := eval.PartialPolicy(env, p.isInAST[ti][b])
							if keep != wantT {
								t.Fail("partial-resource-is-in:wrong", inT(), fmt.Sprint(wantT), fmt.Sprint(keep))
							}
						})
					}
				}
				// target sets
				for s := range p.subsets {
					want := false
					for k := 0; k <= n; k++ {
						if s>>k&1 == 1 && reachT(a, k) {
							want = true
						}
					}
					in := func() string { return fmt.Sprintf("store: %s; n%d in %v", g, a, p.subsets[s]) }
					guard("eval-in-set", in, func() {
						v, err := eval.Eval(xast.Value(ua).In(xast.Value(p.setVals[s])).AsIsNode(), env)
						if err != nil || v != types.Boolean(want) {
							t.Fail("eval-in-set:wrong", in(), fmt.Sprint(want), fmt.Sprintf("%v, %v", v, err))
						}
					})
					guard("authorize-action-in-set", in, func() {
						dec, diag := cedar.Authorize(p.inSet[s], getter, req)
						if bool(dec) != want || len(diag.Errors) != 0 {
							t.Fail("authorize-action-in-set:wrong", in(), fmt.Sprint(want), fmt.Sprintf("%v %v", dec, diag.Errors))
						}
					})
					guard("partial-action-in-set", in, func() {
						_, keep := eval.PartialPolicy(env, p.inSetAST[s])
						if keep != want {
							t.Fail("partial-action-in-set:wrong", in(), fmt.Sprint(want), fmt.Sprint(keep))
						}
					})
				}
			}
			// a queried entity that is not in the store and not a node: only reflexive
			{
				env := eval.Env{Entities: getter, Principal: other, Action: other, Resource: other, Context: types.Record{}}
				for b := 0; b <= n; b++ {
					in := func() string { return fmt.Sprintf("store: %s; Z::z in %s", g, p.targets[b]) }
					guard("eval-in-foreign", in, func() {
						v, err := eval.Eval(xast.Value(other).In(xast.Value(p.targets[b])).AsIsNode(), env)
						if err != nil || v != types.Boolean(false) {
							t.Fail("eval-in-foreign:wrong", in(), "false", fmt.Sprintf("%v, %v", v, err))
						}
					})
				}
				guard("eval-in-self", func() string { return "Z::z in Z::z" }, func() {
					v, err := eval.Eval(xast.Value(other).In(xast.Value(other)).AsIsNode(), env)
					if err != nil || v != types.Boolean(true) {
						t.Fail("eval-in-self:wrong", "Z::z in Z::z", "true", fmt.Sprintf("%v, %v", v, err))
					}
				})
			}
			if nontriv {
				t.Nontrivial()
			}
			t.AddStates(1)
			t.AddTrans(int64(n*(n+1)*9 + n*(1<<(n+1))*3))
			t.SampleF(g.String)
		},
	}
}

// ---------------------------------------------------------------------------
// larger named shapes: beyond 4 nodes the space of all graphs cannot be enumerated, but
// the shapes on which a traversal can go wrong are few and parametric: long chains
// (a depth limit, a fixed-size work list), a back edge into any position of a chain
// (cycles of every length), wide parent sets (set-representation thresholds), layered
// diamonds (exponentially many paths: the visited set), an absent intermediate entity.
// Every member of each parametric class up to the stated size is run, with every
// ordered pair of nodes queried on the three copies of the hierarchy logic.

type shapeGraph struct {
	desc    string
	n       int
	present []bool
	adj     [][]int
}

func shapeUID(j int) types.EntityUID {
	// consecutive nodes share their id string and differ in type only
	return types.NewEntityUID(typeNames[j%2], types.String(fmt.Sprintf("s%d", j/2)))
}

func newShape(desc string, n int) *shapeGraph {
	g := &shapeGraph{desc: desc, n: n, present: make([]bool, n), adj: make([][]int, n)}
	for j := range g.present {
		g.present[j] = true
	}
	return g
}

func shapes(maxChain, maxFan, maxLayers int) []*shapeGraph {
	var out []*shapeGraph
	for k := 2; k <= maxChain; k++ {
		// back = -1: plain chain; otherwise an edge from the last node back to node `back`
		for back := -1; back < k; back++ {
			// absent = -1: all present; otherwise that intermediate node has no store entry
			for _, absent := range []int{-1, k / 2} {
				if absent == 0 || absent == k-1 && back >= 0 {
					continue
				}
				g := newShape(fmt.Sprintf("chain of %d, back edge to %d, absent %d", k, back, absent), k)
				for j := 0; j+1 < k; j++ {
					g.adj[j] = append(g.adj[j], j+1)
				}
				if back >= 0 {
					g.adj[k-1] = append(g.adj[k-1], back)
				}
				if absent > 0 {
					g.present[absent] = false
				}
				out = append(out, g)
			}
		}
	}
	for k := 1; k <= maxFan; k++ {
		// node 0 has k parents 1..k; parent `via` has the parent k+1 (the top)
		for _, via := range []int{1, (k + 1) / 2, k} {
			g := newShape(fmt.Sprintf("fan of %d parents, top reached through parent %d", k, via), k+2)
			for j := 1; j <= k; j++ {
				g.adj[0] = append(g.adj[0], j)
			}
			g.adj[via] = append(g.adj[via], k+1)
			out = append(out, g)
		}
	}
	for d := 2; d <= maxLayers; d++ {
		// layers of width 2; every node has both nodes of the next layer as parents; optionally a top
		for _, cyc := range []bool{false, true} {
			g := newShape(fmt.Sprintf("layered diamonds, %d layers of width 2, cycle back %v", d, cyc), 2*d+1)
			for l := 0; l+1 < d; l++ {
				for w := 0; w < 2; w++ {
					g.adj[2*l+w] = append(g.adj[2*l+w], 2*(l+1), 2*(l+1)+1)
				}
			}
			g.adj[2*(d-1)] = append(g.adj[2*(d-1)], 2*d)
			if cyc {
				g.adj[2*(d-1)+1] = append(g.adj[2*(d-1)+1], 0)
			}
			out = append(out, g)
		}
	}
	return out
}

func (g *shapeGraph) reach() [][]bool {
	r := make([][]bool, g.n)
	for a := 0; a < g.n; a++ {
		r[a] = make([]bool, g.n)
		r[a][a] = true
		stack := []int{a}
		for len(stack) > 0 {
			x := stack[len(stack)-1]
			stack = stack[:len(stack)-1]
			if !g.present[x] {
				continue
			}
			for _, y := range g.adj[x] {
				if !r[a][y] {
					r[a][y] = true
					stack = append(stack, y)
				}
			}
		}
	}
	return r
}

func shapeFamily(maxChain, maxFan, maxLayers int) *core.Family {
	sh := shapes(maxChain, maxFan, maxLayers)
	return &core.Family{
		Name: "larger-shapes",
		Desc: fmt.Sprintf("%d parametric graphs beyond 4 nodes: every chain of 2..%d nodes x every back edge (cycles of every length) x an absent intermediate; fans of 1..%d parents; layered diamonds of 2..%d layers with and without a cycle; every ordered pair of nodes and a never-present target, on Eval in / in-set / is-in, Authorize scope in and PartialPolicy scope", len(sh), maxChain, maxFan, maxLayers),
		N:    int64(len(sh)),
		Run: func(t *core.T, i int64) {
			g := sh[i]
			r := g.reach()
			em := types.EntityMap{}
			for j := 0; j < g.n; j++ {
				if !g.present[j] {
					continue
				}
				var ps []types.EntityUID
				for _, k := range g.adj[j] {
					ps = append(ps, shapeUID(k))
				}
				em[shapeUID(j)] = types.Entity{UID: shapeUID(j), Parents: types.NewEntityUIDSet(ps...)}
			}
			getter := &countingGetter{m: em, limit: 500 + 40*g.n*g.n}
			guard := func(sig string, in func() string, f func()) {
				getter.calls = 0
				defer func() {
					if x := recover(); x != nil {
						if _, ok := x.(runaway); ok {
							t.Fail("non-termination:"+sig, in(), "terminates", fmt.Sprintf("more than %d EntityGetter.Get calls in one evaluation", getter.limit))
							return
						}
						panic(x)
					}
				}()
				f()
			}
			for a := 0; a < g.n; a++ {
				ua := shapeUID(a)
				env := eval.Env{Entities: getter, Principal: ua, Action: ua, Resource: ua, Context: types.Record{}}
				req := cedar.Request{Principal: ua, Action: ua, Resource: ua}
				for b := 0; b <= g.n; b++ {
					ub := never
					want := false
					if b < g.n {
						ub = shapeUID(b)
						want = r[a][b]
					}
					in := func() string { return fmt.Sprintf("%s: %s in %s", g.desc, ua, ub) }
					guard("eval-in", in, func() {
						v, err := eval.Eval(xast.Value(ua).In(xast.Value(ub)).AsIsNode(), env)
						if err != nil || v != types.Boolean(want) {
							t.Fail("eval-in:wrong", in(), fmt.Sprint(want), fmt.Sprintf("%v, %v", v, err))
						}
					})
					guard("eval-in-set", in, func() {
						v, err := eval.Eval(xast.Value(ua).In(xast.Value(types.NewSet(never, ub))).AsIsNode(), env)
						if err != nil || v != types.Boolean(want) {
							t.Fail("eval-in-set:wrong", in(), fmt.Sprint(want), fmt.Sprintf("%v, %v", v, err))
						}
					})
					wantT := want && ua.Type == "A"
					guard("eval-is-in", in, func() {
						v, err := eval.Eval(xast.Value(ua).IsIn("A", xast.Value(ub)).AsIsNode(), env)
						if err != nil || v != types.Boolean(wantT) {
							t.Fail("eval-is-in:wrong", in(), fmt.Sprint(wantT), fmt.Sprintf("%v, %v", v, err))
						}
					})
					pa := xast.Permit().PrincipalIn(ub)
					guard("authorize-principal-in", in, func() {
						dec, diag := cedar.Authorize(one(pa), getter, req)
						if bool(dec) != want || len(diag.Errors) != 0 {
							t.Fail("authorize-principal-in:wrong", in(), fmt.Sprint(want), fmt.Sprintf("%v %v", dec, diag.Errors))
						}
					})
					ps := xast.Permit().ActionInSet(never, ub)
					guard("authorize-action-in-set", in, func() {
						dec, diag := cedar.Authorize(one(ps), getter, req)
						if bool(dec) != want || len(diag.Errors) != 0 {
							t.Fail("authorize-action-in-set:wrong", in(), fmt.Sprint(want), fmt.Sprintf("%v %v", dec, diag.Errors))
						}
					})
					guard("partial-principal-in", in, func() {
						_, keep := eval.PartialPolicy(env, pa)
						if keep != want {
							t.Fail("partial-principal-in:wrong", in(), fmt.Sprint(want), fmt.Sprint(keep))
						}
					})
				}
			}
			t.Nontrivial()
			t.AddStates(1)
			t.AddTrans(int64(g.n * (g.n + 1) * 6))
			t.Sample(g.desc)
		},
	}
}

// huge hierarchies -------------------------------------------------------------------
//
// The walks keep a work list and a visited set; a budget, a fixed table or a recursion would
// end somewhere between a few hundred and a few thousand ancestors. Each shape is built at
// sizes around the powers of two up to 2^13 (thorough 2^16); reachability comes from a plain
// breadth-first search over the same edges.

type hugeShape struct {
	desc  string
	n     int
	adj   [][]int
	pairs [][2]int // (source, target) pairs to ask about; target -1 = never present
}

func hugeShapes(tier string) []hugeShape {
	sizes := []int{255, 256, 257, 1023, 1024, 1025, 4095, 4096, 4097, 4098, 4099, 5000, 8191, 8192, 8193}
	if tier == "thorough" {
		sizes = append(sizes, 16385, 32769, 65537, 100000)
	}
	var out []hugeShape
	for _, n := range sizes {
		// chain 0 -> 1 -> ... -> n-1
		g := hugeShape{desc: fmt.Sprintf("chain of %d nodes", n), n: n, adj: make([][]int, n)}
		for i := 0; i+1 < n; i++ {
			g.adj[i] = []int{i + 1}
		}
		g.pairs = [][2]int{{0, n - 1}, {0, n - 2}, {1, n - 1}, {0, n / 2}, {n / 2, n - 1}, {n - 1, 0}, {0, -1}, {n - 2, n - 1}}
		out = append(out, g)
		// the same chain closed into a cycle
		c := hugeShape{desc: fmt.Sprintf("cycle of %d nodes", n), n: n, adj: make([][]int, n)}
		for i := 0; i < n; i++ {
			c.adj[i] = []int{(i + 1) % n}
		}
		c.pairs = [][2]int{{0, n - 1}, {1, 0}, {n - 1, n - 2}, {0, -1}}
		out = append(out, c)
		// fan: node 0 has n-2 parents, each of which has the single grandparent n-1
		f := hugeShape{desc: fmt.Sprintf("fan of %d parents under one grandparent", n-2), n: n, adj: make([][]int, n)}
		for i := 1; i < n-1; i++ {
			f.adj[0] = append(f.adj[0], i)
			f.adj[i] = []int{n - 1}
		}
		f.pairs = [][2]int{{0, n - 1}, {0, n - 2}, {1, n - 1}, {n - 1, 0}, {0, -1}}
		out = append(out, f)
		// fan whose parents each have a parent of their own; only the last of those reaches the target
		k := (n - 2) / 2
		w := hugeShape{desc: fmt.Sprintf("fan of %d parents, each with its own parent, one of which reaches the target", k), n: 2*k + 2, adj: make([][]int, 2*k+2)}
		for i := 0; i < k; i++ {
			w.adj[0] = append(w.adj[0], 1+i)
			w.adj[1+i] = []int{1 + k + i}
		}
		w.adj[2*k] = []int{2*k + 1}
		w.pairs = [][2]int{{0, 2*k + 1}, {0, 2 * k}, {0, -1}, {1, 2*k + 1}}
		out = append(out, w)
		// ladder: two chains side by side with rungs, a wide frontier at every depth
		l := hugeShape{desc: fmt.Sprintf("ladder of %d rungs", n/2), n: 2 * (n / 2), adj: make([][]int, 2*(n/2))}
		for i := 0; i+1 < n/2; i++ {
			l.adj[2*i] = []int{2*i + 2, 2*i + 3}
			l.adj[2*i+1] = []int{2*i + 2, 2*i + 3}
		}
		l.pairs = [][2]int{{0, 2*(n/2) - 1}, {1, 2*(n/2) - 2}, {0, -1}, {2*(n/2) - 1, 0}}
		out = append(out, l)
	}
	return out
}

func (g *hugeShape) reachFrom(a int) []bool {
	seen := make([]bool, g.n)
	seen[a] = true
	todo := []int{a}
	for len(todo) > 0 {
		x := todo[0]
		todo = todo[1:]
		for _, y := range g.adj[x] {
			if !seen[y] {
				seen[y] = true
				todo = append(todo, y)
			}
		}
	}
	return seen
}

func hugeFamily(tier string) *core.Family {
	sh := hugeShapes(tier)
	return &core.Family{
		Name: "huge-hierarchies",
		Desc: fmt.Sprintf("%d graphs: chains, cycles, fans, fans with private grandparents and ladders of 255 ... %d nodes; 4-8 (source, target) pairs each incl. a never-present target, on Eval in / in-set / is-in, Authorize scope in, in-set and PartialPolicy scope; oracle = breadth-first search", len(sh), sh[len(sh)-1].n),
		N:    int64(len(sh)),
		Run: func(t *core.T, i int64) {
			g := sh[i]
			em := types.EntityMap{}
			edges := 0
			for j := 0; j < g.n; j++ {
				var ps []types.EntityUID
				for _, k := range g.adj[j] {
					ps = append(ps, shapeUID(k))
				}
				edges += len(ps)
				em[shapeUID(j)] = types.Entity{UID: shapeUID(j), Parents: types.NewEntityUIDSet(ps...)}
			}
			getter := &countingGetter{m: em, limit: 1000 + 50*(g.n+edges)}
			guard := func(sig string, in func() string, f func()) {
				getter.calls = 0
				defer func() {
					if x := recover(); x != nil {
						if _, ok := x.(runaway); ok {
							t.Fail("non-termination:"+sig, in(), "terminates", fmt.Sprintf("more than %d EntityGetter.Get calls in one evaluation", getter.limit))
							return
						}
						panic(x)
					}
				}()
				f()
			}
			for _, pr := range g.pairs {
				a, b := pr[0], pr[1]
				ua, ub, want := shapeUID(a), never, false
				if b >= 0 {
					ub = shapeUID(b)
					want = g.reachFrom(a)[b]
				}
				env := eval.Env{Entities: getter, Principal: ua, Action: ua, Resource: ua, Context: types.Record{}}
				req := cedar.Request{Principal: ua, Action: ua, Resource: ua}
				in := func() string { return fmt.Sprintf("%s: %s in %s", g.desc, ua, ub) }
				guard("eval-in", in, func() {
					v, err := eval.Eval(xast.Value(ua).In(xast.Value(ub)).AsIsNode(), env)
					if err != nil || v != types.Boolean(want) {
						t.Fail("eval-in:wrong", in(), fmt.Sprint(want), fmt.Sprintf("%v, %v", v, err))
					}
				})
				guard("eval-in-set", in, func() {
					v, err := eval.Eval(xast.Value(ua).In(xast.Value(types.NewSet(never, ub))).AsIsNode(), env)
					if err != nil || v != types.Boolean(want) {
						t.Fail("eval-in-set:wrong", in(), fmt.Sprint(want), fmt.Sprintf("%v, %v", v, err))
					}
				})
				wantT := want && ua.Type == "A"
				guard("eval-is-in", in, func() {
					v, err := eval.Eval(xast.Value(ua).IsIn("A", xast.Value(ub)).AsIsNode(), env)
					if err != nil || v != types.Boolean(wantT) {
						t.Fail("eval-is-in:wrong", in(), fmt.Sprint(wantT), fmt.Sprintf("%v, %v", v, err))
					}
				})
				pa := xast.Permit().PrincipalIn(ub)
				guard("authorize-principal-in", in, func() {
					dec, diag := cedar.Authorize(one(pa), getter, req)
					if bool(dec) != want || len(diag.Errors) != 0 {
						t.Fail("authorize-principal-in:wrong", in(), fmt.Sprint(want), fmt.Sprintf("%v %v", dec, diag.Errors))
					}
				})
				ps := xast.Permit().ActionInSet(never, ub)
				guard("authorize-action-in-set", in, func() {
					dec, diag := cedar.Authorize(one(ps), getter, req)
					if bool(dec) != want || len(diag.Errors) != 0 {
						t.Fail("authorize-action-in-set:wrong", in(), fmt.Sprint(want), fmt.Sprintf("%v %v", dec, diag.Errors))
					}
				})
				pr2 := xast.Permit().ResourceIsIn("A", ub)
				guard("authorize-resource-is-in", in, func() {
					dec, diag := cedar.Authorize(one(pr2), getter, req)
					if bool(dec) != wantT || len(diag.Errors) != 0 {
						t.Fail("authorize-resource-is-in:wrong", in(), fmt.Sprint(wantT), fmt.Sprintf("%v %v", dec, diag.Errors))
					}
				})
				guard("partial-principal-in", in, func() {
					_, keep := eval.PartialPolicy(env, pa)
					if keep != want {
						t.Fail("partial-principal-in:wrong", in(), fmt.Sprint(want), fmt.Sprint(keep))
					}
				})
				t.AddTrans(7)
			}
			t.Nontrivial()
			t.AddStates(1)
			t.Sample(g.desc)
		},
	}
}

// degenerate names: an entity stored under the zero EntityUID, under an empty type, an empty
// id, ids with control characters; `in` is reachability over whatever uids the store holds.
func degenerateUIDFamily() *core.Family {
	odd := []types.EntityUID{{}, {Type: "", ID: "x"}, {Type: "A", ID: ""}, {Type: "A::B", ID: "\x00"}, {Type: "A", ID: "a\"b"}, {Type: "__cedar", ID: "x"}}
	a, b, c := types.NewEntityUID("A", "a"), types.NewEntityUID("B", "b"), types.NewEntityUID("A", "c")
	type cs struct {
		desc  string
		chain []types.EntityUID
	}
	var cases []cs
	for _, z := range odd {
		cases = append(cases,
			cs{fmt.Sprintf("%q first", z.String()), []types.EntityUID{z, a, b, c}},
			cs{fmt.Sprintf("%q second", z.String()), []types.EntityUID{a, z, b, c}},
			cs{fmt.Sprintf("%q third", z.String()), []types.EntityUID{a, b, z, c}},
			cs{fmt.Sprintf("%q last", z.String()), []types.EntityUID{a, b, c, z}},
		)
	}
	return &core.Family{
		Name: "degenerate-uids",
		Desc: fmt.Sprintf("%d chains of four entities with the zero EntityUID, an empty type, an empty id, a NUL id, a quoted id or a reserved-looking type at each position: every ordered pair on Eval in / in-set, Authorize scope in / in-set and PartialPolicy scope", len(cases)),
		N:    int64(len(cases)),
		Run: func(t *core.T, i int64) {
			ch := cases[i].chain
			em := types.EntityMap{}
			for j, u := range ch {
				var ps []types.EntityUID
				if j+1 < len(ch) {
					ps = append(ps, ch[j+1])
				}
				em[u] = types.Entity{UID: u, Parents: types.NewEntityUIDSet(ps...)}
			}
			for x := range ch {
				for y := range ch {
					ua, ub, want := ch[x], ch[y], x <= y
					env := eval.Env{Entities: em, Principal: ua, Action: ua, Resource: ua, Context: types.Record{}}
					req := cedar.Request{Principal: ua, Action: ua, Resource: ua}
					in := fmt.Sprintf("chain %v: %s in %s", ch, ua, ub)
					if v, err := eval.Eval(xast.Value(ua).In(xast.Value(ub)).AsIsNode(), env); err != nil || v != types.Boolean(want) {
						t.Fail("eval-in:wrong", in, fmt.Sprint(want), fmt.Sprintf("%v, %v", v, err))
					}
					if v, err := eval.Eval(xast.Value(ua).In(xast.Value(types.NewSet(never, ub))).AsIsNode(), env); err != nil || v != types.Boolean(want) {
						t.Fail("eval-in-set:wrong", in, fmt.Sprint(want), fmt.Sprintf("%v, %v", v, err))
					}
					pa := xast.Permit().PrincipalIn(ub)
					if dec, diag := cedar.Authorize(one(pa), em, req); bool(dec) != want || len(diag.Errors) != 0 {
						t.Fail("authorize-principal-in:wrong", in, fmt.Sprint(want), fmt.Sprintf("%v %v", dec, diag.Errors))
					}
					if dec, diag := cedar.Authorize(one(xast.Permit().ActionInSet(never, ub)), em, req); bool(dec) != want || len(diag.Errors) != 0 {
						t.Fail("authorize-action-in-set:wrong", in, fmt.Sprint(want), fmt.Sprintf("%v %v", dec, diag.Errors))
					}
					if _, keep := eval.PartialPolicy(env, pa); keep != want {
						t.Fail("partial-principal-in:wrong", in, fmt.Sprint(want), fmt.Sprint(keep))
					}
				}
			}
			t.Nontrivial()
			t.AddStates(1)
			t.Sample(cases[i].desc)
		},
	}
}

func Check() *core.Check {
	return &core.Check{
		ID:        "C03",
		HangAfter: 120 * time.Second, // cases take at most seconds (max_case_s in the evidence); see core.Family.HangAfter
		Title:     "Entity membership `in` is reflexive-transitive reachability",
		Rule: "every directed parent graph over n named nodes with every subset of nodes present in the store, every (a,b) pair and every target set, on three copies of the hierarchy logic (evaluator, compiled scope in Authorize, partial-evaluation scope); oracle = Floyd-Warshall reachability over edges whose source is present; " +
			"a case (store) is non-trivial if some pair a!=b is reachable; termination is decided by bounding EntityGetter.Get calls",
		Assumptions: []string{"beyond 4 nodes only the parametric shape classes of family larger-shapes are covered (every member up to the stated size); the quantifier's random larger graphs would be sampling and are not done"},
		Families: func(tier string) []*core.Family {
			fams := []*core.Family{family(1), family(2), family(3)}
			f4 := family(4)
			if tier == "thorough" {
				return append(fams, f4, shapeFamily(40, 160, 10), hugeFamily(tier), degenerateUIDFamily())
			}
			return append(fams, f4, shapeFamily(12, 40, 6), hugeFamily(tier), degenerateUIDFamily())
		},
	}
}
